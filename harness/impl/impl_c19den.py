"""C19 denotation driver (round 7): what the OUTPUT of format(image, spec) shows.

Jobs (stdin: JSON list; stdout: JSON list, one result per job)

  {"kind": "alpha", "style": s, "bg": null | [r, g, b], "w": w, "pixels": [[r, g, b, a], ...],
   "spec": spec, "eqs": [spec', ...]}
      An RGBA image of width w (len(pixels) / w rows; block: an even number of rows, shown at
      render resolution: one pixel per half cell) is formatted on a terminal whose default
      background colour is bg (null = undetermined; tests.set_fg_bg_colors).  Result:
      {"k": outcome, "px": what the output DISPLAYS per source pixel (block only; null = the
      terminal's own background shows), "same": [format(image, spec') == format(image, spec)]}.

  {"kind": "frames", "style": "iterm2" | "kitty", "fmt": "apng" | "webp" | "gif", "n": frames,
   "size": [w, h], "width": columns, "src": "file" | "pil-file", "set_method": null | name,
   "rff": null | bool, "spec": spec, "seeks": [positions]}
      An animated file (frame i is filled with COLORS[i]) is formatted at each seek position;
      every transmitted picture is decoded: number of frames it holds and which frame its
      first pixel shows.  Also the frames of ImageIterator(image', 1, spec) on a second
      instance.  Result: {"facts": source facts, "obs": [{"pos", "k", "trans", "iter_same"}],
      "iter": [{"k", "trans"} per frame]}.

  {"kind": "gfx", "style": "iterm2" | "kitty", "bg": null | [r, g, b], "src": "file" | "pil-file" | "pil",
   "mode": "RGBA" | "LA" | "P" | "RGB" | "L", "pixel": [r, g, b, a], "size": [w, h], "width": columns,
   "set_method": null | name, "rff": null | bool, "spec": spec}                            (round 8)
      A still PNG of that mode whose pixels all equal `pixel` (P: one palette entry with that
      transparency) — as a file, a PIL image opened from the file, or a PIL image in memory — is
      formatted with read_from_file as given (null = the library default).  Every transmitted
      picture is decoded to RGBA pixels.  Result: {"facts": source facts incl. "srcpx" (the
      file's pixel as Pillow reads it) and "modeclass", "k", "tpx": distinct transmitted pixels,
      "verb": 1 payload == the file's bytes / 0 not / -1 no file}.
"""
import implenv
from implenv import tests
import base64
import io
import os
import shutil
import sys
import tempfile
import zlib

sys.path.insert(0, os.path.join(os.path.dirname(os.path.abspath(__file__)), ".."))
import lexer  # noqa: E402  (shared, read-only)

from PIL import Image  # noqa: E402

from term_image.exceptions import StyleError  # noqa: E402
from term_image.image import BlockImage, ImageIterator, ITerm2Image, KittyImage  # noqa: E402

tests.set_cell_size((10, 20))
CLASSES = {"block": BlockImage, "kitty": KittyImage, "iterm2": ITerm2Image}
COLORS = [(255, 0, 0), (0, 255, 0), (0, 0, 255), (255, 255, 0), (0, 255, 255), (255, 0, 255),
          (128, 64, 0), (0, 128, 64)]
METHOD_NO = {"lines": 1, "whole": 2, "anim": 3}


def setup_class(C):
    if C is KittyImage:
        C._supported, C._TERM, C._TERM_VERSION, C._KITTY_VERSION = True, "kitty", "0.30.0", (0, 30, 0)
    elif C is ITerm2Image:
        C._supported, C._TERM, C._TERM_VERSION = True, "wezterm", ""
    if C is not BlockImage:
        C.forced_support = True


def outcome(fn):
    try:
        return 0, fn()
    except StyleError as e:
        return 2, str(e)[:200]
    except ValueError as e:
        return 1, str(e)[:200]
    except Exception as e:  # noqa: BLE001
        return 9, type(e).__name__ + ": " + str(e)[:200]


# ------------------------------------------------------------------------ alpha


def block_display(out, w, h):
    """Per source pixel (row-major, 2h rows of w) the colour the text displays there."""
    toks = lexer.lex(out)
    fg = bg = None
    rows, cur = [], []
    for t in toks:
        if t[0] == "fg":
            fg = list(t[1:])
        elif t[0] == "bg":
            bg = list(t[1:])
        elif t[0] == "sgr0":
            fg = bg = None
        elif t[0] == "lf":
            rows.append(cur)
            cur = []
        elif t[0] == "char":
            if t[1] == "space":
                cur.append((bg, bg))
            elif t[1] == "upper":
                cur.append((fg, bg))
            elif t[1] == "lower":
                cur.append((bg, fg))
            else:
                raise ValueError(f"unexpected glyph {t[1]!r}")
        else:
            raise ValueError(f"unexpected token {t[0]!r}")
    rows.append(cur)
    if len(rows) != h or any(len(r) != w for r in rows):
        raise ValueError(f"the text is not {w}x{h} cells: {[len(r) for r in rows]}")
    px = []
    for r in rows:
        px += [c[0] for c in r]
        px += [c[1] for c in r]
    return px


def job_alpha(job):
    C = CLASSES[job["style"]]
    setup_class(C)
    w = job["w"]
    pixels = [tuple(p) for p in job["pixels"]]
    hpx = len(pixels) // w
    img = Image.new("RGBA", (w, hpx))
    img.putdata(pixels)
    bg = job["bg"]
    tests.set_fg_bg_colors(fg=None if bg is None else (255, 255, 255), bg=None if bg is None else tuple(bg))
    try:
        im = C(img, width=w)
        k, out = outcome(lambda: format(im, job["spec"]))
        res = {"k": k, "px": [], "same": []}
        if k != 0:
            res["exc"] = out
            return res
        if job["style"] == "block":
            if im.rendered_size != (w, hpx // 2):
                res["err"] = f"not at render resolution: {im.rendered_size}"
            else:
                try:
                    res["px"] = block_display(out, w, hpx // 2)
                except Exception as e:  # noqa: BLE001
                    res["err"] = "cannot read the text: " + str(e)[:200]
        for sp in job["eqs"]:
            k2, out2 = outcome(lambda: format(im, sp))
            res["same"].append(int(k2 == 0 and out2 == out))
        return res
    finally:
        tests.set_fg_bg_colors((0, 0, 0), (0, 0, 0))


# ------------------------------------------------------------------------ frames


def which_frame(rgb):
    best = min(range(len(COLORS)), key=lambda i: sum(abs(a - b) for a, b in zip(COLORS[i], rgb)))
    return best if sum(abs(a - b) for a, b in zip(COLORS[best], rgb)) <= 24 else -1


def decode_trans(style, out):
    """[[frames held, frame shown by the first pixel], ...] per transmitted picture."""
    toks = lexer.lex(out)
    trans = []
    if style == "iterm2":
        for t in toks:
            if t[0] == "iterm":
                raw = base64.standard_b64decode(t[6])
                with Image.open(io.BytesIO(raw)) as p:
                    n = getattr(p, "n_frames", 1)
                    trans.append([n, which_frame(p.convert("RGB").getpixel((0, 0)))])
    else:
        cur = None
        done = []
        for t in toks:
            if t[0] == "kfirst":
                cur = [t[1], [t[4]]]
                if not t[2]:
                    done.append(cur)
                    cur = None
            elif t[0] == "kcont" and cur is not None:
                cur[1].append(t[3])
                if not t[1]:
                    done.append(cur)
                    cur = None
        for keys, parts in done:
            raw = base64.standard_b64decode("".join(parts))
            if keys["o"] == "z":
                raw = zlib.decompress(raw)
            bpp = keys["f"] // 8
            if bpp not in (3, 4) or keys["s"] is None or keys["v"] is None:
                with Image.open(io.BytesIO(raw)) as p:   # f=100: a PNG
                    trans.append([getattr(p, "n_frames", 1), which_frame(p.convert("RGB").getpixel((0, 0)))])
                continue
            n, rem = divmod(len(raw), keys["s"] * keys["v"] * bpp)
            trans.append([n if not rem else -1, which_frame(tuple(raw[:3]))])
    return trans


def make_file(path, fmt, n, size):
    frames = [Image.new("RGB", tuple(size), COLORS[i % len(COLORS)]) for i in range(n)]
    if fmt == "apng":
        frames[0].save(path, format="PNG", save_all=True, append_images=frames[1:], duration=100)
    elif fmt == "webp":
        frames[0].save(path, format="WEBP", save_all=True, append_images=frames[1:], duration=100, lossless=True)
    else:
        frames[0].save(path, format="GIF", save_all=True, append_images=frames[1:], duration=100)


def construct(C, job, path, keep):
    if job["src"] == "file":
        im = C.from_file(path, width=job["width"])
    else:
        pil = Image.open(path)
        keep.append(pil)
        im = C(pil, width=job["width"])
    if job.get("set_method"):
        im.set_render_method(job["set_method"])
    if job.get("rff") is not None and C is ITerm2Image:
        im.read_from_file = job["rff"]
    return im


def job_frames(job):
    style = job["style"]
    C = CLASSES[style]
    setup_class(C)
    tmp = tempfile.mkdtemp(prefix="c19den")
    keep = []
    try:
        path = os.path.join(tmp, "anim." + {"apng": "png", "webp": "webp", "gif": "gif"}[job["fmt"]])
        make_file(path, job["fmt"], job["n"], job["size"])
        im = construct(C, job, path, keep)
        with Image.open(path) as probe:
            mode = probe.mode
        rsz = im._get_render_size()
        facts = {
            "animated": bool(im.is_animated), "n_frames": im.n_frames if im.is_animated else 1,
            "rendered": list(im.rendered_size),
            "method": METHOD_NO[im._render_method],
            "readable": True,
            "fits": job["size"][0] * job["size"][1] <= rsz[0] * rsz[1],
            "mode": mode,
            "rff": bool(im.read_from_file) if C is ITerm2Image else False,
        }
        spec = job["spec"]
        # the animation, frame by frame, on a second instance
        iters, iter_frames = [], []
        im2 = construct(C, job, path, keep)
        k, fr = outcome(lambda: list(ImageIterator(im2, 1, spec)) if im2.is_animated else [])
        if k == 0:
            iter_frames = fr
            for f in fr:
                kk, tr = outcome(lambda: decode_trans(style, f))
                iters.append({"k": 0 if kk == 0 else 9, "trans": tr if kk == 0 else [], **({} if kk == 0 else {"exc": tr})})
        obs = []
        for pos in job["seeks"]:
            im.seek(pos)
            k, out = outcome(lambda: format(im, spec))
            o = {"pos": im.tell(), "k": k, "trans": [], "iter_same": -1}
            if k == 0:
                kk, tr = outcome(lambda: decode_trans(style, out))
                if kk == 0:
                    o["trans"] = tr
                else:
                    o["k"], o["exc"] = 9, tr
                if pos < len(iter_frames):
                    o["iter_same"] = int(out == iter_frames[pos])
            else:
                o["exc"] = out
            obs.append(o)
        return {"facts": facts, "obs": obs, "iter": iters}
    finally:
        for p in keep:
            try:
                p.close()
            except Exception:  # noqa: BLE001
                pass
        shutil.rmtree(tmp, ignore_errors=True)


# ------------------------------------------------------------------------ transmitted pixels


def sample_pixels(img):
    rgba = img.convert("RGBA")
    w, h = rgba.size
    pts = {(0, 0), (w - 1, 0), (0, h - 1), (w - 1, h - 1), (w // 2, h // 2)}
    return [tuple(rgba.getpixel(p)) for p in sorted(pts)]


def decode_pixels(style, out):
    """([RGBA pixels sampled from every transmitted picture], [payload bytes per picture])."""
    toks = lexer.lex(out)
    px, raws = [], []
    if style == "iterm2":
        for t in toks:
            if t[0] == "iterm":
                raw = base64.standard_b64decode(t[6])
                raws.append(raw)
                with Image.open(io.BytesIO(raw)) as p:
                    px += sample_pixels(p)
    else:
        cur, done = None, []
        for t in toks:
            if t[0] == "kfirst":
                cur = [t[1], [t[4]]]
                if not t[2]:
                    done.append(cur)
                    cur = None
            elif t[0] == "kcont" and cur is not None:
                cur[1].append(t[3])
                if not t[1]:
                    done.append(cur)
                    cur = None
        for keys, parts in done:
            raw = base64.standard_b64decode("".join(parts))
            if keys["o"] == "z":
                raw = zlib.decompress(raw)
            raws.append(raw)
            bpp = keys["f"] // 8
            if bpp not in (3, 4):
                with Image.open(io.BytesIO(raw)) as p:
                    px += sample_pixels(p)
                continue
            if len(raw) != keys["s"] * keys["v"] * bpp:
                raise ValueError("kitty payload size does not match s x v")
            with Image.frombytes("RGBA" if bpp == 4 else "RGB", (keys["s"], keys["v"]), raw) as p:
                px += sample_pixels(p)
    if not raws:
        raise ValueError("no picture transmitted")
    return px, raws


def make_still(path, mode, pixel, size):
    r, g, b, a = pixel
    size = tuple(size)
    if mode == "RGBA":
        img = Image.new("RGBA", size, (r, g, b, a))
    elif mode == "LA":
        img = Image.new("LA", size, (r, a))
    elif mode == "RGB":
        img = Image.new("RGB", size, (r, g, b))
    elif mode == "L":
        img = Image.new("L", size, r)
    elif mode == "P":
        img = Image.new("P", size, 0)
        img.putpalette([r, g, b] + [0, 0, 0] * 255)
        img.save(path, format="PNG", transparency=bytes([a]))
        return
    else:
        raise ValueError(mode)
    img.save(path, format="PNG")


def job_gfx(job):
    style = job["style"]
    C = CLASSES[style]
    setup_class(C)
    tmp = tempfile.mkdtemp(prefix="c19gfx")
    keep = []
    bg = job["bg"]
    tests.set_fg_bg_colors(fg=None if bg is None else (255, 255, 255), bg=None if bg is None else tuple(bg))
    try:
        path = os.path.join(tmp, "still.png")
        make_still(path, job["mode"], job["pixel"], job["size"])
        with open(path, "rb") as f:
            file_bytes = f.read()
        with Image.open(path) as probe:
            mode = probe.mode
            srcpx = list(probe.convert("RGBA").getpixel((0, 0)))
        if job["src"] == "file":
            im = C.from_file(path, width=job["width"])
        else:
            pil = Image.open(path)
            keep.append(pil)
            if job["src"] == "pil":
                pil.load()
                mem = pil.copy()          # no filename: nothing to read from
                keep.append(mem)
                pil = mem
            im = C(pil, width=job["width"])
        if job.get("set_method"):
            im.set_render_method(job["set_method"])
        if job.get("rff") is not None and C is ITerm2Image:
            im.read_from_file = job["rff"]
        rsz = im._get_render_size()
        facts = {
            "animated": bool(im.is_animated), "rendered": list(im.rendered_size),
            "method": METHOD_NO[im._render_method],
            "readable": job["src"] != "pil",
            "fits": job["size"][0] * job["size"][1] <= rsz[0] * rsz[1],
            "mode": mode,
            "modeclass": "opaque" if mode in ("1", "L", "RGB", "HSV", "CMYK") else "pal" if mode in ("P", "PA") else "alpha",
            "rff": bool(im.read_from_file) if C is ITerm2Image else False,
            "srcpx": srcpx,
        }
        k, out = outcome(lambda: format(im, job["spec"]))
        res = {"facts": facts, "k": k, "tpx": [], "verb": -1}
        if k != 0:
            res["exc"] = out
            return res
        kk, dec = outcome(lambda: decode_pixels(style, out))
        if kk != 0:
            res["k"], res["exc"] = 9, dec
            return res
        px, raws = dec
        res["tpx"] = [list(p) for p in dict.fromkeys(px)]
        if job["src"] != "pil":
            res["verb"] = int(len(raws) == 1 and raws[0] == file_bytes)
        return res
    finally:
        tests.set_fg_bg_colors((0, 0, 0), (0, 0, 0))
        for p in keep:
            try:
                p.close()
            except Exception:  # noqa: BLE001
                pass
        shutil.rmtree(tmp, ignore_errors=True)


if __name__ == "__main__":
    res = []
    for job in implenv.read_cases():
        try:
            res.append({"alpha": job_alpha, "gfx": job_gfx}.get(job["kind"], job_frames)(job))
        except Exception as e:  # noqa: BLE001
            import traceback
            res.append({"error": traceback.format_exc()[-1500:]})
    implenv.write_results(res)
