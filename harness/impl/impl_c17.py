"""C17 implementation driver: renders an image through the real UrwidImage widget (box or
flow size) and asks the real UrwidImageCanvas for sub-rectangles, directly
(`canvas.content(trim_left, trim_top, cols, rows)`) or through urwid's own CompositeCanvas
trimming.  A case is a HISTORY: several renders of one widget (or of widgets sharing one image
object) at different sizes, with content() requests on earlier canvases in between and after.
Returns, per canvas, the lines / image size / untrimmed content captured when it was built and
every later request's rows (as indices into a table of distinct rows)."""
import implenv
from implenv import tests
import impl_render

import urwid

import term_image
from term_image import AutoCellRatio
from term_image.image import BlockImage, ITerm2Image, KittyImage, Size, TextImage
from term_image.image import common as _common
from term_image.widget import UrwidImage, UrwidImageCanvas

DISGUISE = b"\b "


def all_trims(W, H):
    ts = []
    for tl in range(W):
        for cols in range(1, W - tl + 1):
            for tt in range(H):
                for rows in range(1, H - tt + 1):
                    ts.append([tl, tt, cols, rows])
    # the protocol's defaults (None = "the rest"), with a zero trim on that axis
    ts.append([0, 0, None, None])
    for tt in range(H):
        for rows in range(1, H - tt + 1):
            ts.append([0, tt, None, rows])
    for tl in range(W):
        for cols in range(1, W - tl + 1):
            ts.append([tl, 0, cols, None])
    return ts


def row_bytes(row):
    for seg in row:
        assert len(seg) == 3 and seg[0] is None and seg[1] == "U" and isinstance(seg[2], bytes), seg
    return b"".join(seg[2] for seg in row)


def split_disguise(b):
    n = 0
    while b.endswith(DISGUISE):
        b = b[: -len(DISGUISE)]
        n += 1
    return b.decode(), n


def via_composite(canv, W, H, tl, tt, cols, rows):
    """The same request made by urwid's own machinery (what Overlay / Columns / ListBox do)."""
    cc = urwid.CompositeCanvas(canv)
    if tt or rows != H:
        cc.trim(tt, rows)
    if tl or cols != W:
        cc.pad_trim_left_right(-tl, -(W - tl - cols))
    return list(cc.content())


def pick_trims(case, W, H, w, h, salt):
    mw, mh = case.get("max_exh", (8, 6))
    if W <= mw and H <= mh:
        return all_trims(W, H)
    # too many: a seeded sample, boundary-biased
    import random
    rng = random.Random(case.get("rseed", 0) * 1000 + salt)
    xs = sorted({0, 1, (W - w) // 2, (W - w) // 2 + 1, W - w, W - w - 1, W - 1, W // 2} & set(range(W)))
    ys = sorted({0, 1, (H - h) // 2, (H - h) // 2 + 1, H - h, H - h - 1, H - 1, H // 2} & set(range(H)))
    trims = [[0, 0, None, None], [0, 0, W, H]]
    for _ in range(case.get("n_random", 60)):
        tl = rng.choice(xs) if rng.random() < 0.5 else rng.randrange(W)
        tt = rng.choice(ys) if rng.random() < 0.5 else rng.randrange(H)
        cols = rng.choice([1, W - tl, rng.randint(1, W - tl), rng.randint(1, W - tl)])
        rows = rng.choice([1, H - tt, rng.randint(1, H - tt), rng.randint(1, H - tt)])
        trims.append([tl, tt, cols, rows])
    return trims


class Rec:
    """One canvas: everything captured WHEN IT WAS BUILT, then the observations made later."""

    def __init__(self, canv, widx, req, image, step):
        self.canv = canv
        self.tbl, self.index = [], {}
        W, H = canv.cols(), canv.rows()
        self.d = {"widget": widx, "req": list(req), "built_at": step, "size": [W, H],
                  "image_size": list(image._size), "lines": [ln.decode() for ln in canv._ti_lines],
                  "obs": [], "obs_step": [], "full_later_same": True}
        self.d["fd"], self.d["full"] = self.enc(canv.content())

    def enc(self, rows_):
        """(disguise pairs — the same on every row, else -1 —, table indices)"""
        out, ds = [], set()
        for row in rows_:
            s, n = split_disguise(row_bytes(row))
            k = self.index.get(s)
            if k is None:
                k = self.index[s] = len(self.tbl)
                self.tbl.append(s)
            out.append(k)
            ds.add(n)
        return (ds.pop() if len(ds) == 1 else 0 if not ds else -1), out


def apply_env(env, state):
    """An environment change: global cell ratio (a number, "dynamic" or "fixed" = AutoCellRatio),
    the terminal's cell size, the terminal size."""
    if "cell_size" in env:
        tests.set_cell_size(tuple(env["cell_size"]))
        state["cell_size"] = list(env["cell_size"])
    if "ratio" in env:
        r = env["ratio"]
        term_image.set_cell_ratio({"dynamic": AutoCellRatio.DYNAMIC, "fixed": AutoCellRatio.FIXED}[r]
                                  if isinstance(r, str) else float(r))
        state["ratio"] = r
    if "term_size" in env:
        import os
        ts = os.terminal_size(tuple(env["term_size"]))
        _common.get_terminal_size = term_image.utils.get_terminal_size = lambda: ts
        state["term_size"] = list(env["term_size"])


def run_case(case):
    """A history: one image, one or more UrwidImage widgets sharing it, a sequence of
    ["render", widget, size], ["trim", canvas (ordinal of its render step), trims] and
    ["env", {...}] (environment change AFTER the widgets were constructed) steps.
    Canvases stay alive and are asked for content after later renders."""
    style = case["style"]
    cls = {"block": BlockImage, "kitty": KittyImage, "iterm2": ITerm2Image}[style]
    tests.set_cell_size(tuple(case.get("cell_size", (10, 20))))
    bg = case.get("term_bg")
    tests.set_fg_bg_colors(None, tuple(bg) if bg else None)
    if tests.is_on_kitty != bool(case.get("on_kitty", False)):
        tests.toggle_is_on_kitty()
    KittyImage._supported = ITerm2Image._supported = True
    KittyImage._KITTY_VERSION = (0, 30, 0)
    term = case.get("term", "")
    ITerm2Image._TERM = term
    saved_term = tests.get_terminal_name_version()
    tests.set_terminal_name_version(term)
    UrwidImageCanvas._ti_disguise_state = case.get("cstate", 0)
    saved_ts = (_common.get_terminal_size, term_image.utils.get_terminal_size)
    term_image.set_cell_ratio(0.5)
    envstate = {"ratio": 0.5, "cell_size": list(case.get("cell_size", (10, 20))), "term_size": [80, 30]}
    try:
        img = impl_render.make_image(case["img"])
        image = cls(img)
        widgets = []
        for w in case["widgets"]:
            widget = UrwidImage(image, w.get("spec", ""), upscale=bool(w.get("upscale")))
            widget._ti_disguise_state = w.get("wstate", 0)
            widgets.append(widget)
        recs, alias = [], []
        for si, step in enumerate(case["steps"]):
            if step[0] == "env":
                apply_env(step[1], envstate)
            elif step[0] == "render":
                _, widx, size = step
                widget, size = widgets[widx], tuple(size)
                if not case.get("cache"):
                    urwid.CanvasCache.clear()
                rm = fit = ori = None
                if len(size) == 1:
                    # the environment function of the model, evaluated in the CURRENT environment
                    fit = list(image._valid_size(size[0]))
                    ori = list(image._valid_size(Size.ORIGINAL))
                    rm = widget.rows(size)
                canv = widget.render(size)
                if not isinstance(canv, UrwidImageCanvas):
                    return {"error": f"render returned {type(canv).__name__}"}
                known = [k for k, r in enumerate(recs) if r.canv is canv]
                if known:  # urwid's canvas cache handed out a canvas built earlier
                    alias.append(known[0])
                    continue
                rec = Rec(canv, widx, size, image, si)
                rec.d["text"] = isinstance(image, TextImage)
                rec.d["env"] = dict(envstate, cell_ratio=term_image.get_cell_ratio())
                if rm is not None:
                    rec.d["fit"], rec.d["ori"] = fit, ori
                    rec.d["rows_method"] = rm
                    # asked again after rendering (the answer must not depend on the order): first as urwid
                    # does (its rows() wrapper answers from the cached canvas), then the method itself
                    rec.d["rows_method_after"] = widget.rows(size)
                    if not case.get("cache"):
                        urwid.CanvasCache.clear()
                    rec.d["rows_method_after_fresh"] = widget.rows(size)
                alias.append(len(recs))
                recs.append(rec)
            else:
                _, cidx, trims = step
                rec = recs[alias[cidx]]
                canv = rec.canv
                W, H = rec.d["size"]
                w, h = rec.d["image_size"]
                if trims == "all":
                    trims = pick_trims(case, W, H, w, h, si)
                if rec.enc(canv.content()) != (rec.d["fd"], rec.d["full"]):
                    rec.d["full_later_same"] = False
                for tl, tt, cols, rows in trims:
                    if case.get("via") == "composite" and cols is not None and rows is not None:
                        got = via_composite(canv, W, H, tl, tt, cols, rows)
                    else:
                        got = list(canv.content(tl, tt, cols, rows))
                    rec.d["obs"].append([tl, tt, cols, rows, *rec.enc(got)])
                    rec.d["obs_step"].append(si)
        for rec in recs:
            rec.d["tbl"] = rec.tbl
        return {"canvases": [r.d for r in recs], "alias": alias}
    except Exception as e:
        import traceback
        where = " <- ".join(f"{fr.filename.rsplit('/', 1)[-1]}:{fr.lineno} {fr.name}"
                            for fr in reversed(traceback.extract_tb(e.__traceback__)[-4:]))
        return {"error": f"{type(e).__name__}: {e} at {where} (step {locals().get('si')}: {locals().get('step')})"}
    finally:
        ITerm2Image._TERM = ""
        UrwidImageCanvas._ti_disguise_state = 0
        tests.set_terminal_name_version(*saved_term)
        urwid.CanvasCache.clear()
        _common.get_terminal_size, term_image.utils.get_terminal_size = saved_ts
        tests.set_cell_size((10, 20))
        term_image.set_cell_ratio(0.5)


if __name__ == "__main__":
    implenv.write_results([run_case(c) for c in implenv.read_cases()])
