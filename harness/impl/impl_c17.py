"""C17 implementation driver: renders an image through the real UrwidImage widget (box or
flow size) and asks the real UrwidImageCanvas for sub-rectangles, directly
(`canvas.content(trim_left, trim_top, cols, rows)`) or through urwid's own CompositeCanvas
trimming.  Returns the canvas's lines, the untrimmed content and every requested trim's rows
(as indices into a table of distinct rows)."""
import implenv
from implenv import tests
import impl_render

import urwid

from term_image.image import BlockImage, ITerm2Image, KittyImage, TextImage
from term_image.widget import UrwidImage, UrwidImageCanvas

DISGUISE = b"\b "


def all_trims(W, H):
    ts = []
    for tl in range(W):
        for cols in range(1, W - tl + 1):
            for tt in range(H):
                for rows in range(1, H - tt + 1):
                    ts.append([tl, tt, cols, rows])
    # the protocol's defaults (None = "the rest"), with a zero trim on that axis
    ts.append([0, 0, None, None])
    for tt in range(H):
        for rows in range(1, H - tt + 1):
            ts.append([0, tt, None, rows])
    for tl in range(W):
        for cols in range(1, W - tl + 1):
            ts.append([tl, 0, cols, None])
    return ts


def row_bytes(row):
    for seg in row:
        assert len(seg) == 3 and seg[0] is None and seg[1] == "U" and isinstance(seg[2], bytes), seg
    return b"".join(seg[2] for seg in row)


def split_disguise(b):
    n = 0
    while b.endswith(DISGUISE):
        b = b[: -len(DISGUISE)]
        n += 1
    return b.decode(), n


def via_composite(canv, W, H, tl, tt, cols, rows):
    """The same request made by urwid's own machinery (what Overlay / Columns / ListBox do)."""
    cc = urwid.CompositeCanvas(canv)
    if tt or rows != H:
        cc.trim(tt, rows)
    if tl or cols != W:
        cc.pad_trim_left_right(-tl, -(W - tl - cols))
    return list(cc.content())


def run_case(case):
    style = case["style"]
    cls = {"block": BlockImage, "kitty": KittyImage, "iterm2": ITerm2Image}[style]
    tests.set_cell_size(tuple(case.get("cell_size", (10, 20))))
    bg = case.get("term_bg")
    tests.set_fg_bg_colors(None, tuple(bg) if bg else None)
    if tests.is_on_kitty != bool(case.get("on_kitty", False)):
        tests.toggle_is_on_kitty()
    KittyImage._supported = ITerm2Image._supported = True
    KittyImage._KITTY_VERSION = (0, 30, 0)
    term = case.get("term", "")
    ITerm2Image._TERM = term
    saved_term = tests.get_terminal_name_version()
    tests.set_terminal_name_version(term)
    cstate, wstate = case.get("disguise", [0, 0])
    UrwidImageCanvas._ti_disguise_state = cstate
    try:
        img = impl_render.make_image(case["img"])
        image = cls(img)
        widget = UrwidImage(image, case.get("spec", ""), upscale=bool(case.get("upscale")))
        widget._ti_disguise_state = wstate
        size = tuple(case["size"])
        res = {"text": isinstance(image, TextImage)}
        if len(size) == 1:
            res["rows_method"] = widget.rows(size)
        canv = widget.render(size)
        if not isinstance(canv, UrwidImageCanvas):
            return {"error": f"render returned {type(canv).__name__}"}
        if len(size) == 1:
            # asked again after rendering (the answer must not depend on the order)
            res["rows_method_after"] = widget.rows(size)
        W, H = canv.cols(), canv.rows()
        res["size"] = [W, H]
        res["image_size"] = list(image._size)
        res["lines"] = [ln.decode() for ln in canv._ti_lines]
        tbl, index = [], {}

        def enc(rows_):
            """(disguise pairs — the same on every row, else -1 —, table indices)"""
            out, ds = [], set()
            for row in rows_:
                s, n = split_disguise(row_bytes(row))
                k = index.get(s)
                if k is None:
                    k = index[s] = len(tbl)
                    tbl.append(s)
                out.append(k)
                ds.add(n)
            return (ds.pop() if len(ds) == 1 else 0 if not ds else -1), out

        res["fd"], res["full"] = enc(canv.content())
        trims = case["trims"]
        if trims == "all":
            mw, mh = case.get("max_exh", (8, 6))
            if W <= mw and H <= mh:
                trims = all_trims(W, H)
            else:  # too many: a seeded sample, boundary-biased
                import random
                rng = random.Random(case.get("rseed", 0))
                w, h = image._size
                xs = sorted({0, 1, (W - w) // 2, (W - w) // 2 + 1, W - w, W - w - 1, W - 1, W // 2} & set(range(W)))
                ys = sorted({0, 1, (H - h) // 2, (H - h) // 2 + 1, H - h, H - h - 1, H - 1, H // 2} & set(range(H)))
                trims = [[0, 0, None, None], [0, 0, W, H]]
                for _ in range(case.get("n_random", 60)):
                    tl = rng.choice(xs) if rng.random() < 0.5 else rng.randrange(W)
                    tt = rng.choice(ys) if rng.random() < 0.5 else rng.randrange(H)
                    cols = rng.choice([1, W - tl, rng.randint(1, W - tl), rng.randint(1, W - tl)])
                    rows = rng.choice([1, H - tt, rng.randint(1, H - tt), rng.randint(1, H - tt)])
                    trims.append([tl, tt, cols, rows])
        obs = []
        for tl, tt, cols, rows in trims:
            if case.get("via") == "composite" and cols is not None and rows is not None:
                got = via_composite(canv, W, H, tl, tt, cols, rows)
            else:
                got = list(canv.content(tl, tt, cols, rows))
            obs.append([tl, tt, cols, rows, *enc(got)])
        res["tbl"] = tbl
        res["obs"] = obs
        return res
    except Exception as e:
        import traceback
        return {"error": f"{type(e).__name__}: {e} {traceback.format_exc()[-400:]}"}
    finally:
        ITerm2Image._TERM = ""
        UrwidImageCanvas._ti_disguise_state = 0
        tests.set_terminal_name_version(*saved_term)


if __name__ == "__main__":
    implenv.write_results([run_case(c) for c in implenv.read_cases()])
