"""C17 implementation driver: renders an image through the real UrwidImage widget (box or
flow size) and asks the real UrwidImageCanvas for sub-rectangles, directly
(`canvas.content(trim_left, trim_top, cols, rows)`) or through urwid's own CompositeCanvas
trimming.  A case is a HISTORY: several renders of one widget (or of widgets sharing one image
object) at different sizes, with content() requests on earlier canvases in between and after.
Returns, per canvas, the lines / image size / untrimmed content captured when it was built and
every later request's rows (as indices into a table of distinct rows).

Round 4: (a) SIMULTANEOUS requests — ["inter", canvas, groups]: k = 2..3 content() generators of
one canvas created together and advanced by a schedule of next() calls (lock-step, one ahead,
one after the other, random, abandoned half-way and drained later); ["compose", widget, size,
layout]: the widget inside REAL urwid compositions (nested urwid.Overlay with the image partly
covered, urwid.Columns showing the same widget twice) rendered through CompositeCanvas.content()
with every UrwidImageCanvas.content() call urwid makes — arguments, and each row in the order
urwid pulls them — recorded.  Each request's rows become an ordinary observation (judged
against the crop of ITS sub-rectangle); the schedule and the sequence of next() results are
returned too.  (b) FAILING renders — the image is backed by a file that vanishes / is
overwritten with garbage, or by a renderer that raises, switched on and off by ["fail", bool]
steps, with an error placeholder of any sizing kind installed (or none): rows() before / after,
the canvas render() returns (size, rows content() yields, their widths) or the exception."""
import implenv
from implenv import tests
import impl_render

import urwid

import term_image
from term_image import AutoCellRatio
from term_image.image import BlockImage, ITerm2Image, KittyImage, Size, TextImage
from term_image.image import common as _common
from term_image.widget import UrwidImage, UrwidImageCanvas

DISGUISE = b"\b "


def all_trims(W, H):
    ts = []
    for tl in range(W):
        for cols in range(1, W - tl + 1):
            for tt in range(H):
                for rows in range(1, H - tt + 1):
                    ts.append([tl, tt, cols, rows])
    # the protocol's defaults (None = "the rest"), with a zero trim on that axis
    ts.append([0, 0, None, None])
    for tt in range(H):
        for rows in range(1, H - tt + 1):
            ts.append([0, tt, None, rows])
    for tl in range(W):
        for cols in range(1, W - tl + 1):
            ts.append([tl, 0, cols, None])
    return ts


def row_bytes(row):
    for seg in row:
        assert len(seg) == 3 and seg[0] is None and seg[1] == "U" and isinstance(seg[2], bytes), seg
    return b"".join(seg[2] for seg in row)


def split_disguise(b):
    n = 0
    while b.endswith(DISGUISE):
        b = b[: -len(DISGUISE)]
        n += 1
    return b.decode(), n


def via_composite(canv, W, H, tl, tt, cols, rows):
    """The same request made by urwid's own machinery (what Overlay / Columns / ListBox do)."""
    cc = urwid.CompositeCanvas(canv)
    if tt or rows != H:
        cc.trim(tt, rows)
    if tl or cols != W:
        cc.pad_trim_left_right(-tl, -(W - tl - cols))
    return list(cc.content())


def pick_trims(case, W, H, w, h, salt):
    mw, mh = case.get("max_exh", (8, 6))
    if W <= mw and H <= mh:
        return all_trims(W, H)
    # too many: a seeded sample, boundary-biased
    import random
    rng = random.Random(case.get("rseed", 0) * 1000 + salt)
    xs = sorted({0, 1, (W - w) // 2, (W - w) // 2 + 1, W - w, W - w - 1, W - 1, W // 2} & set(range(W)))
    ys = sorted({0, 1, (H - h) // 2, (H - h) // 2 + 1, H - h, H - h - 1, H - 1, H // 2} & set(range(H)))
    trims = [[0, 0, None, None], [0, 0, W, H]]
    for _ in range(case.get("n_random", 60)):
        tl = rng.choice(xs) if rng.random() < 0.5 else rng.randrange(W)
        tt = rng.choice(ys) if rng.random() < 0.5 else rng.randrange(H)
        cols = rng.choice([1, W - tl, rng.randint(1, W - tl), rng.randint(1, W - tl)])
        rows = rng.choice([1, H - tt, rng.randint(1, H - tt), rng.randint(1, H - tt)])
        trims.append([tl, tt, cols, rows])
    return trims


class Spy:
    """Records every UrwidImageCanvas.content() call made while installed: the canvas, the
    arguments, and — in the global order in which the generators are advanced — what each
    next() returned."""

    def __init__(self):
        self.calls, self.events, self.passthrough = [], [], False
        self.orig = None

    def __enter__(self):
        spy, orig = self, UrwidImageCanvas.content
        self.orig = orig

        def content(canv, trim_left=0, trim_top=0, cols=None, rows=None, attr_map=None):
            it = orig(canv, trim_left, trim_top, cols, rows, attr_map)
            if spy.passthrough:
                return it
            spy.calls.append({"canv": canv, "req": [trim_left, trim_top, cols, rows], "it": it, "rows": [], "done": False})
            return spy.wrap(len(spy.calls) - 1)

        UrwidImageCanvas.content = content
        return self

    def __exit__(self, *exc):
        UrwidImageCanvas.content = self.orig

    def advance(self, idx):
        call = self.calls[idx]
        try:
            row = next(call["it"])
        except StopIteration:
            self.events.append((idx, None))
            call["done"] = True
            return None
        self.events.append((idx, row))
        call["rows"].append(row)
        return row

    def wrap(self, idx):
        while True:
            row = self.advance(idx)
            if row is None:
                return
            yield row


def record_group(rec, reqs, rows_of, events, si):
    """One group of simultaneous requests on the canvas of `rec`: each request's rows as an
    ordinary observation; the schedule and what every next() returned (table index / -1)."""
    pos, idxs = [], []
    for rq, got in zip(reqs, rows_of):
        dis, ix = rec.enc(got)
        pos.append(len(rec.d["obs"]))
        rec.d["obs"].append([*rq, dis, ix])
        rec.d["obs_step"].append(si)
        idxs.append(ix)
    taken = [0] * len(reqs)
    sched, ev = [], []
    for i, row in events:
        sched.append(i)
        if row is None:
            ev.append(-1)
        else:
            ev.append(idxs[i][taken[i]])
            taken[i] += 1
    rec.d["inter"].append({"obs": pos, "sched": sched, "ev": ev, "step": si, "reqs": [list(r) for r in reqs]})


def run_group(rec, reqs, sched, si, limit):
    """k generators of one canvas created together, advanced as `sched` says, then each run to
    its end (the next() that raises StopIteration included), in order."""
    canv = rec.canv
    its = [canv.content(*rq) for rq in reqs]
    got = [[] for _ in reqs]
    events = []

    def adv(i):
        try:
            row = next(its[i])
        except StopIteration:
            events.append((i, None))
            return False
        got[i].append(row)
        events.append((i, row))
        return len(got[i]) <= limit

    for i in sched:
        if 0 <= i < len(its):
            adv(i)
    for i in range(len(its)):
        while adv(i):
            pass
    record_group(rec, reqs, got, events, si)


def auto_groups(case, W, H, w, h, salt, n):
    """Seeded groups of simultaneous requests: the pieces beside / above / below a covered
    rectangle (what an overlay leaves visible), arbitrary rectangles; every advancing pattern."""
    import random
    rng = random.Random(case.get("rseed", 0) * 7919 + salt)

    def rect():
        # mostly tall (several rows to be in flight over), any columns
        rows = rng.randint(max(1, H // 2), H) if rng.random() < 0.7 else rng.randint(1, H)
        tt = rng.randrange(H - rows + 1)
        tl = rng.randrange(W)
        return [tl, tt, rng.randint(1, W - tl), rows]

    groups = []
    for g in range(n):
        kind = rng.choice(["beside", "beside", "beside", "rects", "rects", "same-columns"])
        if kind == "beside" and W >= 2:
            # a covered block [x0, x1) x [y0, y1): left and right pieces over the same rows, optionally another piece
            x0 = rng.randint(1, W - 1)
            x1 = rng.randint(x0, W - 1)
            y0 = rng.randrange(max(1, H - 1))
            y1 = rng.randint(min(H, y0 + 2), H)
            reqs = [[0, y0, x0, y1 - y0], [x1, y0, W - x1, y1 - y0]]
            if rng.random() < 0.3:
                reqs.append(rect())
        elif kind == "same-columns":
            r0, r1 = rect(), rect()
            reqs = [r0, [r0[0], r1[1], r0[2], r1[3]]]
        else:
            reqs = [rect() for _ in range(rng.choice([2, 2, 3]))]
        rng.shuffle(reqs)
        k = len(reqs)
        total = sum(r[3] for r in reqs)
        pat = ["lock-step", "one-ahead", "sequential", "reverse", "random", "abandon"][g % 6] if n >= 6 else \
            rng.choice(["lock-step", "lock-step", "one-ahead", "random", "reverse", "abandon"])
        if pat == "lock-step":
            sched = [i for _ in range(max(r[3] for r in reqs) + 1) for i in range(k)]
        elif pat == "one-ahead":
            sched = [0] + [i for _ in range(max(r[3] for r in reqs) + 1) for i in range(k)]
        elif pat == "sequential":
            sched = []
        elif pat == "reverse":
            sched = [i for i in reversed(range(k)) for _ in range(reqs[i][3] + 1)]
        elif pat == "random":
            sched = [rng.randrange(k) for _ in range(total + rng.randint(0, 3))]
        else:  # the first request advanced part of the way, the others completely, the first finished last
            sched = [0] * rng.randint(1, reqs[0][3]) + [i for i in range(1, k) for _ in range(reqs[i][3])]
        groups.append({"reqs": reqs, "sched": sched})
    return groups


def make_placeholder(spec):
    k = spec["kind"]
    text = spec.get("text", "broken image")
    if k == "solidfill":
        return urwid.SolidFill("x")
    if k == "text":
        return urwid.Text(text)
    if k == "filler":
        return urwid.Filler(urwid.Text(text))
    if k == "pile":
        return urwid.Pile([urwid.Text(text), urwid.Divider("-"), urwid.Text("!")])
    if k == "divider":
        return urwid.Divider("-")
    if k == "linebox":
        return urwid.LineBox(urwid.Filler(urwid.Text(text)))
    if k == "image":
        from PIL import Image
        return UrwidImage(BlockImage(Image.new("RGB", tuple(spec.get("size", (16, 4))), (90, 90, 90))))
    raise ValueError(k)


class Failure:
    """Makes rendering of the image fail (and work again) while sizing keeps working."""

    def __init__(self, how, cls, img):
        import os
        import tempfile
        self.how, self.on = how, False
        self.path = None
        if how in ("vanish", "garbage"):
            fd, self.path = tempfile.mkstemp(suffix=".png", prefix="c17_")
            os.close(fd)
            img.save(self.path)
            self.data = open(self.path, "rb").read()
            self.image = cls.from_file(self.path)
        else:
            failure = self

            class Failing(cls):
                def _render_image(self, *args, **kwargs):
                    if failure.on:
                        raise RuntimeError("the renderer failed")
                    return super()._render_image(*args, **kwargs)

            self.image = Failing(img)

    def set(self, on):
        import os
        if on == self.on:
            return
        self.on = on
        if self.how == "vanish":
            if on:
                os.rename(self.path, self.path + ".gone")
            else:
                os.rename(self.path + ".gone", self.path)
        elif self.how == "garbage":
            with open(self.path, "wb") as f:
                f.write(b"not an image any more" if on else self.data)

    def cleanup(self):
        import os
        for p in (self.path, (self.path or "") + ".gone"):
            if p and os.path.exists(p):
                os.remove(p)


def probe(widget, size):
    """[cols, rows] of the canvas the widget renders for that size, None if it refuses it."""
    try:
        c = widget.render(tuple(size))
        return [c.cols(), c.rows()]
    except Exception:
        return None


def content_shape(canv):
    """(number of rows content() yields, every row is cols() columns wide — judged only on rows of
    plain text)"""
    rows_ = list(canv.content())
    wide = True
    for row in rows_:
        texts = [seg[2] for seg in row]
        if any(b"\x1b" in t or b"\0" in t for t in texts):
            continue
        if sum(urwid.calc_width(t, 0, len(t)) for t in texts) != canv.cols():
            wide = False
    return len(rows_), wide


class Rec:
    """One canvas: everything captured WHEN IT WAS BUILT, then the observations made later."""

    def __init__(self, canv, widx, req, image, step):
        # `image`: the image object (its size NOW is recorded), or the size itself
        self.canv = canv
        self.tbl, self.index = [], {}
        W, H = canv.cols(), canv.rows()
        self.d = {"widget": widx, "req": list(req), "built_at": step, "size": [W, H],
                  "image_size": list(image if isinstance(image, (list, tuple)) else image._size), "lines": [ln.decode() for ln in canv._ti_lines],
                  "obs": [], "obs_step": [], "full_later_same": True, "inter": []}
        self.d["fd"], self.d["full"] = self.enc(canv.content())

    def enc(self, rows_):
        """(disguise pairs — the same on every row, else -1 —, table indices)"""
        out, ds = [], set()
        for row in rows_:
            s, n = split_disguise(row_bytes(row))
            k = self.index.get(s)
            if k is None:
                k = self.index[s] = len(self.tbl)
                self.tbl.append(s)
            out.append(k)
            ds.add(n)
        return (ds.pop() if len(ds) == 1 else 0 if not ds else -1), out


def apply_env(env, state):
    """An environment change: global cell ratio (a number, "dynamic" or "fixed" = AutoCellRatio),
    the terminal's cell size, the terminal size."""
    if "cell_size" in env:
        tests.set_cell_size(tuple(env["cell_size"]))
        state["cell_size"] = list(env["cell_size"])
    if "ratio" in env:
        r = env["ratio"]
        term_image.set_cell_ratio({"dynamic": AutoCellRatio.DYNAMIC, "fixed": AutoCellRatio.FIXED}[r]
                                  if isinstance(r, str) else float(r))
        state["ratio"] = r
    if "term_size" in env:
        import os
        ts = os.terminal_size(tuple(env["term_size"]))
        _common.get_terminal_size = term_image.utils.get_terminal_size = lambda: ts
        state["term_size"] = list(env["term_size"])


def run_case(case):
    """A history: one image, one or more UrwidImage widgets sharing it, a sequence of
    ["render", widget, size], ["trim", canvas (ordinal of its render step), trims],
    ["inter", canvas, groups | "auto"], ["compose", widget, [W, H], layout], ["fail", bool] and
    ["env", {...}] (environment change AFTER the widgets were constructed) steps.
    Canvases stay alive and are asked for content after later renders."""
    style = case["style"]
    cls = {"block": BlockImage, "kitty": KittyImage, "iterm2": ITerm2Image}[style]
    tests.set_cell_size(tuple(case.get("cell_size", (10, 20))))
    bg = case.get("term_bg")
    tests.set_fg_bg_colors(None, tuple(bg) if bg else None)
    if tests.is_on_kitty != bool(case.get("on_kitty", False)):
        tests.toggle_is_on_kitty()
    KittyImage._supported = ITerm2Image._supported = True
    KittyImage._KITTY_VERSION = (0, 30, 0)
    term = case.get("term", "")
    ITerm2Image._TERM = term
    saved_term = tests.get_terminal_name_version()
    tests.set_terminal_name_version(term)
    UrwidImageCanvas._ti_disguise_state = case.get("cstate", 0)
    saved_ts = (_common.get_terminal_size, term_image.utils.get_terminal_size)
    term_image.set_cell_ratio(0.5)
    envstate = {"ratio": 0.5, "cell_size": list(case.get("cell_size", (10, 20))), "term_size": [80, 30]}
    failure = None
    try:
        img = impl_render.make_image(case["img"])
        if case.get("fail"):
            failure = Failure(case["fail"], cls, img)
            image = failure.image
        else:
            image = cls(img)
        placeholder = None
        if case.get("placeholder"):
            placeholder = make_placeholder(case["placeholder"])
            UrwidImage.set_error_placeholder(placeholder)
        widgets = []
        for w in case["widgets"]:
            widget = UrwidImage(image, w.get("spec", ""), upscale=bool(w.get("upscale")))
            widget._ti_disguise_state = w.get("wstate", 0)
            widgets.append(widget)
        recs, alias, phs = [], [], []

        def rec_of(canv, si):
            for r in recs:
                if r.canv is canv:
                    return r
            widx = next((k for k, w in enumerate(widgets) if w is canv.widget_info[0]), 0)
            rec = Rec(canv, widx, list(canv.size), list(canv._ti_image_size), si)
            rec.d["text"] = isinstance(image, TextImage)
            rec.d["env"] = dict(envstate, cell_ratio=term_image.get_cell_ratio())
            recs.append(rec)
            return rec

        for si, step in enumerate(case["steps"]):
            if step[0] == "env":
                apply_env(step[1], envstate)
            elif step[0] == "fail":
                if failure:
                    failure.set(bool(step[1]))
            elif step[0] == "render":
                _, widx, size = step
                widget, size = widgets[widx], tuple(size)
                if not case.get("cache"):
                    urwid.CanvasCache.clear()
                rm = fit = ori = None
                if len(size) == 1:
                    # the environment function of the model, evaluated in the CURRENT environment
                    fit = list(image._valid_size(size[0]))
                    ori = list(image._valid_size(Size.ORIGINAL))
                    rm = widget.rows(size)
                failing = bool(failure and failure.on)
                raised = None
                try:
                    canv = widget.render(size)
                except Exception as e:
                    if not failing:
                        raise
                    canv, raised = None, f"{type(e).__name__}: {e}"
                if failing and not (isinstance(canv, UrwidImageCanvas) and canv.widget_info[0] is widget):
                    # the image could not be rendered: the error placeholder's canvas, or the exception
                    urwid.CanvasCache.clear()
                    ph = {"widget": widx, "req": list(size), "step": si, "raised": raised, "fit": fit, "ori": ori,
                          "rows_before": rm, "env": dict(envstate, cell_ratio=term_image.get_cell_ratio()),
                          "rows_after": widget.rows(size) if len(size) == 1 else None, "installed": placeholder is not None}
                    if canv is not None:
                        n, wide = content_shape(canv)
                        ph.update(canvas=type(canv).__name__, cols=canv.cols(), rows=canv.rows(), ncontent=n, wide=wide)
                    if placeholder is not None:
                        # the environment: what the placeholder widget does with a box / a flow size
                        want = [size[0], rm if len(size) == 1 else size[1]]
                        ph["ph_box"] = probe(placeholder, want) == want
                        fl = probe(placeholder, [size[0]])
                        ph["ph_flow"] = fl[1] if fl and fl[0] == size[0] else None
                    urwid.CanvasCache.clear()
                    phs.append(ph)
                    alias.append(None)
                    continue
                if not isinstance(canv, UrwidImageCanvas):
                    return {"error": f"render returned {type(canv).__name__}"}
                known = [k for k, r in enumerate(recs) if r.canv is canv]
                if known:  # urwid's canvas cache handed out a canvas built earlier
                    alias.append(known[0])
                    continue
                rec = Rec(canv, widx, size, image, si)
                rec.d["text"] = isinstance(image, TextImage)
                rec.d["env"] = dict(envstate, cell_ratio=term_image.get_cell_ratio())
                if rm is not None:
                    rec.d["fit"], rec.d["ori"] = fit, ori
                    rec.d["rows_method"] = rm
                    # asked again after rendering (the answer must not depend on the order): first as urwid
                    # does (its rows() wrapper answers from the cached canvas), then the method itself
                    rec.d["rows_method_after"] = widget.rows(size)
                    if not case.get("cache"):
                        urwid.CanvasCache.clear()
                    rec.d["rows_method_after_fresh"] = widget.rows(size)
                alias.append(len(recs))
                recs.append(rec)
            elif step[0] == "compose":
                _, widx, (W, H), layout = step
                if failure and failure.on:
                    continue
                widget = widgets[widx]
                if not case.get("cache"):
                    urwid.CanvasCache.clear()
                base, total = widget, W
                if layout.get("twin"):
                    gap = layout.get("gap", 0)
                    base = urwid.Columns([(W, widget), (W, widget)], dividechars=gap)
                    total = 2 * W + gap
                for l, t, ow, oh in layout.get("overlays", []):
                    top = urwid.SolidFill("#") if (l + t) % 2 == 0 else urwid.Filler(urwid.Text("popup"))
                    base = urwid.Overlay(top, base, align="left", width=ow, valign="top", height=oh, left=l, top=t)
                with Spy() as spy:
                    comp = base.render((total, H))
                    screen = list(comp.content())
                    if len(screen) != H:
                        return {"error": f"composition of {H} rows yielded {len(screen)} rows"}
                    for idx, call in enumerate(spy.calls):  # whatever urwid left unfinished is run to its end
                        for _ in range(4 * H + 8):
                            if call["done"] or spy.advance(idx) is None:
                                break
                    spy.passthrough = True
                    canvs = []
                    for call in spy.calls:
                        if not any(c is call["canv"] for c in canvs):
                            canvs.append(call["canv"])
                    for canv in canvs:
                        rec = rec_of(canv, si)
                        mine = [idx for idx, call in enumerate(spy.calls) if call["canv"] is canv]
                        local = {idx: k for k, idx in enumerate(mine)}
                        record_group(rec, [spy.calls[idx]["req"] for idx in mine], [spy.calls[idx]["rows"] for idx in mine],
                                     [(local[idx], row) for idx, row in spy.events if idx in local], si)
            elif step[0] == "inter":
                _, cidx, groups = step
                if cidx >= len(alias) or alias[cidx] is None:
                    continue
                rec = recs[alias[cidx]]
                W, H = rec.d["size"]
                w, h = rec.d["image_size"]
                if groups == "auto":
                    small = W <= case.get("max_exh", (8, 6))[0] and H <= case.get("max_exh", (8, 6))[1]
                    groups = auto_groups(case, W, H, w, h, si, case.get("n_groups", 12 if small else 8))
                if rec.enc(rec.canv.content()) != (rec.d["fd"], rec.d["full"]):
                    rec.d["full_later_same"] = False
                for g in groups:
                    run_group(rec, g["reqs"], g["sched"], si, 4 * H + 8)
            else:
                _, cidx, trims = step
                if cidx >= len(alias) or alias[cidx] is None:
                    continue
                rec = recs[alias[cidx]]
                canv = rec.canv
                W, H = rec.d["size"]
                w, h = rec.d["image_size"]
                if trims == "all":
                    trims = pick_trims(case, W, H, w, h, si)
                if rec.enc(canv.content()) != (rec.d["fd"], rec.d["full"]):
                    rec.d["full_later_same"] = False
                for tl, tt, cols, rows in trims:
                    if case.get("via") == "composite" and cols is not None and rows is not None:
                        got = via_composite(canv, W, H, tl, tt, cols, rows)
                    else:
                        got = list(canv.content(tl, tt, cols, rows))
                    rec.d["obs"].append([tl, tt, cols, rows, *rec.enc(got)])
                    rec.d["obs_step"].append(si)
        for rec in recs:
            rec.d["tbl"] = rec.tbl
        return {"canvases": [r.d for r in recs], "alias": alias, "ph": phs}
    except Exception as e:
        import traceback
        where = " <- ".join(f"{fr.filename.rsplit('/', 1)[-1]}:{fr.lineno} {fr.name}"
                            for fr in reversed(traceback.extract_tb(e.__traceback__)[-4:]))
        return {"error": f"{type(e).__name__}: {e} at {where} (step {locals().get('si')}: {locals().get('step')})"}
    finally:
        if failure:
            failure.cleanup()
        UrwidImage._ti_error_placeholder = None
        ITerm2Image._TERM = ""
        UrwidImageCanvas._ti_disguise_state = 0
        tests.set_terminal_name_version(*saved_term)
        urwid.CanvasCache.clear()
        _common.get_terminal_size, term_image.utils.get_terminal_size = saved_ts
        tests.set_cell_size((10, 20))
        term_image.set_cell_ratio(0.5)


if __name__ == "__main__":
    implenv.write_results([run_case(c) for c in implenv.read_cases()])
