"""C19 implementation driver: pushes format specifiers through format(image, spec) on real
BlockImage / KittyImage / ITerm2Image instances (forced support, cell size 10x20, a 2x2
pixel image rendered 2 columns x 1 line) and reports what happened.

Jobs (stdin: JSON list; stdout: JSON list, one result per job)

  {"kind": "enum", "style": s, "alphabet": [chars], "length": n, "prefixes": [p, ...],
   "detail": bool}
      every string p + t, t over the alphabet, |p + t| = n.  Result: counts per outcome,
      every accepted string (with its observation when detail), anomalies (unexpected
      exception class, state changed by a rejected specifier).

  {"kind": "cases", "style": s, "specs": [...], "term": [cols, lines]}
      one full observation per specifier.

Observation of an accepted specifier: the arguments that reached _format_render and
_render_image (instance-level wrappers; format() itself is called through the built-in),
and whether draw(), called with the parameters this driver derives from the
*documentation* (hand scanner below; the plugin has Coq check that they are the
documented-equivalent ones), printed exactly the same string.
"""
import implenv
from implenv import tests
import io
import itertools
import sys
from fractions import Fraction

from PIL import Image

import term_image.image.common as common
from term_image._ctlseqs import SGR_DEFAULT
from term_image.exceptions import StyleError
from term_image.image import BlockImage, ITerm2Image, KittyImage

tests.set_cell_size((10, 20))
IMG = Image.new("RGBA", (2, 2), (10, 20, 30, 255))
IMG.putpixel((0, 0), (200, 100, 50, 90))  # a translucent pixel, so that alpha matters
CLASSES = {"block": BlockImage, "kitty": KittyImage, "iterm2": ITerm2Image}
TERM = [80, 30]
common.get_terminal_size = lambda: __import__("os").terminal_size(tuple(TERM))
METHODS = {1: "lines", 2: "whole", 3: "anim"}


def setup_class(C):
    if C is KittyImage:
        C._supported, C._TERM, C._TERM_VERSION, C._KITTY_VERSION = True, "kitty", "0.30.0", (0, 30, 0)
    elif C is ITerm2Image:
        C._supported, C._TERM, C._TERM_VERSION = True, "wezterm", ""
    if C is not BlockImage:
        C.forced_support = True


class Probe:
    """An image whose _format_render / _render_image record their arguments."""

    def __init__(self, style):
        self.style = style
        C = CLASSES[style]
        setup_class(C)
        self.C = C
        self.im = im = C(IMG, width=2)
        self.rec = rec = {}
        ri, fr = im._render_image, im._format_render

        def render_image(img, alpha, **kw):
            rec["alpha"], rec["sargs"] = alpha, dict(kw)
            return ri(img, alpha, **kw)

        def format_render(render, *fmt):
            rec["fmt"] = fmt
            return fr(render, *fmt)

        im._render_image, im._format_render = render_image, format_render
        self.snap0 = self.snap()
        self.cls0 = self.cls_snap()
        self.pub0 = self.public()

    def snap(self):
        return tuple(map(id, vars(self.im).values())), len(vars(self.im))

    def cls_snap(self):
        return [tuple((k, id(v)) for k, v in vars(K).items()) for K in self.C.__mro__[:-1]]

    def public(self):
        im = self.im
        return (im.size, im.rendered_size, im._render_method, im.tell(), im.closed, im.original_size,
                getattr(im, "forced_support", None))

    # ---- one specifier
    def run(self, spec, detail=True):
        im, rec = self.im, self.rec
        rec.clear()
        try:
            out = format(im, spec)
        except StyleError as e:
            return {"k": 2, "fx": self.effects(rec), **exc_id(e)}
        except ValueError as e:
            return {"k": 1, "fx": self.effects(rec), **exc_id(e)}
        except Exception as e:  # any other exception class is not documented
            return {"k": 9, "exc": type(e).__name__ + ": " + str(e)[:200], "fx": self.effects(rec), **exc_id(e)}
        if not detail:
            return {"k": 0}
        o = {"k": 0}
        fmt, alpha, sargs = rec.get("fmt"), rec.get("alpha", "missing"), rec.get("sargs")
        if fmt is None or sargs is None:
            o["exc"] = "renderer not reached"
            return o
        o["fmt"] = [ord(fmt[0]) if fmt[0] else -1, fmt[1], ord(fmt[2]) if fmt[2] else -1, fmt[3]]
        o["alpha"] = enc_alpha(alpha)
        o["sargs"] = enc_sargs(sargs)
        # The parse must give every caller its OWN result: callers update the returned style
        # arguments (UrwidImage adds z_index / blend / split_cells).  Parse, update the result the
        # way such a caller does, parse again: the second result must be the first one's value.
        try:
            import copy
            first = im._check_format_spec(spec)
            want = copy.deepcopy(first)
            first[-1].update(z_index=77, blend=False, split_cells=True)
            again = im._check_format_spec(spec)
            if again != want:
                o["impure"] = 1
                o["sargs"] = [9]  # what the specifier denotes now depends on an earlier caller
        except Exception as e:  # noqa: BLE001
            o["impure"] = 2
            o["sargs"] = [9]
        p = doc_params(spec, self.style)
        if p is None:
            o["draw"], o["deq"] = [], 0
            return o
        kwargs, enc = p
        o["draw"] = enc
        if kwargs["pad_width"] > TERM[0]:
            o["deq"] = 2  # draw(): "pad_width ... must not be greater than the terminal width"
            return o
        stdout, sys.stdout = sys.stdout, io.StringIO()
        try:
            im.draw(**kwargs)
            drawn = sys.stdout.getvalue()
            o["deq"] = int(drawn == out + SGR_DEFAULT + "\n")
        except Exception as e:
            o["deq"], o["dexc"] = 0, type(e).__name__ + ": " + str(e)[:200]
        finally:
            sys.stdout = stdout
        return o

    def effects(self, rec):
        """Non-empty if a rejected specifier left a trace."""
        fx = []
        if rec:
            fx.append("renderer reached")
        if self.snap() != self.snap0:
            fx.append("instance attributes changed")
        return fx

    def final_effects(self):
        fx = []
        if self.cls_snap() != self.cls0:
            fx.append("class attributes changed")
        if self.public() != self.pub0:
            fx.append("public state changed")
        return fx


def exc_id(e):
    """The EXACT class of a raised exception (module-qualified name) and the kind of its message."""
    name = type(e).__module__ + "." + type(e).__qualname__
    msg = str(e)
    if msg.startswith("Invalid format specifier"):
        kind = 1
    elif msg.startswith("Invalid style-specific format specifier"):
        kind = 2
    elif msg.startswith(("z-index must be within", "Compression level must be between")):
        kind = 3
    else:
        kind = 9
    return {"cls": name, "msgk": kind, "msg": msg[:160]}


def enc_alpha(a):
    if a is None:
        return [1]
    if isinstance(a, float):
        n, d = a.as_integer_ratio()
        return [0, n, d]
    if isinstance(a, str):
        return [2] + [ord(c) for c in a]
    return [9]


def enc_sargs(kw):
    known = {"method", "z_index", "mix", "compress"}
    if set(kw) - known:
        return [9]
    m = kw.get("method")
    return [
        0 if m is None else {"lines": 1, "whole": 2, "anim": 3}.get(m, 9),
        int("z_index" in kw), kw.get("z_index", 0),
        -1 if "mix" not in kw else int(kw["mix"] is True),
        kw.get("compress", -1),
    ]


# ------------------------------------------------------------------------------------
# The documented grammar, scanned by hand, yielding draw()'s parameters as the
# documentation describes them (formatting.rst; KittyImage / ITerm2Image docstrings).
# Not trusted: the plugin has Coq compare the parameters with FmtSpec.doc_interp.


def digits_at(s, i, ok=lambda c: c in "0123456789"):
    j = i
    while j < len(s) and ok(s[j]):
        j += 1
    return s[i:j], j


def doc_params(spec, style):
    s, i = spec, 0
    term_cols, term_lines = TERM
    h = 1
    if i < len(s) and s[i] in "<|>":
        h = {"<": 0, "|": 1, ">": 2}[s[i]]
        i += 1
    w, i = digits_at(s, i)
    # width: positive -> as is; absent -> terminal width; zero -> relative to the terminal width
    pw = term_cols if not w else (int(w) if int(w) > 0 else max(term_cols + int(w), 1))
    v, ph = 1, term_lines - 2  # default: middle, terminal height minus two
    if i < len(s) and s[i] == ".":
        i += 1
        seen = False
        if i < len(s) and s[i] in "^-_":
            v = {"^": 0, "-": 1, "_": 2}[s[i]]
            i += 1
            seen = True
        hh, i = digits_at(s, i)
        if hh:
            ph = int(hh) if int(hh) > 0 else max(term_lines + int(hh), 1)
            seen = True
        if not seen:
            return None
    alpha = [4, 0, 0]
    akw = {}
    if i < len(s) and s[i] == "#":
        i += 1
        if i < len(s) and s[i] == "." and i + 1 < len(s) and s[i + 1] in "0123456789":
            ds, i = digits_at(s, i + 1)
            f = float(Fraction(int(ds), 10 ** len(ds)))  # the decimal 0.ds, correctly rounded
            n, d = f.as_integer_ratio()
            alpha, akw = [0, n, d], {"alpha": f}
        elif i < len(s) and s[i] == "#":
            i += 1
            alpha, akw = [2, 0, 0], {"alpha": "#"}
        elif len(s) - i >= 6 and all(c in "0123456789abcdefABCDEF" for c in s[i:i + 6]):
            rgb = int(s[i:i + 6], 16)
            i += 6
            alpha, akw = [3, rgb, 0], {"alpha": "#%06x" % rgb}
        else:
            alpha, akw = [1, 0, 0], {"alpha": None}
    st = [0, 0, 0, 4]
    skw = {}
    if i < len(s) and s[i] == "+":
        i += 1
        if style == "block" or i >= len(s):
            return None
        meths = {"kitty": "LW", "iterm2": "LWA"}[style]
        if s[i] in meths:
            st[0] = {"L": 1, "W": 2, "A": 3}[s[i]]
            skw["method"] = METHODS[st[0]]
            i += 1
        if style == "kitty" and i < len(s) and s[i] == "z":
            j = i + 1
            neg = j < len(s) and s[j] == "-"
            ds, j2 = digits_at(s, j + neg, str.isdecimal)
            if not ds:
                return None
            st[1] = -int(ds) if neg else int(ds)
            i = j2
        if i + 1 < len(s) and s[i] == "m" and s[i + 1] in "01":
            st[2] = int(s[i + 1])
            i += 2
        if i + 1 < len(s) and s[i] == "c" and s[i + 1] in "0123456789":
            st[3] = int(s[i + 1])
            i += 2
        # every documented style parameter is passed explicitly
        if style == "kitty":
            skw["z_index"] = st[1]
        skw["mix"] = bool(st[2])
        skw["compress"] = st[3]
    if i != len(s):
        return None
    kwargs = dict(h_align=["left", "center", "right"][h], pad_width=pw,
                  v_align=["top", "middle", "bottom"][v], pad_height=ph, **akw, **skw)
    return kwargs, [h, pw, v, ph] + alpha + st


# ------------------------------------------------------------------------------------


def job_enum(job):
    pr = Probe(job["style"])
    alpha, n, detail = job["alphabet"], job["length"], job.get("detail", True)
    counts = [0, 0, 0]  # accepted, ValueError, StyleError
    accepted, anomalies = [], []
    im = pr.im
    snap0 = pr.snap0
    rec = pr.rec
    for p in job["prefixes"]:
        k = n - len(p)
        if k < 0:
            continue
        for t in itertools.product(alpha, repeat=k):
            spec = p + "".join(t)
            try:
                format(im, spec)
            except StyleError:
                counts[2] += 1
            except ValueError:
                counts[1] += 1
            except Exception as e:
                anomalies.append([spec, "exception " + type(e).__name__ + ": " + str(e)[:120]])
                continue
            else:
                counts[0] += 1
                accepted.append([spec, pr.run(spec) if detail else None])
                rec.clear()
                continue
            # rejected: nothing may have happened
            if rec or (tuple(map(id, vars(im).values())), len(vars(im))) != snap0:
                anomalies.append([spec, "state touched by a rejected specifier: " + ", ".join(pr.effects(rec))])
                rec.clear()
    for fx in pr.final_effects():
        anomalies.append(["(whole job)", fx])
    return {"counts": counts, "accepted": accepted, "anomalies": anomalies[:50]}


def job_cases(job):
    TERM[:] = job.get("term", [80, 30])
    try:
        pr = Probe(job["style"])
        res = []
        for spec in job["specs"]:
            o = pr.run(spec)
            if o["k"] != 0 and o.get("fx"):
                o["anomaly"] = "state touched by a rejected specifier: " + ", ".join(o["fx"])
            res.append(o)
        fx = pr.final_effects()
        return {"obs": res, "final": fx}
    finally:
        TERM[:] = [80, 30]


if __name__ == "__main__":
    out = []
    for job in implenv.read_cases():
        out.append(job_enum(job) if job["kind"] == "enum" else job_cases(job))
    implenv.write_results(out)
