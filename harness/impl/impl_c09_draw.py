"""C09 (caching decision of draw()/_animate_): an instrumented animated renderable is drawn
with draw(loops=, cache=) to a buffer; every `_render_` invocation is recorded (frame number)
and the animation is stopped, for infinite loops, by a KeyboardInterrupt raised from the k-th
sleep (which `_animate_` swallows)."""
import io

import implenv
from implenv import tests  # noqa: F401

from term_image.geometry import Size
from term_image.renderable import Frame, Renderable
from term_image.renderable import _renderable as _rmod


class Anim(Renderable):
    def __init__(self, n):
        super().__init__(n, 1)
        self.calls = []

    def _get_render_size_(self):
        return Size(2, 1)

    def _render_(self, render_data, render_args):
        k = render_data[Renderable].frame_offset
        self.calls.append(k)
        return Frame(k, 1, Size(2, 1), f"{k % 10}{k % 10}")


def run_case(case):
    r = Anim(case["n"])
    sleeps = {"n": 0}
    saved = _rmod.sleep

    def sleep(_):
        sleeps["n"] += 1
        if case.get("stop") and sleeps["n"] >= case["stop"]:
            raise KeyboardInterrupt

    _rmod.sleep = sleep
    out = io.StringIO()
    try:
        import sys
        so, sys.stdout = sys.stdout, out
        try:
            cache = case["cache"]
            r.draw(loops=case["loops"], cache=(bool(cache) if isinstance(cache, bool) else int(cache)), check_size=False)
            ended = "returned"
        except Exception as e:  # noqa: BLE001
            ended = type(e).__name__ + ": " + str(e)[:120]
        finally:
            sys.stdout = so
    finally:
        _rmod.sleep = saved
    return {"renders": r.calls, "sleeps": sleeps["n"], "ended": ended}


if __name__ == "__main__":
    implenv.write_results([run_case(c) for c in implenv.read_cases()])
