"""C10 implementation driver: the life of render data objects.

Builds on impl_c08.py (instrumented renderable `VR`, history interpreter).  `VR10` adds

  * an identity for every render data object handed out by `_get_render_data_` (a serial
    number stored in the object's own `VR10` namespace), so that calls of
    `_finalize_render_data_` are counted per object - objects abandoned half-built (an
    exception inside the base `_get_render_data_`) have no serial and are counted apart;
  * two more fault positions: `_get_render_size_` (size_fault) and the end of
    `_get_render_data_` (data_fault);
  * a finalizer that raises: `fin_faults` = the invocation numbers (0-based, per render data
    object) at which `_finalize_render_data_` raises RuntimeError (reported as
    ["E", "render", 90]); exceptions raised inside a `__del__` are counted through
    `sys.unraisablehook`.  With "enumerate_fin": [schedule, ...] the enumeration adds, per
    schedule, the unfaulted run and every render-fault position with that schedule.

Modes
  iter   : a history on a RenderIterator made by RenderIterator(...) ("init"),
           _from_render_data_(finalize=False) ("frd_keep") or _from_render_data_(finalize=True)
           ("frd_give"); after every operation: calls of _finalize_render_data_ on the data,
           RenderData.finalized, iterator._closed; then `del iterator; gc.collect()`.
           With "enumerate": [kinds], the history is first run without faults and then once
           per (k, kind) with `kind` injected into the k-th `_render_` call, for ALL k below
           the number of `_render_` calls of the unfaulted run; a probe suffix is appended.
  session : ONE render data object handed to several iterators one after the other
           (`_from_render_data_`, keep / give) and to `_animate_`, the owner finalizing in
           between; per step the outcome, the finalize calls and the flag; the `finalized`
           flag seen by every `_render_`.
  iter, fault kinds 7 / 8: the renderable calls `iterator.close()` from inside its k-th
           `_render_` (7: lets the resulting exception propagate; 8: swallows it); reported:
           what that nested close() did and `_closed` right after it.
  render / str / draw : one call; per render data object the finalize calls when the call
           returned (or while its exception is still alive) and after the exception is
           dropped + gc.collect().
  drawio : one draw() / render() / str() on an output stream whose k-th write()/flush() call raises
           KeyboardInterrupt / OSError, with the j-th sleep() raising KeyboardInterrupt, with the q-th
           `_render_` raising, or (async) with a KeyboardInterrupt delivered at the k-th line executed
           inside draw() / _animate_ (asyncfault.py).  Observed: EVERY entry into renderable-defined
           code that is handed the render data (`_render_`, `_handle_interrupted_draw_`, `_clear_frame_`,
           `_finalize_render_data_`) with `RenderData.finalized` as that entry saw it, in order,
           up to and including garbage collection; how the call ended; the number of stream and sleep
           calls.  With "enumerate_io": the unfaulted run, then EVERY k / j (and, async, every line).
Everything reported is an integer / enum.
"""
import implenv  # noqa: F401

import copy
import gc
import io
import sys

import impl_c08 as base
from impl_c08 import VR, apply_op, classify, frame_out, mk_args, mk_dur, mk_padding

from term_image.geometry import Size
from term_image.render import RenderIterator
from term_image.renderable import DataNamespace, UninitializedDataFieldError
import term_image.renderable._renderable as _renderable_mod

FIN = {}  # serial -> calls of _finalize_render_data_
FIN_FAULTS = set()  # invocation numbers (0-based, per render data object) at which the finalizer raises
NESTED = []  # per close() made from inside _render_: [what it did, iterator._closed right after]
UNRAISABLE = []  # finalizer exceptions the interpreter reported as unraisable (raised inside a __del__)
# every entry into renderable-defined code that receives the render data: [which, RenderData.finalized at entry]
# which: 0 _render_, 1 _handle_interrupted_draw_, 2 _clear_frame_, 3 _finalize_render_data_
EVENTS = []


def _unraisable(u):
    if getattr(u.exc_value, "_verif_kind", None) == 90:
        UNRAISABLE.append(1)
    else:
        sys.__unraisablehook__(u)


sys.unraisablehook = _unraisable


def reset(case):
    FIN.clear()
    ORPHAN_FIN.clear()
    FIN_FAULTS.clear()
    FIN_FAULTS.update(int(k) for k in case.get("fin_faults", []))
    del UNRAISABLE[:]
    del NESTED[:]
    del EVENTS[:]


def quiet_finalize(data):
    """finalize() as a caller would; 1 if the finalizer's exception came out"""
    try:
        data.finalize()
    except RuntimeError as e:
        if getattr(e, "_verif_kind", None) != 90:
            raise
        return 1
    return 0

ORPHAN_FIN = {}  # id(render data without serial) -> calls
SERIAL = [0]


class VR10(VR):
    def __init__(self, *a, size_fault=False, data_fault=False, **kw):
        super().__init__(*a, **kw)
        self._size_fault = size_fault
        self._data_fault = data_fault
        self.serials = []

    it_ref = None  # the iterator driving this renderable (for the re-entrant close() of kinds 7 / 8)

    def _render_(self, render_data, render_args):
        """kinds 7 / 8: call `iterator.close()` from inside this render (the generator of the
        iterator is executing); 7 lets whatever it raises propagate (tagged 7), 8 swallows it
        and renders normally."""
        EVENTS.append([0, int(render_data.finalized)])
        call = self.calls
        kind = self._faults.get(call)
        if kind not in (7, 8) or self.it_ref is None:
            return super()._render_(render_data, render_args)
        exc = None
        try:
            self.it_ref.close()
        except Exception as e:  # noqa: BLE001
            exc = e
        what = 0 if exc is None else (
            1 if isinstance(exc, ValueError) and "already executing" in str(exc) else 2)
        NESTED.append([what, int(self.it_ref._closed)])
        if kind == 8 or exc is None:
            del self._faults[call]
            try:
                return super()._render_(render_data, render_args)
            finally:
                self._faults[call] = kind
        self._faults[call] = 1  # let the base class count and log this invocation
        try:
            super()._render_(render_data, render_args)
        except RuntimeError:
            pass
        finally:
            self._faults[call] = kind
        exc._verif_kind = 7
        raise exc

    def _handle_interrupted_draw_(self, render_data, render_args, output):
        EVENTS.append([1, int(render_data.finalized)])
        return super()._handle_interrupted_draw_(render_data, render_args, output)

    def _clear_frame_(self, render_data, render_args, cursor_x, output):
        EVENTS.append([2, int(render_data.finalized)])
        return super()._clear_frame_(render_data, render_args, cursor_x, output)

    def _get_render_size_(self):
        if self._size_fault:
            exc = RuntimeError("injected (_get_render_size_)")
            exc._verif_kind = 1
            raise exc
        return super()._get_render_size_()

    def _get_render_data_(self, *, iteration):
        data = super()._get_render_data_(iteration=iteration)
        SERIAL[0] += 1
        data[VR10].serial = SERIAL[0]
        FIN[SERIAL[0]] = 0
        self.serials.append(SERIAL[0])
        if self._data_fault:
            exc = RuntimeError("injected (_get_render_data_)")
            exc._verif_kind = 1
            raise exc
        return data

    @classmethod
    def _finalize_render_data_(cls, render_data):
        EVENTS.append([3, int(render_data.finalized)])
        try:
            serial = render_data[VR10].serial
        except UninitializedDataFieldError:
            k = ORPHAN_FIN.get(id(render_data), 0)
            ORPHAN_FIN[id(render_data)] = k + 1
        else:
            k = FIN.get(serial, 0)
            FIN[serial] = k + 1
        super()._finalize_render_data_(render_data)
        if k in FIN_FAULTS:
            exc = RuntimeError("injected (_finalize_render_data_)")
            exc._verif_kind = 90
            raise exc


class VR10Data(DataNamespace, render_cls=VR10):
    serial: int


def make10(case):
    faults = {int(k): v for k, v in case.get("faults", {}).items()}
    ffaults = {int(k): v for k, v in case.get("ffaults", {}).items()}
    r = VR10(case["n"], mk_dur(case["dur"]), Size(*case["size"]), case.get("total", 5), faults,
             case.get("stamp", False), ffaults,
             size_fault=case.get("size_fault", False), data_fault=case.get("data_fault", False))
    if case["n"] is not None and case["n"] > 1 and case.get("frame", 0):
        r.seek(case["frame"])
    return r


def ctor_kind(case):
    return case.get("ctor") or ("init" if case.get("owns", True) else "frd_keep")


def run_iter(case):
    reset(case)
    r = make10(case)
    kind = ctor_kind(case)
    res = {"ops": [], "fin_ops": [], "fz_ops": [], "closed_ops": []}
    own_data = None
    it = None
    try:
        if kind == "init":
            it = RenderIterator(r, mk_args(case["args"]), mk_padding(case["pad"]), case["loops"], case["cache"])
        else:
            own_data = r._get_render_data_(iteration=True)
            it = RenderIterator._from_render_data_(
                r, own_data, mk_args(case["args"]), mk_padding(case["pad"]), case["loops"], case["cache"],
                finalize=(kind == "frd_give"))
        res["ctor"] = ["ok"]
    except Exception as e:  # noqa: BLE001
        res["ctor"] = ["err"] + classify(e)[1:]
    if it is None:
        gc.collect()
        main = r.serials[0] if own_data is not None else None
        res["fin"] = FIN[main] if main is not None else 0
        res["finalized_end"] = int(own_data.finalized) if own_data is not None else 0
        res["gc_raised"] = len(UNRAISABLE)
        res["caller_raised"] = quiet_finalize(own_data) if own_data is not None else 0
        res["fin_caller"] = FIN[main] if main is not None else 0
        del own_data
        gc.collect()
        res["others"] = [FIN[s] for s in r.serials if s != main] + list(ORPHAN_FIN.values())
        res["log"] = r.log
        res["nested"] = []
        return res
    data = it._render_data if own_data is None else own_data
    main = data[VR10].serial
    r.it_ref = it
    for o in case["ops"]:
        out = apply_op(it, o)
        res["ops"].append([out, it.loop, r.tell()])
        res["fin_ops"].append(FIN[main])
        res["fz_ops"].append(int(data.finalized))
        res["closed_ops"].append(int(it._closed))
    r.it_ref = None
    del it
    gc.collect()
    res["fin"] = FIN[main]
    res["finalized_end"] = int(data.finalized)
    res["gc_raised"] = len(UNRAISABLE)
    # what the owner of caller-owned data does in the end; a no-op otherwise
    res["caller_raised"] = quiet_finalize(data)
    res["fin_caller"] = FIN[main]
    del data, own_data
    gc.collect()
    res["others"] = [FIN[s] for s in r.serials if s != main] + list(ORPHAN_FIN.values())
    res["log"] = r.log
    res["nested"] = [list(x) for x in NESTED]
    return res


PROBE = [["next"], ["seek", 0, 0, True], ["dur", 1], ["pad", ["E", 0, 0, 0, 0]], ["args", 0], ["size", [1, 1]],
         ["close"], ["next"], ["drop"], ["seek", 0, 1, True]]


def run_iter_enumerated(case):
    """[[variant case, result], ...]: the unfaulted history, then every fault position."""
    kinds = case["enumerate"]
    plain = {k: v for k, v in case.items() if k not in ("enumerate", "enumerate_fin")}
    plain["faults"] = {}
    first = run_iter(plain)
    out = [[plain, first]]
    for sched in case.get("enumerate_fin", []):  # the finalizer raises, no render fault
        v = copy.deepcopy(plain)  # as is: often still open at the end, the finalizer then runs at gc
        v["fin_faults"] = list(sched)
        out.append([v, run_iter(v)])
        v = copy.deepcopy(v)
        v["ops"] = v["ops"] + copy.deepcopy(PROBE)
        out.append([v, run_iter(v)])
    for k in range(len(first.get("log", []))):
        for kind in kinds:
            v = copy.deepcopy(plain)
            v["faults"] = {str(k): kind}
            v["ops"] = v["ops"] + copy.deepcopy(PROBE)
            out.append([v, run_iter(v)])
        for sched in case.get("enumerate_fin", []):  # a failing render AND a failing finalizer
            v = copy.deepcopy(plain)
            v["faults"] = {str(k): 1}
            v["fin_faults"] = list(sched)
            v["ops"] = v["ops"] + copy.deepcopy(PROBE)
            out.append([v, run_iter(v)])
    return out


def run_oneshot(case):
    reset(case)
    r = make10(case)
    mode = case["mode"]
    old_stdout, old_sleep = sys.stdout, _renderable_mod.sleep
    sys.stdout = buf = io.StringIO()
    _renderable_mod.sleep = lambda *_: None

    def snapshot():
        return [FIN[s] for s in r.serials]

    outcome = ["K"]
    fin_ret = None
    try:
        try:
            if mode == "render":
                fr = r.render(mk_args(case["args"]), mk_padding(case["pad"]))
                outcome = ["K"] if fr.render_size is not None else ["E", "other:noframe", 0]
            elif mode == "str":
                str(r)
            elif mode == "draw":
                r.draw(mk_args(case["args"]), mk_padding(case["pad"]), animate=case.get("animate", True),
                       loops=case["loops"], cache=case["cache"],
                       check_size=case.get("check_size", True), allow_scroll=case.get("allow_scroll", False))
            else:
                raise AssertionError(mode)
            fin_ret = snapshot()
        except StopIteration as e:
            outcome = ["E", "render", 0] if hasattr(e, "_verif_kind") else ["E", "other:StopIteration", 0]
            fin_ret = snapshot()  # the exception (and the frames it references) is still alive here
        except Exception as e:  # noqa: BLE001
            outcome = classify(e)
            fin_ret = snapshot()
    finally:
        sys.stdout = old_stdout
        _renderable_mod.sleep = old_sleep
    gc.collect()
    return {
        "outcome": outcome,
        "fin_ret": fin_ret,
        "fin_gc": snapshot(),
        "orphans": list(ORPHAN_FIN.values()),
        "unraisable": len(UNRAISABLE),
        "log": r.log,
        "tell": r.tell(),
        "written": len(buf.getvalue()),
    }


def run_oneshot_enumerated(case):
    kinds = case["enumerate"]
    plain = {k: v for k, v in case.items() if k not in ("enumerate", "enumerate_fin")}
    plain["faults"] = {}
    first = run_oneshot(plain)
    out = [[plain, first]]
    for sched in case.get("enumerate_fin", []):
        v = copy.deepcopy(plain)
        v["fin_faults"] = list(sched)
        out.append([v, run_oneshot(v)])
    for k in range(len(first.get("log", []))):
        for kind in kinds:
            v = copy.deepcopy(plain)
            v["faults"] = {str(k): kind}
            out.append([v, run_oneshot(v)])
        for sched in case.get("enumerate_fin", []):
            v = copy.deepcopy(plain)
            v["faults"] = {str(k): 1}
            v["fin_faults"] = list(sched)
            out.append([v, run_oneshot(v)])
    return out


def run_session(case):
    """One render data object, several iterators one after the other (and _animate_ calls),
    the owner finalizing in between.  Steps: ["make", cfg] (cfg: kind keep|give, loops, cache,
    args, pad), ["op", <operation>], ["ownerfin"], ["animate", cfg]."""
    reset(case)
    r = make10(case)
    data = r._get_render_data_(iteration=True)
    main = data[VR10].serial
    old_sleep = _renderable_mod.sleep
    _renderable_mod.sleep = lambda *_: None
    res = {"steps": [], "fins": [], "fzs": []}
    it = None
    try:
        for st in case["steps"]:
            what = st[0]
            if what in ("make", "animate"):
                it = None  # the previous iterator loses its last reference first
                gc.collect()
            if what == "make":
                cfg = st[1]
                try:
                    it = RenderIterator._from_render_data_(
                        r, data, mk_args(cfg["args"]), mk_padding(cfg["pad"]), cfg["loops"], cfg["cache"],
                        finalize=(cfg["kind"] == "give"))
                    out = ["made"]
                except Exception as e:  # noqa: BLE001
                    out = ["refused"] + classify(e)[1:]
            elif what == "op":
                out = ["noiter"] if it is None else ["out", apply_op(it, st[1])]
            elif what == "ownerfin":
                data.finalize()
                out = ["done"]
            elif what == "animate":
                cfg = st[1]
                from term_image.renderable import RenderArgs
                try:
                    r._animate_(data, RenderArgs(VR10, mk_args(cfg["args"])), mk_padding(cfg["pad"]),
                                cfg["loops"], cfg["cache"], io.StringIO())
                    out = ["done"]
                except StopIteration as e:
                    out = ["out", ["E", "render", 0] if hasattr(e, "_verif_kind") else ["E", "other:StopIteration", 0]]
                except Exception as e:  # noqa: BLE001
                    c = classify(e)
                    out = ["refused"] + c[1:] if c[1] in ("value", "incompat") else ["out", c]
            else:
                raise AssertionError(what)
            res["steps"].append(out)
            res["fins"].append(FIN[main])
            res["fzs"].append(int(data.finalized))
    finally:
        _renderable_mod.sleep = old_sleep
    it = None
    gc.collect()
    res["fin_end"] = FIN[main]
    res["fz_end"] = int(data.finalized)
    quiet_finalize(data)
    res["fin_owner"] = FIN[main]
    res["log"] = r.log
    return res


def run_session_enumerated(case):
    kinds = case["enumerate"]
    plain = {k: v for k, v in case.items() if k not in ("enumerate", "enumerate_fin")}
    plain["faults"] = {}
    first = run_session(plain)
    out = [[plain, first]]
    for k in range(len(first.get("log", []))):
        for kind in kinds:
            v = copy.deepcopy(plain)
            v["faults"] = {str(k): kind}
            out.append([v, run_session(v)])
    return out


# ----------------------------------------------------------------- drawio: faults of the output stream / sleep / async


class FaultyOut(io.StringIO):
    """an output stream whose k-th write()/flush() call (0-based, counted together) raises"""

    def __init__(self, k, kind):
        super().__init__()
        self.k, self.kind, self.calls = k, kind, 0

    def isatty(self):
        return False

    def _tick(self):
        i = self.calls
        self.calls += 1
        if i == self.k:
            if self.kind == 0:
                raise KeyboardInterrupt()
            exc = OSError(5, "injected (output stream)")
            exc._verif_io = True
            raise exc

    def write(self, text):
        self._tick()
        return super().write(text)

    def flush(self):
        self._tick()
        return super().flush()


ASYNC_FUNCS = ("draw", "_animate_")

_TRY_LINES = {}


def is_try_line(frame):
    key = (frame.f_code.co_filename, frame.f_lineno)
    v = _TRY_LINES.get(key)
    if v is None:
        import linecache
        v = _TRY_LINES[key] = linecache.getline(*key).strip() == "try:"
    return v


def line_fault_class():
    """AsyncFault, except that a bare `try:` line is not a fault position.  CPython >= 3.11 compiles `try:` to a
    NOP that lies OUTSIDE the exception table of the block it opens, and the interpreter polls for signals only at
    function entries, backward jumps and calls - never there; a trace function raising on that line event
    produces what no real interrupt can: the exception leaves the frame past an enclosing `finally:` handler
    without the handler's clean-up code (the exception being handled stays on the thread's stack for good and
    keeps every frame of its traceback alive).  Same convention as C07 / C13."""
    from asyncfault import AsyncFault

    class LineFault(AsyncFault):
        def _local(self, frame, event, arg):
            if event == "line" and is_try_line(frame):
                return self._local
            return super()._local(frame, event, arg)

    return LineFault


def _async_scope(frame):
    import asyncfault
    return frame.f_code.co_name in ASYNC_FUNCS and asyncfault.in_package(frame)


def run_drawio(case):
    """op: draw / render / str; io_fault: [k, kind] | None; sleep_fault: j | None; rfault: q | None;
    async: k | None (None: no asynchronous fault; -1: counting run)."""
    AsyncFault = line_fault_class()
    import contextlib
    c = dict(case)
    c.setdefault("size", [2, 1])
    c.setdefault("dur", 1)
    c["faults"] = {} if case.get("rfault") is None else {str(case["rfault"]): 1}
    reset(c)
    r = make10(c)
    op = case["op"]
    iof = case.get("io_fault")
    out = FaultyOut(iof[0] if iof else None, iof[1] if iof else 0)
    sleeps = [0]
    sf = case.get("sleep_fault")

    def fake_sleep(*_):
        i = sleeps[0]
        sleeps[0] += 1
        if i == sf:
            raise KeyboardInterrupt()

    old_stdout, old_sleep = sys.stdout, _renderable_mod.sleep
    sys.stdout = out
    _renderable_mod.sleep = fake_sleep
    ak = case.get("async")
    probe = AsyncFault(k=None if ak == -1 else ak, scope=_async_scope) if ak is not None else None
    outcome, other, n_ret = 0, None, None
    try:
        try:
            with (probe or contextlib.nullcontext()):
                if op == "draw":
                    r.draw(animate=case.get("animate", True), loops=case.get("loops", 1), cache=case.get("cache", False),
                           check_size=False)
                elif op == "render":
                    r.render()
                elif op == "str":
                    str(r)
                else:
                    raise AssertionError(op)
            n_ret = len(EVENTS)
        except BaseException as e:  # noqa: BLE001
            n_ret = len(EVENTS)  # the exception (and the frames its traceback references) is still alive here
            if isinstance(e, KeyboardInterrupt):
                outcome = 1
            elif isinstance(e, OSError) and getattr(e, "_verif_io", False):
                outcome = 2
            elif isinstance(e, StopIteration) and hasattr(e, "_verif_kind"):
                outcome = 4
            elif getattr(e, "_verif_kind", None) == 1:
                outcome = 3
            else:
                outcome, other = 9, type(e).__name__
    finally:
        sys.stdout = old_stdout
        _renderable_mod.sleep = old_sleep
    gc.collect()
    res = {"outcome": outcome, "events": [list(e) for e in EVENTS], "n_ret": n_ret, "io": out.calls,
           "sleeps": sleeps[0], "fins": [FIN[s] for s in r.serials] + list(ORPHAN_FIN.values()),
           "lines": probe.count if probe else 0, "fired": int(probe.fired) if probe else 0}
    if outcome == 9:
        res["other"] = other
    return res


def run_drawio_enumerated(case):
    plain = {k: v for k, v in case.items() if k not in ("enumerate_io", "enumerate_async")}
    plain.update(io_fault=None, sleep_fault=None)
    plain["async"] = None
    first = run_drawio(plain)
    out = [[plain, first]]
    if case.get("enumerate_io"):
        for k in range(first["io"]):
            for kind in (0, 1):
                v = dict(plain, io_fault=[k, kind])
                out.append([v, run_drawio(v)])
        for j in range(first["sleeps"]):
            v = dict(plain, sleep_fault=j)
            out.append([v, run_drawio(v)])
    if case.get("enumerate_async"):
        count = run_drawio(dict(plain, **{"async": -1}))["lines"]
        step = case["enumerate_async"]  # 1: every line; s > 1: every s-th line (offset by the case)
        for k in range(1 + case.get("async_offset", 0) % step, count + 1, step):
            v = dict(plain, **{"async": k})
            out.append([v, run_drawio(v)])
    return out


def run_case(case):
    mode = case.get("mode", "iter")
    if mode == "drawio":
        if case.get("enumerate_io") or case.get("enumerate_async"):
            return run_drawio_enumerated(case)
        return [[case, run_drawio(case)]]
    if mode == "session":
        return run_session_enumerated(case) if case.get("enumerate") else [[case, run_session(case)]]
    it = mode == "iter"
    if case.get("enumerate"):
        return run_iter_enumerated(case) if it else run_oneshot_enumerated(case)
    return [[case, run_iter(case) if it else run_oneshot(case)]]


if __name__ == "__main__":
    gc.collect()
    gc.freeze()  # start-up objects out of the collector's way: gc.collect() runs several times per case
    implenv.write_results([run_case(c) for c in implenv.read_cases()])
