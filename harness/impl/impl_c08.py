"""C08/C09/C10 implementation driver.

Runs operation histories on a real `RenderIterator` over an instrumented, deterministic
`Renderable` subclass (and, for C10, `render()` / `str()` / `draw()` on it), under a fault
schedule keyed by the number of the `_render_` call.  Everything is driven through the
public API (`RenderIterator(...)`, `next`, `seek`, `set_*`, `close`, `.loop`,
`Renderable.tell()`); the extension-API constructor `_from_render_data_` is used for the
"caller keeps ownership" cases exactly as `Renderable._animate_` uses it.

Output per case (integers / short enums only):
  ctor   : ["ok"] | ["err", <enum>]
  ops    : per operation [out, loop, tell] with out =
             ["F", number, duration, w, h, [raw ints], [l,t,r,b] | None]
           | ["S"] | ["K"] | ["E", <enum>, <code>]
  log    : per `_render_` call [frame_offset, whence, w, h, duration, args, finalized]
  fin    : calls of `_finalize_render_data_` on the iterator's render data
  finalized_end : RenderData.finalized after `del iterator; gc.collect()`
"""
import implenv  # noqa: F401  (sys.path, stubs, cwd)

import gc
import io
import os
import re
import sys

from term_image.geometry import Size
from term_image.padding import AlignedPadding, ExactPadding, HAlign, Padding, VAlign
from term_image.render import (
    FinalizedIteratorError,
    RenderIterator,
    StopDefiniteIterationError,
)
from term_image.renderable import (
    ArgsNamespace,
    DataNamespace,
    Frame,
    FrameCount,
    FrameDuration,
    IncompatibleRenderArgsError,
    Renderable,
    RenderArgs,
    RenderSizeOutofRangeError,
    Seek,
)
import term_image.renderable._renderable as _renderable_mod

WHENCE = [Seek.START, Seek.CURRENT, Seek.END]
FAULTS = {1: RuntimeError, 2: AttributeError, 3: KeyError, 4: ValueError, 5: IndexError}

FIN_CALLS = {}  # id(render_data) -> number of _finalize_render_data_ invocations
CREATED = []  # render data objects created (kept alive only via weak bookkeeping below)


class VR(Renderable):
    """Deterministic instrumented renderable.

    definite: renders the frame the render data asks for.
    INDEFINITE: a stream of `total` frames whose position lives in the render data and
    which honours every kind of seek (clamped at the beginning, StopIteration past the
    end)."""

    _hier = False  # True in the class hierarchy below VR ("hier" cases)

    def __init__(self, n, dur, size, total, faults, stamp, ffaults=None):
        super().__init__(FrameCount.INDEFINITE if n is None else n, dur)
        self._vsize = size
        self._total = total
        self._faults = faults
        self._stamp = stamp
        self._ffaults = ffaults or {}
        self.calls = 0
        self.log = []
        self.created = 0
        self.data_ids = []

    def _get_render_size_(self):
        return self._vsize

    def _get_render_data_(self, *, iteration):
        data = super()._get_render_data_(iteration=iteration)
        data[VR].pos = 0
        self.created += 1
        self.data_ids.append(id(data))
        FIN_CALLS[id(data)] = 0
        return data

    @classmethod
    def _finalize_render_data_(cls, render_data):
        FIN_CALLS[id(render_data)] = FIN_CALLS.get(id(render_data), 0) + 1
        super()._finalize_render_data_(render_data)

    def _render_(self, render_data, render_args):
        d = render_data[Renderable]
        call = self.calls
        self.calls += 1
        dur = d.duration if self.animated else 1
        durcode = -1 if dur is FrameDuration.DYNAMIC else dur
        a = render_args[VR].foo
        if self._hier:
            a = hier_value(self, render_args)
        w, h = d.size
        self.log.append([d.frame_offset, WHENCE.index(d.seek_whence), w, h, durcode, a,
                         int(render_data.finalized)])
        kind = self._faults.get(call)
        if kind is None and self.frame_count is not FrameCount.INDEFINITE:
            kind = self._ffaults.get(d.frame_offset)
        if kind is not None:
            exc = StopIteration("injected") if kind == 0 else FAULTS[kind]("injected")
            exc._verif_kind = kind
            raise exc
        if self.frame_count is FrameCount.INDEFINITE and d.iteration:
            ns = render_data[VR]
            fo, wh = d.frame_offset, d.seek_whence
            p = fo if wh is Seek.START else (ns.pos + fo if wh is Seek.CURRENT else self._total - 1 + fo)
            p = max(0, p)
            if p >= self._total:
                ns.pos = p
                exc = StopIteration("end of stream")
                exc._verif_kind = 0
                raise exc
            ns.pos = p + 1
            number, pos = p, p
        else:
            number, pos = d.frame_offset, -1
        raw = [d.frame_offset, WHENCE.index(d.seek_whence), w, h, durcode, a, pos,
               call if self._stamp else -1]
        line = "<" + ",".join(map(str, raw)) + ">"
        out = "\n".join(f"{line}{i}" for i in range(h))
        return Frame(number, 100 + number if durcode == -1 else dur, d.size, out)


class VRArgs(ArgsNamespace, render_cls=VR):
    foo: int = 0


class VRData(DataNamespace, render_cls=VR):
    pos: int


class Other(Renderable):
    def _get_render_size_(self):
        return Size(1, 1)

    def _render_(self, render_data, render_args):
        raise NotImplementedError


class OtherArgs(ArgsNamespace, render_cls=Other):
    bar: int = 0


# ----------------------------------------------------------------- class hierarchy ("hier" cases, C08)
#
# Renderable <- VR (foo) <- VRMid (mid) <- VRLeaf (leaf);  VR <- VRSib (sib);  Other (bar).
# A case with `"hier": true` iterates over a VRMid INSTANCE; render arguments are then given as
#   {"rel": "same",  "b": foo, "m": mid}           RenderArgs associated with VRMid itself
#   {"rel": "anc",   "b": foo}                     ... with the parent VR (compatible: converted)
#   {"rel": "anc0"}                                ... with Renderable (compatible: converted)
#   {"rel": "desc",  "b": foo, "m": mid, "x": leaf} ... with the SUBCLASS VRLeaf (incompatible)
#   {"rel": "sib",   "b": foo, "x": sib}           ... with the sibling VRSib (incompatible)
#   {"rel": "other", "x": bar}                     ... with the unrelated Other (incompatible)
# What `_render_` shows for the arguments it is handed: foo + 100 * mid, + 10000 if they are not associated
# with the renderable's own class (the contract of `_render_`).


class VRMid(VR):
    _hier = True


class VRMidArgs(ArgsNamespace, render_cls=VRMid):
    mid: int = 0


class VRLeaf(VRMid):
    pass


class VRLeafArgs(ArgsNamespace, render_cls=VRLeaf):
    leaf: int = 0


class VRSib(VR):
    _hier = True


class VRSibArgs(ArgsNamespace, render_cls=VRSib):
    sib: int = 0


def hier_value(renderable, render_args):
    a = render_args[VR].foo
    try:
        a += 100 * render_args[VRMid].mid
    except Exception:  # noqa: BLE001 — no namespace for VRMid at all
        a += 5000
    if render_args.render_cls is not type(renderable):
        a += 10000
    return a


def mk_hier_args(a):
    rel = a["rel"]
    if rel == "same":
        return RenderArgs(VRMid, VRArgs(a.get("b", 0)), VRMidArgs(a.get("m", 0)))
    if rel == "anc":
        return RenderArgs(VR, VRArgs(a.get("b", 0)))
    if rel == "anc0":
        return RenderArgs(Renderable)
    if rel == "desc":
        return RenderArgs(VRLeaf, VRArgs(a.get("b", 0)), VRMidArgs(a.get("m", 0)), VRLeafArgs(a.get("x", 0)))
    if rel == "sib":
        return RenderArgs(VRSib, VRArgs(a.get("b", 0)), VRSibArgs(a.get("x", 0)))
    if rel == "other":
        return RenderArgs(Other, OtherArgs(a.get("x", 0)))
    raise AssertionError(rel)


# ----------------------------------------------------------------- padding objects by CLASS (C08, IterPadCls)
#
# A padding is ["E", l, t, r, b] / ["A", w, h, h_align, v_align], optionally followed by the CLASS of the object:
#   (absent) / "base"  the library class itself (ExactPadding / AlignedPadding)
#   "sub"              an instance of a client SUBCLASS of that class (same fields)
#   "client"           ("E" only) an instance of a client subclass of the abstract `Padding` answering
#                      `_get_exact_dimensions_` with (l, t, r, b)


class SubAligned(AlignedPadding):
    """A client subclass of AlignedPadding (`AlignedPadding.resolve()` returns `type(self)(...)`)."""

    __slots__ = ()


class SubExact(ExactPadding):
    __slots__ = ()


class ClientPadding(Padding):
    __slots__ = ("dims",)

    def __init__(self, left, top, right, bottom):
        super().__init__(" ")
        Padding.__setattr__(self, "dims", (left, top, right, bottom))

    def _get_exact_dimensions_(self, render_size):
        return self.dims


def mk_padding(p):
    cls = p[5] if len(p) > 5 else "base"
    if p[0] == "E":
        if cls == "client":
            return ClientPadding(*p[1:5])
        return (SubExact if cls == "sub" else ExactPadding)(*p[1:5])
    return (SubAligned if cls == "sub" else AlignedPadding)(p[1], p[2], HAlign(p[3]), VAlign(p[4]))


def mk_args(a):
    if isinstance(a, dict):
        return mk_hier_args(a)
    if a == "bad":
        return RenderArgs(Other, OtherArgs(3))
    if a == "base":
        return RenderArgs(Renderable)
    if a == "none":
        return None
    return RenderArgs(VR, VRArgs(a))


def mk_dur(d):
    return FrameDuration.DYNAMIC if d is None else d


LINE = re.compile(r"^( *)<(-?\d+(?:,-?\d+)*)>(\d+)( *)$")


def decode_output(s, w, h):
    """Parse a (possibly padded) render output produced by VR: returns (raw, dims) with
    dims = None when unpadded, or None if the string is not a well-formed padded output."""
    lines = s.split("\n")
    top = 0
    while top < len(lines) and lines[top].strip(" ") == "" and lines[top] != "":
        top += 1
    bottom = 0
    while bottom < len(lines) - top and lines[-1 - bottom].strip(" ") == "" and lines[-1 - bottom] != "":
        bottom += 1
    body = lines[top:len(lines) - bottom]
    if not body:
        return None
    raw, left, right, lens = None, None, None, set()
    for i, ln in enumerate(body):
        m = LINE.match(ln)
        if not m or int(m.group(3)) != i:
            return None
        r = [int(x) for x in m.group(2).split(",")]
        if raw is None:
            raw, left, right = r, len(m.group(1)), len(m.group(4))
        elif r != raw or len(m.group(1)) != left or len(m.group(4)) != right:
            return None
        lens.add(len(ln))
    if len(body) != raw[3]:
        return None
    # the padding rows must be as wide as the padded body rows in *columns*:
    # a body row is `left + render_width + right` columns wide
    width_cols = left + raw[2] + right
    for ln in lines[:top] + lines[len(lines) - bottom:]:
        if len(ln) != width_cols:
            return None
    dims = [left, top, right, bottom]
    return raw, (None if dims == [0, 0, 0, 0] else dims)


def classify(exc):
    if hasattr(exc, "_verif_kind"):
        return ["E", "render", exc._verif_kind]
    if isinstance(exc, StopDefiniteIterationError):
        return ["E", "stopdef", 0]
    if isinstance(exc, FinalizedIteratorError):
        return ["E", "finalized", 0]
    if isinstance(exc, IncompatibleRenderArgsError):
        return ["E", "incompat", 0]
    if isinstance(exc, RenderSizeOutofRangeError):
        return ["E", "sizerange", 0]
    if isinstance(exc, ValueError):
        return ["E", "value", 0]
    return ["E", "other:" + type(exc).__name__, 0]


def frame_out(fr):
    dec = decode_output(fr.render_output, fr.render_size.width, fr.render_size.height)
    if dec is None:
        return ["F", fr.number, fr.duration, fr.render_size.width, fr.render_size.height, [-999], [-1, -1, -1, -1]]
    raw, dims = dec
    # an unpadded frame must have exactly the raw size; a padded one the padded size
    if dims is None:
        ok = (fr.render_size.width, fr.render_size.height) == (raw[2], raw[3])
    else:
        ok = (fr.render_size.width, fr.render_size.height) == (
            dims[0] + raw[2] + dims[2], dims[1] + raw[3] + dims[3])
    if not ok:
        return ["F", fr.number, fr.duration, fr.render_size.width, fr.render_size.height, raw,
                [-2, -2, -2, -2] if dims is None else [-3] + dims[1:]]
    return ["F", fr.number, fr.duration, fr.render_size.width, fr.render_size.height, raw, dims]


def apply_op(it, o):
    kind = o[0]
    try:
        if kind == "next":
            try:
                return frame_out(next(it))
            except StopIteration as e:
                if hasattr(e, "_verif_kind"):  # must never leak through
                    return ["E", "render", 0]
                return ["S"]
        elif kind == "seek":
            it.seek(o[1], WHENCE[o[2]]) if o[3] else it.seek(o[1])
        elif kind == "dur":
            it.set_frame_duration(mk_dur(o[1]))
        elif kind == "pad":
            it.set_padding(mk_padding(o[1]))
        elif kind == "args":
            it.set_render_args(mk_args(o[1]))
        elif kind == "size":
            it.set_render_size(Size(*o[1]))
        elif kind == "close":
            it.close()
        elif kind == "drop":
            it.__del__()
        else:
            raise AssertionError(kind)
        return ["K"]
    except StopIteration:
        raise
    except Exception as e:  # noqa: BLE001
        return classify(e)


def make_renderable(case):
    faults = {int(k): v for k, v in case.get("faults", {}).items()}
    ffaults = {int(k): v for k, v in case.get("ffaults", {}).items()}
    cls = VRMid if case.get("hier") else VR
    r = cls(case["n"], mk_dur(case["dur"]), Size(*case["size"]), case.get("total", 5), faults,
            case.get("stamp", False), ffaults)
    if case["n"] is not None and case.get("frame", 0):
        r.seek(case["frame"])
    return r


def run_iter_case(case):
    r = make_renderable(case)
    tell0 = r.tell()
    res = {"ops": [], "tell0": tell0}
    own_data = None
    try:
        if case.get("owns", True):
            it = RenderIterator(r, mk_args(case["args"]), mk_padding(case["pad"]),
                                case["loops"], case["cache"])
        else:
            own_data = r._get_render_data_(iteration=True)
            it = RenderIterator._from_render_data_(
                r, own_data, mk_args(case["args"]), mk_padding(case["pad"]),
                case["loops"], case["cache"], finalize=False)
        res["ctor"] = ["ok"]
    except Exception as e:  # noqa: BLE001
        res["ctor"] = ["err"] + classify(e)[1:]
        if own_data is not None:
            own_data.finalize()
        res.update(log=r.log, fin=0, finalized_end=0, created=r.created)
        return res
    data = it._render_data if own_data is None else own_data
    did = id(data)
    for o in case["ops"]:
        out = apply_op(it, o)
        res["ops"].append([out, it.loop, r.tell()])
    res["fin_before_drop"] = FIN_CALLS[did]
    res["finalized_before_drop"] = int(data.finalized)
    res["closed_before_drop"] = int(it._closed)
    del it
    gc.collect()
    res["fin"] = FIN_CALLS[did]
    res["finalized_end"] = int(data.finalized)
    res["log"] = r.log
    res["created"] = r.created
    if own_data is not None:
        own_data.finalize()
    return res


def run_oneshot_case(case):
    """render() / str() / draw() with a fault schedule; observes every render data object
    created through _get_render_data_."""
    r = make_renderable(case)
    mode = case["mode"]
    exc = None
    old_stdout, old_sleep = sys.stdout, _renderable_mod.sleep
    sys.stdout = buf = io.StringIO()
    _renderable_mod.sleep = lambda *_: None
    outcome = ["K"]
    try:
        try:
            if mode == "render":
                fr = r.render(mk_args(case["args"]), mk_padding(case["pad"]))
                outcome = frame_out(fr)
            elif mode == "str":
                s = str(r)
                outcome = ["K"]
            elif mode == "draw":
                r.draw(mk_args(case["args"]), mk_padding(case["pad"]), animate=case.get("animate", True),
                       loops=case["loops"], cache=case["cache"],
                       check_size=case.get("check_size", True), allow_scroll=case.get("allow_scroll", False))
            else:
                raise AssertionError(mode)
        except StopIteration as e:
            outcome = ["E", "render", 0] if hasattr(e, "_verif_kind") else ["E", "other:StopIteration", 0]
        except Exception as e:  # noqa: BLE001
            outcome = classify(e)
            exc = None
    finally:
        sys.stdout = old_stdout
        _renderable_mod.sleep = old_sleep
    del exc
    gc.collect()
    return {
        "outcome": outcome,
        "created": r.created,
        "fin": [FIN_CALLS[i] for i in r.data_ids],
        "log": r.log,
        "tell": r.tell(),
        "written": len(buf.getvalue()),
    }


# ----------------------------------------------------------------- env: resizes, writes to .loop, data re-use
#
# mode "env" (C08): the history may contain, beside the operations above,
#   ["resize", [columns, lines]]  the terminal is resized: from now on `get_terminal_size()`, as seen by every
#                                 loaded term_image module (and through COLUMNS / LINES), returns that size
#   ["poke", v]                   the client assigns `iterator.loop = v`
# `term0`: terminal size when the iterator is constructed.  `second` (optional): {"args", "pad", "loops",
# "cache", "owns", "ops"}: once the history is over the iterator is dropped and a second one is made with
# `_from_render_data_` over the SAME render data (requires owns == False for the first).
# Every step (resize and poke included) yields [out, iterator.loop, renderable.tell()].

TERM = [80, 30]


def _current_terminal_size():
    return os.terminal_size((TERM[0], TERM[1]))


def _terminal_hooks():
    return [(name, mod) for name, mod in list(sys.modules.items())
            if name.startswith("term_image") and callable(getattr(mod, "get_terminal_size", None))]


def set_terminal_size(size):
    TERM[0], TERM[1] = int(size[0]), int(size[1])
    os.environ["COLUMNS"], os.environ["LINES"] = str(TERM[0]), str(TERM[1])


def run_steps(it, r, steps, sink):
    for o in steps:
        if o[0] == "resize":
            set_terminal_size(o[1])
            out = ["K"]
        elif o[0] == "poke":
            it.loop = o[1]
            out = ["K"]
        else:
            out = apply_op(it, o)
        sink.append([out, it.loop, r.tell()])


def run_env_case(case):
    saved = [(mod, mod.get_terminal_size) for _, mod in _terminal_hooks()]
    saved_env = {k: os.environ.get(k) for k in ("COLUMNS", "LINES")}
    for mod, _ in saved:
        mod.get_terminal_size = _current_terminal_size
    try:
        return _run_env_case(case)
    finally:
        for mod, fn in saved:
            mod.get_terminal_size = fn
        for k, v in saved_env.items():
            if v is None:
                os.environ.pop(k, None)
            else:
                os.environ[k] = v
        TERM[0], TERM[1] = 80, 30


def _run_env_case(case):
    set_terminal_size(case.get("term0", [80, 30]))
    r = make_renderable(case)
    res = {"ops": [], "ctor2": None, "ops2": []}
    second = case.get("second")
    data = None
    try:
        if case.get("owns", True):
            if second is not None:
                raise AssertionError("a second iterator needs caller-owned render data")
            it = RenderIterator(r, mk_args(case["args"]), mk_padding(case["pad"]), case["loops"], case["cache"])
        else:
            data = r._get_render_data_(iteration=True)
            it = RenderIterator._from_render_data_(
                r, data, mk_args(case["args"]), mk_padding(case["pad"]), case["loops"], case["cache"],
                finalize=False)
        res["ctor"] = ["ok"]
    except AssertionError:
        raise
    except Exception as e:  # noqa: BLE001
        res["ctor"] = ["err"] + classify(e)[1:]
        if data is not None:
            data.finalize()
        res["log"] = r.log
        return res
    run_steps(it, r, case["ops"], res["ops"])
    if second is not None:
        del it  # the first iterator loses its last reference
        gc.collect()
        set_terminal_size(second.get("term", TERM))
        it = None
        try:
            it = RenderIterator._from_render_data_(
                r, data, mk_args(second["args"]), mk_padding(second["pad"]), second["loops"], second["cache"],
                finalize=bool(second.get("owns", False)))
            res["ctor2"] = ["ok"]
        except Exception as e:  # noqa: BLE001
            res["ctor2"] = ["err"] + classify(e)[1:]
        if it is not None:
            run_steps(it, r, second["ops"], res["ops2"])
    it = None
    gc.collect()
    if data is not None:
        data.finalize()
    res["log"] = r.log
    return res


def run_case(case):
    FIN_CALLS.clear()
    mode = case.get("mode", "iter")
    if mode == "iter":
        return run_iter_case(case)
    if mode == "env":
        return run_env_case(case)
    return run_oneshot_case(case)


if __name__ == "__main__":
    implenv.write_results([run_case(c) for c in implenv.read_cases()])
