"""C01/C02 implementation driver: renders generated images with the real render styles and
returns the render text together with the pixel data the block renderer was given."""
import random

import implenv
from implenv import tests

from PIL import Image
import term_image
from term_image.image import BlockImage, ITerm2Image, KittyImage
from term_image.image import common as _common

MODES = ["1", "L", "LA", "P", "PA", "RGB", "RGBA", "CMYK", "HSV"]


def make_image(spec):
    """Deterministic image from a spec: mode, size, seed, kind; "frames": n > 1 gives an
    animated GIF (opened from memory) whose first frame is the image described."""
    if spec.get("pages"):  # (additive) a multi-frame file whose frames differ in mode / content
        import io
        return Image.open(io.BytesIO(encode_pages(spec)))
    if spec.get("container") == "jpeg":  # (additive) a still behind a LAZY, configurable decoder: not loaded yet
        import io
        return Image.open(io.BytesIO(encode_jpeg(spec)))
    n = spec.get("frames", 1)
    if n > 1:
        import io
        first = make_still({**spec, "mode": "RGB"})
        frames = [first] + [first.point(lambda v, k=k: (v + 40 * k) % 256) for k in range(1, n)]
        buf = io.BytesIO()
        frames[0].save(buf, format="GIF", save_all=True, append_images=frames[1:], duration=50, loop=0)
        buf.seek(0)
        return Image.open(buf)
    return make_still(spec)


def encode_pages(spec):
    """Bytes of a multi-frame file whose frames are the stills spec["pages"] (one size; the modes
    may differ): "container" = "tiff" (lossless, every page keeps its own mode: RGB / RGBA / LA /
    L / 1 / CMYK) or "gif" (first frame P, possibly with a transparent index; Pillow hands out the
    later frames as RGB / RGBA)."""
    import io
    pages = [make_still(p) for p in spec["pages"]]
    buf = io.BytesIO()
    if spec.get("container", "tiff") == "gif":
        pages[0].save(buf, format="GIF", save_all=True, append_images=pages[1:], duration=50, loop=0, disposal=2)
    elif spec.get("container") == "mpo":  # (additive) JPEG frames: every frame has a draft-able decoder
        pages[0].save(buf, format="MPO", save_all=True, append_images=pages[1:], **jpeg_options(spec))
    else:
        pages[0].save(buf, format="TIFF", save_all=True, append_images=pages[1:])
    return buf.getvalue()


def jpeg_options(spec):
    opts = {"quality": spec.get("quality", 95)}
    if spec.get("subsampling") is not None:
        opts["subsampling"] = spec["subsampling"]
    return opts


def encode_jpeg(spec):
    """Bytes of a JPEG file of the still `spec` (mode RGB / L / CMYK; "quality", "subsampling").  Lossy,
    but decoding is deterministic: the pixels of the image are those of Pillow's full decode of
    these bytes."""
    import io
    buf = io.BytesIO()
    make_still(spec).save(buf, format="JPEG", **jpeg_options(spec))
    return buf.getvalue()


NO_ALPHA_MODES = {"1", "L", "RGB", "HSV", "CMYK"}


def rgba_pixels(im):
    return [list(p) for p in im.convert("RGBA").getdata()]


def resampled_pixels(im, size):
    """`im` (a frame in a mode without an alpha channel, decoded in full) at render resolution `size`:
    converted to RGB and BOX-resampled -- "the image at render resolution" (Pillow's resampling,
    applied to a decode that is independent of the instance under test)."""
    im = im.convert("RGB")
    if im.size != tuple(size):
        im = im.resize(tuple(size), Image.Resampling.BOX)
    return rgba_pixels(im)


def make_still(spec):
    if spec.get("pixels"):  # (additive) the exact pixels: rows of [r, g, b, a]; mode RGBA or RGB
        rows = spec["pixels"]
        im = Image.new("RGBA", (len(rows[0]), len(rows)))
        im.putdata([tuple(p) for row in rows for p in row])
        return im if spec["mode"] == "RGBA" else im.convert(spec["mode"])
    rng = random.Random(spec["seed"])
    w, h = spec["size"]
    kind = spec.get("kind", "random")
    mode = spec["mode"]
    base = Image.new("RGBA", (w, h))
    px = base.load()
    palette = [tuple(rng.randrange(256) for _ in range(3)) for _ in range(rng.randint(1, 4))]
    bgc = spec.get("bg_pixel")
    if bgc:
        palette.append(tuple(bgc))
    alphas = spec.get("alphas", [0, 255, 255, 255, 128, 1, 254])
    for y in range(h):
        x = 0
        while x < w:
            if kind == "uniform":
                run, col, a = w, palette[0], alphas[spec["seed"] % len(alphas)]
            elif kind == "bands":  # flat rows alternating with noise rows (strips of very
                # different compressibility in one render)
                if (y // max(1, h // 4)) % 2 == 0:
                    run, col, a = w, palette[0], 255
                else:
                    run, col, a = 1, tuple(rng.randrange(256) for _ in range(3)), 255
            elif kind == "runs":
                run, col, a = rng.randint(1, max(1, w)), rng.choice(palette), rng.choice(alphas)
            elif kind == "alpha-flip":  # colour runs with alpha flips inside
                run, col, a = rng.randint(1, 3), palette[(y + x // 3) % len(palette)], rng.choice(alphas)
            else:
                run, col, a = 1, tuple(rng.randrange(256) for _ in range(3)), rng.choice(alphas)
            for k in range(x, min(w, x + run)):
                px[k, y] = col + (a,)
            x += run
    if mode == "RGBA":
        return base
    if mode in ("LA", "PA"):
        img = base.convert("LA")
        return img if mode == "LA" else base.convert("PA") if hasattr(Image, "core") else img
    if mode == "P":
        im = base.convert("RGB").convert("P", palette=Image.Palette.ADAPTIVE, colors=8)
        if spec.get("ptrans") is not None:
            # palette transparency (GIF / tRNS style): one palette index is fully transparent
            used = sorted(set(im.getdata()))
            im.info["transparency"] = used[spec["ptrans"] % len(used)]
        return im
    return base.convert("RGB").convert(mode)


def parse_alpha(a):
    if a is None or isinstance(a, str):
        return a
    return float(a)


# ---------------------------------------------------------------------------------- sessions
# (additive: only used when a case has the key "session")  A session is a sequence of render
# requests on ONE image instance; a request may be interrupted by an asynchronous exception at
# the k-th line event inside term_image code (asyncfault) or by an ordinary exception raised by
# the n-th call of something the render calls.  Every completed request is reported like a
# single render, every interrupted one as {"interrupted": ...}.


def _render_via(image, via, spec, alpha, args):
    if via == "str":
        return str(image)
    if via == "format":
        return format(image, spec)
    return image._renderer(image._render_image, alpha, **args)


def _apply_size(image, size):
    from term_image.image import Size
    if size is None:
        return
    if isinstance(size, str):
        image.set_size(Size[size.upper()])
    else:
        image.set_size(width=size[0], height=size[1])


class _Raiser:
    """Patches `target` ("module:attr[.attr...]") so that its n-th call raises `exc`."""

    def __init__(self, target, nth, exc):
        import builtins
        import importlib
        mod, _, path = target.partition(":")
        parts = path.split(".")
        owner = importlib.import_module(mod)
        self.parent, self.pname = None, None
        for name in parts[:-1]:
            self.parent, self.pname = owner, name
            owner = getattr(owner, name)
        self.owner, self.name = owner, parts[-1]
        self.nth, self.calls, self.fired = nth, 0, False
        self.exc = getattr(builtins, exc)
        self.orig = getattr(owner, self.name)
        self.subclassed = None

    def _hit(self):
        self.calls += 1
        if self.calls == self.nth and not self.fired:
            self.fired = True
            raise self.exc("injected by the session driver")

    def __enter__(self):
        orig, hit = self.orig, self._hit

        def wrapper(*a, **k):
            hit()
            return orig(*a, **k)

        try:
            setattr(self.owner, self.name, wrapper)
        except TypeError:
            # a built-in type (io.StringIO ...): substitute a subclass in its module
            sub = type(self.owner.__name__, (self.owner,), {self.name: wrapper})
            self.subclassed = getattr(self.parent, self.pname)
            setattr(self.parent, self.pname, sub)
        return self

    def __exit__(self, *a):
        if self.subclassed is not None:
            setattr(self.parent, self.pname, self.subclassed)
        else:
            setattr(self.owner, self.name, self.orig)
        return False


# ---------------------------------------------------------------- sequences over instances
# (additive: only used when a step of a session has the key "inst")  The case carries
# "instances": a list of {"cls": "block" | "sub" | "subsub" | "kitty" | "iterm2", "img": image spec
# (possibly multi-frame, see encode_pages), "source": "pil" | "file", "cells": [w, h]}; a step
# addresses one of them with "inst": k and may carry "seek": n (image.seek(n) first), "term_bg" /
# "on_kitty" (the environment at that moment), "want_source_pixels", and via = "iter" with
# "frames": [0, ...] (one ImageIterator; consecutive numbers = next(), others = seek() + next();
# reported as {"multi": [one result per frame]}).  Source pixels are those of the frame the DRIVER
# selected, decoded afresh (never through the instance under test).


class SubBlockImage(BlockImage):
    """A subclass of the block style (class-level state is per class or shared with the parent)."""


class SubSubBlockImage(SubBlockImage):
    pass


SEQ_CLASSES = {"block": BlockImage, "sub": SubBlockImage, "subsub": SubSubBlockImage,
               "kitty": KittyImage, "iterm2": ITerm2Image}


class _Instances:
    def __init__(self, case):
        self.specs = case.get("instances", [])
        self.objs, self.paths, self.pos, self.nf, self.tmp = {}, {}, {}, {}, None
        self.caller = {}  # the PIL images handed to the library by the "caller" (PIL sources)

    def _file(self, k):
        import os
        import tempfile
        spec = self.specs[k]["img"]
        if k not in self.paths:
            if self.tmp is None:
                self.tmp = tempfile.mkdtemp(prefix="verif_seq_")
            if spec.get("pages"):
                data, ext = encode_pages(spec), spec.get("container", "tiff")
            elif spec.get("container") == "jpeg":
                data, ext = encode_jpeg(spec), "jpg"
            else:
                import io
                buf = io.BytesIO()
                make_image(spec).save(buf, format="PNG")
                data, ext = buf.getvalue(), "png"
            self.paths[k] = os.path.join(self.tmp, f"inst{k}.{ext}")
            with open(self.paths[k], "wb") as f:
                f.write(data)
        return self.paths[k]

    def get(self, k):
        if k not in self.objs:
            spec = self.specs[k]
            cls = SEQ_CLASSES[spec.get("cls", "block")]
            w, h = spec["cells"]
            if spec.get("source") == "file":
                self.objs[k] = cls.from_file(self._file(k), width=w, height=h)
            elif spec.get("source") == "pil-file":
                # (additive) a file-backed PIL image of the caller's, opened but not loaded yet
                self.caller[k] = Image.open(self._file(k))
                self.objs[k] = cls(self.caller[k], width=w, height=h)
            else:
                self.caller[k] = make_image(spec["img"])
                self.objs[k] = cls(self.caller[k], width=w, height=h)
            self.pos[k] = 0
        return self.objs[k]

    def fresh(self, k):
        """A new decode of instance k's source, independent of the instance under test."""
        spec = self.specs[k]
        return Image.open(self._file(k)) if spec.get("source") in ("file", "pil-file") else make_image(spec["img"])

    def n_frames(self, k):
        if k not in self.nf:
            self.nf[k] = getattr(self.fresh(k), "n_frames", 1)
        return self.nf[k]

    def frame_pixels(self, k, n):
        im = self.fresh(k)
        if getattr(im, "n_frames", 1) > 1:
            im.seek(n)
        return im.mode, im.info.get("transparency") is not None, [list(p) for p in im.convert("RGBA").getdata()]

    def resampled(self, k, n, size):
        """Frame n of instance k's source, decoded afresh and in full, at render resolution `size`
        (None for a frame whose mode has an alpha channel: its resampling depends on the setting)."""
        im = self.fresh(k)
        if getattr(im, "n_frames", 1) > 1:
            im.seek(n)
        return resampled_pixels(im, size) if im.mode in NO_ALPHA_MODES else None

    def check_callers(self):
        """After the sequence: every PIL image the caller handed in must still BE the image -- same
        size, same pixels as a fresh full decode, frame by frame (the library may read a caller's
        image; it must not reconfigure, shrink, close or otherwise degrade it)."""
        out = []
        for k, ci in sorted(self.caller.items()):
            rec = {"inst": k, "ok": True}
            try:
                for n in range(self.n_frames(k)):
                    fr = self.fresh(k)
                    if self.n_frames(k) > 1:
                        ci.seek(n)
                        fr.seek(n)
                    want, got = rgba_pixels(fr), None
                    if ci.size == fr.size:
                        got = rgba_pixels(ci)
                    if got != want:
                        rec.update(ok=False, frame=n, size=list(ci.size), want_size=list(fr.size),
                                   ndiff=(sum(a != b for a, b in zip(got, want)) if got else len(want)))
                        break
            except Exception as e:  # noqa: BLE001
                rec.update(ok=False, error=f"{type(e).__name__}: {e}")
            out.append(rec)
        return out

    def cleanup(self):
        import shutil
        for ci in self.caller.values():
            try:
                ci.close()
            except Exception:  # noqa: BLE001
                pass
        for o in self.objs.values():
            try:
                o.close()
            except Exception:  # noqa: BLE001
                pass
        if self.tmp:
            shutil.rmtree(self.tmp, ignore_errors=True)


def _seq_env(case, step):
    bg = step.get("term_bg", case.get("term_bg"))
    tests.set_fg_bg_colors(None, tuple(bg) if bg else None)
    if tests.is_on_kitty != bool(step.get("on_kitty", case.get("on_kitty", False))):
        tests.toggle_is_on_kitty()


def _seq_result(res, insts, k, cur, step, captured):
    res["frame"], res["tell"], res["cls"] = insts.pos[k], cur.tell(), type(cur).__name__
    if isinstance(cur, BlockImage) and "data" in captured:
        im2, rgb, a = captured["data"]
        res["alpha_mode"] = im2.mode == "RGBA"
        res["rgb"] = [list(p) for p in rgb]
        res["a"] = list(a)
        res["render_px"] = list(cur._get_render_size())
    if step.get("want_source_pixels"):
        res["frame_mode"], res["frame_ptrans"], res["src"] = insts.frame_pixels(k, insts.pos[k])
        res["src_size"] = list(insts.fresh(k).size)
        if step.get("want_resampled_pixels") and "render_px" in res and res["src_size"] != res["render_px"]:
            # (additive) off render resolution: the fresh full decode, BOX-resampled to render resolution
            box = insts.resampled(k, insts.pos[k], res["render_px"])
            if box is not None:
                res["src_box"] = box
    return res


def _run_iter(insts, k, cur, step, captured):
    """One ImageIterator over instance k: the frames asked for, in the order asked for."""
    from term_image.image import ImageIterator
    nf = insts.n_frames(k)
    if nf < 2:  # (the encoder merged identical frames: not animated, nothing to iterate)
        return {"multi": []}
    it = ImageIterator(cur, step.get("repeat", 1), step.get("spec", ""), step.get("cached", False))
    multi, prev = [], None
    try:
        for idx, f in enumerate(step["frames"]):
            f = 0 if idx == 0 else f % nf
            captured.clear()
            try:
                if idx and f != prev + 1:
                    it.seek(f)
                out = next(it)
            except BaseException as e:  # noqa: BLE001
                multi.append({"error": f"{type(e).__name__}: {e}", "frame": f})
                break
            insts.pos[k] = prev = f
            multi.append(_seq_result({"out": out, "rendered_size": list(cur.rendered_size)}, insts, k, cur, step, captured))
    finally:
        it.close()
    return {"multi": multi}


def run_session(case, cls, image, captured):
    insts = _Instances(case)
    try:
        out = _run_session(case, cls, image, captured, insts)
        if case.get("check_caller_sources"):  # (additive)
            out["caller_sources"] = insts.check_callers()
        return out
    finally:
        insts.cleanup()


def _run_session(case, cls, primary, captured, insts):
    import builtins
    from asyncfault import AsyncFault
    style = case["style"]
    results = []
    for step in case["session"]:
        image, k = primary, step.get("inst")
        if k is not None:
            try:
                image = insts.get(k)
                _seq_env(case, step)
                if step.get("seek") is not None:
                    insts.pos[k] = step["seek"] % insts.n_frames(k)
                    image.seek(insts.pos[k])
                if step.get("via") == "iter":
                    _apply_size(image, step.get("size"))
                    results.append(_run_iter(insts, k, image, step, captured))
                    continue
            except Exception as e:  # noqa: BLE001
                results.append({"error": f"{type(e).__name__}: {e}"})
                continue
        _apply_size(image, step.get("size"))
        via = step.get("via", "renderer")
        spec = step.get("spec", "")
        alpha = parse_alpha(step.get("alpha"))
        args = dict(step.get("args", {}))
        fault = step.get("fault") or {}
        captured.clear()
        info = {}
        try:
            if "async" in fault:
                k = fault["async"].get("k")
                if k is None:
                    # counting run on a fresh instance with the same size setting
                    probe = type(image)(make_image(case["img"] if k is None else insts.specs[k]["img"]))
                    sz = image.size
                    if isinstance(sz, tuple):
                        probe.set_size(width=sz[0], height=sz[1])
                    else:
                        probe.set_size(sz)
                    with AsyncFault(k=None) as counter:
                        try:
                            _render_via(probe, via, spec, alpha, args)
                        except Exception:
                            pass
                    n = counter.count
                    k = min(n, 1 + int(fault["async"].get("frac", 0.5) * n)) if n else 1
                    info["n"] = n
                    captured.clear()
                info["k"] = k
                exc_cls = getattr(builtins, fault["async"].get("exc", "KeyboardInterrupt"))
                with AsyncFault(k=k, exc=exc_cls) as f:
                    try:
                        out = _render_via(image, via, spec, alpha, args)
                    finally:
                        info["fired"], info["where"] = f.fired, list(f.where) if f.where else None
            elif "raise" in fault:
                r = fault["raise"]
                with _Raiser(r["target"], r.get("nth", 1), r.get("exc", "MemoryError")) as f:
                    try:
                        out = _render_via(image, via, spec, alpha, args)
                    finally:
                        info["fired"], info["calls"] = f.fired, f.calls
            else:
                out = _render_via(image, via, spec, alpha, args)
        except BaseException as e:  # noqa: BLE001
            if info.get("fired"):
                results.append({"interrupted": type(e).__name__, **info})
            else:
                results.append({"error": f"{type(e).__name__}: {e}", **info})
            continue
        res = {"out": out, "rendered_size": list(image.rendered_size), **info}
        if k is not None:
            results.append(_seq_result(res, insts, k, image, step, captured))
            continue
        if style == "block" and "data" in captured:
            im2, rgb, a = captured["data"]
            res["alpha_mode"] = im2.mode == "RGBA"
            res["rgb"] = [list(p) for p in rgb]
            res["a"] = list(a)
            res["render_px"] = list(image._get_render_size())
        results.append(res)
    return {"session": results}


def run_case(case):
    style = case["style"]
    cls = {"block": BlockImage, "kitty": KittyImage, "iterm2": ITerm2Image}[style]
    tests.set_cell_size(tuple(case.get("cell_size", (10, 20))))
    bg = case.get("term_bg")
    tests.set_fg_bg_colors(None, tuple(bg) if bg else None)
    if tests.is_on_kitty != bool(case.get("on_kitty", False)):
        tests.toggle_is_on_kitty()
    KittyImage._supported = ITerm2Image._supported = True
    KittyImage._KITTY_VERSION = tuple(case.get("kitty_version", (0, 30, 0)))
    ITerm2Image._TERM = case.get("term", "")
    captured = {}
    opened, tmpdir, path = [], None, None
    saved_ratio = term_image._cell_ratio
    orig_ts = _common.get_terminal_size
    if case.get("term_size"):  # a small terminal keeps dynamically sized renders small
        _common.get_terminal_size = lambda: __import__("os").terminal_size(tuple(case["term_size"]))
    base_ts = _common.get_terminal_size
    orig = _common.BaseImage._get_render_data

    def wrapped(self, *a, **k):
        res = orig(self, *a, **k)
        captured["data"] = res
        return res

    _common.BaseImage._get_render_data = wrapped
    try:
        img = make_image(case["img"])
        src_pixels = None
        if case.get("want_source_pixels") and not case.get("src_resampled"):
            rgba = img.convert("RGBA")
            src_pixels = [list(p) for p in rgba.getdata()]
        w, h = case["cells"]
        if case.get("source") in ("file", "pil-file"):
            # (additive) the image comes from a file on disk: opened by the library (a fresh decode per
            # render) / by the caller, who hands in the not-yet-loaded file-backed PIL image
            import os
            import tempfile
            tmpdir = tempfile.mkdtemp(prefix="verif_src_")
            path = os.path.join(tmpdir, "img." + {"jpeg": "jpg"}.get(case["img"].get("container"), "png"))
            if case["img"].get("container") == "jpeg":
                data = encode_jpeg(case["img"])
            else:
                import io
                buf = io.BytesIO()
                img.save(buf, format="PNG")
                data = buf.getvalue()
            with open(path, "wb") as f:
                f.write(data)
            img = Image.open(path)
            opened.append(img)
        dyn = case.get("dynamic")
        if dyn is not None:
            # a DYNAMIC size (default FIT): the advertised size is asked under one environment,
            # then the environment changes (cell size / cell ratio, same columns x lines)
            image = cls(img)
            pre = dyn.get("pre", {})
            if "cell_size" in pre:
                tests.set_cell_size(tuple(pre["cell_size"]))
            if "ratio" in pre:
                term_image.set_cell_ratio(pre["ratio"])
            res_pre = list(image.rendered_size)
            tests.set_cell_size(tuple(case.get("cell_size", (10, 20))))
            if "ratio" in dyn:
                term_image.set_cell_ratio(dyn["ratio"])
        elif case.get("source") == "file":
            image = cls.from_file(path, width=w, height=h)
        else:
            image = cls(img, width=w, height=h)
        if case.get("session") is not None:
            return run_session(case, cls, image, captured)
        pinned = []
        if case.get("resize_during"):
            # the terminal is resized while ONE render is in progress: from its k-th query of the
            # terminal size on, the answer is another size
            k0, other = case["resize_during"]
            calls = {"n": 0}

            def ts():
                calls["n"] += 1
                return __import__("os").terminal_size(tuple(other)) if calls["n"] > k0 else base_ts()

            _common.get_terminal_size = ts
            ri = image._render_image

            def rimg(*a, **k):
                pinned.append(list(image.rendered_size))
                out_ = ri(*a, **k)
                pinned.append(list(image.rendered_size))
                return out_

            image._render_image = rimg
        alpha = parse_alpha(case.get("alpha"))
        args = dict(case.get("args", {}))
        via = case.get("via", "renderer")
        if via == "str":
            out = str(image)
        elif via == "format":
            out = format(image, case.get("spec", ""))
        else:
            out = image._renderer(image._render_image, alpha, **args)
        res = {"out": out, "rendered_size": list(image.rendered_size)}
        if pinned:
            res["pinned_sizes"] = pinned
            res["rendered_size"] = pinned[0]  # the size the render was made for
        if dyn is not None:
            res["advertised_before_env_change"] = res_pre
        if case.get("want_render_image") and "data" in captured:
            # (additive) mode and pixel size of the image whose bytes the graphics style encoded
            res["render_image"] = {"mode": captured["data"][0].mode, "size": list(captured["data"][0].size)}
        if style == "block" and "data" in captured:
            im2, rgb, a = captured["data"]
            res["alpha_mode"] = im2.mode == "RGBA"
            res["rgb"] = [list(p) for p in rgb]
            res["a"] = list(a)
            # (for a render during which the terminal was resized: the size the render was pinned to)
            res["render_px"] = [pinned[0][0], 2 * pinned[0][1]] if pinned else list(image._get_render_size())
        if case.get("want_source_pixels") and case.get("src_resampled") and style == "block":
            # (additive) the source pixels AT RENDER RESOLUTION from a fresh, full decode that never went
            # through the library (modes without an alpha channel: convert + BOX, whatever the setting);
            # and what has become of the PIL image the caller handed in
            fresh = Image.open(path) if tmpdir else make_image(case["img"])
            if fresh.mode in NO_ALPHA_MODES:
                src_pixels = resampled_pixels(fresh, res["render_px"])
                res["src_scale"] = [fresh.size[0] / res["render_px"][0], fresh.size[1] / res["render_px"][1]]
            if case.get("source") != "file":
                full = rgba_pixels(Image.open(path) if tmpdir else make_image(case["img"]))
                same = img.size == fresh.size and rgba_pixels(img) == full
                res["caller_source"] = None if same else (
                    f"the caller's PIL image is now {img.size[0]}x{img.size[1]} (decodes to "
                    f"{fresh.size[0]}x{fresh.size[1]} pixels when opened afresh)" if img.size != fresh.size else
                    "the caller's PIL image no longer has the pixels of a fresh full decode")
        if src_pixels is not None:
            res["src"] = src_pixels
        if style == "block" and alpha is None and img.mode in ("RGBA", "LA", "PA") and via == "renderer":
            # "disabling transparency ignores alpha": the same image without its alpha channel
            # must render identically (at any size: both go through the same RGB resampling)
            image2 = cls(img.convert("RGB"), width=w, height=h)
            out2 = image2._renderer(image2._render_image, None, **args)
            res["noalpha_same"] = out2 == out
        return res
    except Exception as e:
        return {"error": f"{type(e).__name__}: {e}"}
    finally:
        for o in opened:
            try:
                o.close()
            except Exception:  # noqa: BLE001
                pass
        if tmpdir:
            __import__("shutil").rmtree(tmpdir, ignore_errors=True)
        _common.BaseImage._get_render_data = orig
        ITerm2Image._TERM = ""
        _common.get_terminal_size = orig_ts
        if case.get("dynamic") is not None:
            term_image._cell_ratio = saved_ratio


if __name__ == "__main__":
    implenv.write_results([run_case(c) for c in implenv.read_cases()])
