"""C05 implementation driver: pads real renders with the new Padding classes, with
Renderable.render(padding=...), and with the old image API (_check_formatting +
_format_render / format()); and runs whole HISTORIES (kind "history": resizes, RenderIterator
set_padding / set_render_size / seek / next, per-call paddings) in one forked process each.

Round 6: (a) render CONTENT - a case's inner render may be {"style": "text", "cells": [w, h], "lines": [...]}: the
lines of a user-defined text renderable, given verbatim (glyphs, escape sequences in the middle of a line,
characters that occupy no column); padded directly, through Renderable.render(padding=) and as a RenderIterator
frame.  (b) kind "anim": Renderable.draw() of a multi-frame text renderable with a padding, standard output
connected to a pty; returns everything that arrived on the master side and the frames in the order drawn.

Round 8: kind "oanim": BaseImage.draw(animate=True) of a multi-frame GIF with the block / kitty / iterm2 style on a pty,
the style's class carrying a given terminal identity (ITerm2Image._TERM, KittyImage._KITTY_VERSION) for that one draw."""
import os

import implenv
from implenv import tests
import impl_render

import term_image
from term_image.geometry import Size
from term_image.padding import (AlignedPadding, ExactPadding, HAlign, VAlign,
                                RelativePaddingDimensionError)
from term_image.image import common as _common
from term_image.renderable import Frame, Renderable, RenderArgs
from term_image.renderable import _renderable as _rmod

# the universe of one-column fills (the same table as props/c05.FILL_STR): one code point, empty, and
# SEVERAL code points occupying one column (combining sequences, joiner / variation selector, SGR-wrapped)
FILLS = {"space": " ", "star": "*", "empty": "",
         "comb": "e\u0301", "comb2": "o\u0302\u0323", "zwj": "+\u200d", "vs": "#\ufe0e",
         "rev": "\x1b[7m \x1b[27m",
         "bgblank": "\x1b[48;2;10;20;30m \x1b[0m", "fgglyph": "\x1b[38;2;200;100;0m+\x1b[0m"}


class Still(Renderable):
    def __init__(self, out, size):
        super().__init__(1, 1)
        self._out, self._sz = out, size

    def _get_render_size_(self):
        return Size(*self._sz)

    def _render_(self, render_data, render_args):
        return Frame(0, 1, Size(*self._sz), self._out)


class Sized(Renderable):
    """A still renderable whose output depends on the render size it is asked for: `#` cells."""

    def __init__(self, size):
        super().__init__(2, 1)  # two frames: RenderIterator wants an animated renderable
        self._sz = size

    def _get_render_size_(self):
        return Size(*self._sz)

    def _render_(self, render_data, render_args):
        d = render_data[Renderable]
        w, h = d.size
        return Frame(d.frame_offset, 1, Size(w, h), "\n".join(["#" * w] * h))


class Text(Renderable):
    """A user-defined text renderable: frame k is the given lines of frame k, whatever they contain."""

    def __init__(self, frames, size):
        super().__init__(len(frames), 1)
        self._frames, self._sz = frames, size

    def _get_render_size_(self):
        return Size(*self._sz)

    def _render_(self, render_data, render_args):
        d = render_data[Renderable]
        return Frame(d.frame_offset, 1, Size(*self._sz), "\n".join(self._frames[d.frame_offset]))


def make_padding(p, fill):
    if p["kind"] == "aligned":
        return AlignedPadding(p["W"], p["H"], HAlign(p["ha"]), VAlign(p["va"]), fill)
    return ExactPadding(p["l"], p["t"], p["r"], p["b"], fill)


def run_case(case):
    tw, th = case.get("term_size", (80, 30))
    ts = os.terminal_size((tw, th))
    saved = (_common.get_terminal_size, _rmod.get_terminal_size, term_image.utils.get_terminal_size)
    _common.get_terminal_size = _rmod.get_terminal_size = term_image.utils.get_terminal_size = lambda: ts
    try:
        if case.get("kind") == "exact-invalid":
            try:
                ExactPadding(*case["dims"])
                return {"raised": 0}
            except ValueError:
                return {"raised": 1}
        if case.get("kind") == "anim":
            return run_anim(case)
        if case.get("kind") == "oanim":
            return run_oanim(case)
        text = case["render"]["style"] == "text"
        if text:  # the lines of a text renderable, verbatim
            inner = {"out": "\n".join(case["render"]["lines"]), "rendered_size": case["render"]["cells"]}
        else:
            inner = impl_render.run_case(case["render"])
        if "error" in inner:
            return {"error": "inner render: " + inner["error"]}
        R = inner["out"]
        w, h = inner["rendered_size"]
        res = {"inner": R, "size": [w, h]}
        p = case["padding"]
        fill = FILLS[case.get("fill", "space")]
        if p["kind"] in ("aligned", "exact"):
            pad = make_padding(p, fill)
            rel_raises = None
            if p["kind"] == "aligned" and pad.relative:
                rel_raises = []
                for f in (lambda: pad.get_padded_size(Size(w, h)), lambda: pad.pad(R, Size(w, h)),
                          lambda: pad.to_exact(Size(w, h))):
                    try:
                        f()
                        rel_raises.append(0)
                    except RelativePaddingDimensionError:
                        rel_raises.append(1)
                pad = pad.resolve(ts)
            elif p["kind"] == "aligned":
                assert pad.resolve(ts) is pad
            res["relative_raises"] = rel_raises
            via = case.get("via", "pad")
            if via == "iterator" and text:
                # a frame of a RenderIterator over a two-frame text renderable (the second frame)
                from term_image.render import RenderIterator
                it = RenderIterator(Text([["?" * w] * h, case["render"]["lines"]], (w, h)), padding=pad)
                try:
                    next(it)
                    frame = next(it)
                finally:
                    it.close()
                res["out"] = frame.render_output
                res["frame_size"] = list(frame.render_size)
            elif via == "iterator":
                # a frame of a RenderIterator whose render size was changed with set_render_size()
                # BEFORE set_padding(): the padding applies to the size the frames are rendered at
                from term_image.render import RenderIterator
                own = case.get("own_size", [1, 1])
                it = RenderIterator(Sized(own))
                try:
                    if case.get("order", 0) == 0:
                        it.set_render_size(Size(w, h))
                        it.set_padding(pad)
                    else:
                        it.set_padding(pad)
                        it.set_render_size(Size(w, h))
                    frame = next(it)
                finally:
                    it.close()
                R = "\n".join(["#" * w] * h)
                res["inner"] = R
                res["out"] = frame.render_output
                res["frame_size"] = list(frame.render_size)
            elif via == "renderable":
                r = Still(R, (w, h))
                frame = r.render(RenderArgs(Still), padding=pad)
                res["out"] = frame.render_output
                res["frame_size"] = list(frame.render_size)
            else:
                res["out"] = pad.pad(R, Size(w, h))
            exact = pad.to_exact(Size(w, h))
            ps = pad.get_padded_size(Size(w, h))
            res["dims"] = list(exact.dimensions) + [ps.width, ps.height]
            res["exact_same"] = exact.pad(R, Size(w, h)) == pad.pad(R, Size(w, h)) and \
                tuple(exact.get_padded_size(Size(w, h))) == tuple(ps) and exact.fill == pad.fill
        else:  # old API
            image = inner.get("_image")
            cls = {"block": impl_render.BlockImage, "kitty": impl_render.KittyImage,
                   "iterm2": impl_render.ITerm2Image}[case["render"]["style"]]
            img = impl_render.make_image(case["render"]["img"])
            image = cls(img, width=w, height=h)
            H_ALIGN = [["<", "left"], ["|", "center", None], [">", "right"]]
            V_ALIGN = [["^", "top"], ["-", "middle", None], ["_", "bottom"]]
            ha = H_ALIGN[p["ha"]][case.get("pres", 0) % len(H_ALIGN[p["ha"]])]
            va = V_ALIGN[p["va"]][case.get("pres", 0) % len(V_ALIGN[p["va"]])]
            if case.get("via") == "format":
                # through the format-spec route: "[h_align][width][.[v_align][height]]"; width 0 or
                # absent = terminal width, height absent = terminal height - 2, explicit 0 =
                # terminal height
                pres = case.get("pres", 0)
                hc = ["<", "|", ">"][p["ha"]] if not (p["ha"] == 1 and pres % 3 == 2) else ""
                vc = ["^", "-", "_"][p["va"]] if not (p["va"] == 1 and pres % 3 == 2) else ""
                assert p["W"] >= 0 and (p["H"] >= 0 or p["H"] == -2)
                ws = str(p["W"]) if p["W"] > 0 else ("0" if pres % 2 else "")
                hs = "" if p["H"] == -2 else str(p["H"])
                spec = hc + ws + ("." + vc + hs if vc + hs else "")
                tail = ""
                if case["render"]["style"] != "block":
                    tail = "+" + {"lines": "L", "whole": "W"}[case["render"]["args"].get("method", "lines")]
                res["inner"] = format(image, "1.1" + tail)
                res["out"] = format(image, spec + tail)
                res["spec"] = spec + tail
            else:
                fmt = image._check_formatting(ha, p["W"], va, p["H"])
                res["out"] = image._format_render(R, *fmt)
            res["dims"] = None
        return res
    except Exception as e:
        import traceback
        return {"error": f"{type(e).__name__}: {e} {traceback.format_exc()[-300:]}"}
    finally:
        _common.get_terminal_size, _rmod.get_terminal_size, term_image.utils.get_terminal_size = saved


# ------------------------------------------------------------------------------- animated draws
def capture_pty(fn):
    """fn() with sys.stdout connected to a pty slave (isatty() holds; output post-processing off, so the
    master side sees exactly what was written); returns (text that arrived on the master side, exception)"""
    import pty
    import sys
    import termios
    import threading
    master, slave = pty.openpty()
    attrs = termios.tcgetattr(slave)
    attrs[1] &= ~termios.OPOST
    termios.tcsetattr(slave, termios.TCSANOW, attrs)
    chunks = []
    sentinel = b"\x00\x00<end-of-capture>\x00\x00"
    seen = threading.Event()

    def reader():
        while True:
            try:
                data = os.read(master, 1 << 16)
            except OSError:
                break
            if not data:
                break
            chunks.append(data)
            if sentinel in b"".join(chunks[-3:]) or sentinel in b"".join(chunks):
                seen.set()
                break

    th = threading.Thread(target=reader, daemon=True)
    th.start()
    out = os.fdopen(slave, "w", encoding="utf-8", newline="")
    saved, exc = sys.stdout, None
    sys.stdout = out
    try:
        fn()
    except BaseException as e:  # noqa: B902
        exc = e
    finally:
        sys.stdout = saved
        try:
            out.flush()
            # the slave is closed only after the master side has received everything: closing it
            # while data is still in flight to the master can lose the tail under heavy machine load
            os.write(slave, sentinel)
            termios.tcdrain(slave)
        except Exception:
            pass
        seen.wait(120)
        out.close()
    th.join(120)
    os.close(master)
    data = b"".join(chunks)
    if sentinel in data:
        data = data[:data.index(sentinel)]
    chunks = [data]
    return b"".join(chunks).decode("utf-8"), exc


def run_anim(case):
    """Renderable.draw() of an animation on a pty (the terminal size is already patched by run_case)"""
    w, h = case["size"]
    frames = case["frames"]
    pad = make_padding(case["padding"], FILLS[case.get("fill", "space")])
    r = Text(frames, (w, h))
    loops = case.get("loops", 1)
    saved_sleep = _rmod.sleep
    _rmod.sleep = lambda seconds: None
    try:
        out, exc = capture_pty(lambda: r.draw(None, pad, loops=loops, cache=case.get("cache", True)))
    finally:
        _rmod.sleep = saved_sleep
    if exc is not None:
        return {"error": f"draw() raised {type(exc).__name__}: {exc}"}
    joined = ["\n".join(f) for f in frames]
    exact = (pad.resolve(os.terminal_size(case["term_size"])) if isinstance(pad, AlignedPadding) else pad).to_exact(Size(w, h))
    return {"out": out, "frames": joined * loops, "size": [w, h], "dims": list(exact.dimensions)}


# --------------------------------------------------------- animated draws of the image classes (round 8)
def make_gif(spec):
    """an n-frame RGB GIF (n_frames, size in pixels, seed); every frame differs from the others"""
    import io
    from PIL import Image
    n, (pw, ph), seed = spec["n_frames"], spec["size"], spec.get("seed", 0)
    ims = []
    for k in range(n):
        im = Image.new("RGB", (pw, ph))
        px = im.load()
        for y in range(ph):
            for x in range(pw):
                px[x, y] = ((seed * 13 + 60 * k + 9 * x) % 256, (40 * k + 23 * y + seed) % 256, (200 - 45 * k + x * y) % 256)
        ims.append(im)
    buf = io.BytesIO()
    ims[0].save(buf, "GIF", save_all=True, append_images=ims[1:], duration=1, loop=0)
    buf.seek(0)
    return Image.open(buf)


def run_oanim(case):
    """BaseImage.draw(animate=True) of a multi-frame image of the given style on a pty, the style's class
    carrying the given terminal identity (ITerm2Image._TERM is per class: set for this one draw, restored
    afterwards; kitty: _KITTY_VERSION); returns everything that arrived on the master side, the UNFORMATTED
    frame renders in the order they were produced (recorded at _render_image) and the rendered size."""
    import sys
    import time
    from term_image.image import BlockImage, ITerm2Image, KittyImage
    cls = {"block": BlockImage, "kitty": KittyImage, "iterm2": ITerm2Image}[case["style"]]
    tests.set_cell_size(tuple(case.get("cell_size", (10, 20))))
    saved_cls = (ITerm2Image._TERM, ITerm2Image._supported, KittyImage._supported, KittyImage._KITTY_VERSION)
    ts = os.terminal_size(tuple(case["term_size"]))
    patched = []
    for name, mod in list(sys.modules.items()):   # every module of the library that imported the function
        if name.startswith("term_image") and hasattr(mod, "get_terminal_size"):
            patched.append((mod, mod.get_terminal_size))
            mod.get_terminal_size = lambda: ts
    saved_sleep = time.sleep
    # kitty.py binds `_stdout_write = sys.stdout.write` at import time; here sys.stdout is replaced for the
    # capture, so follow the current sys.stdout (in a program that never rebinds sys.stdout they are the same)
    from term_image.image import kitty as _kitty
    saved_write = _kitty._stdout_write
    _kitty._stdout_write = lambda text: sys.stdout.write(text)
    H_ALIGN = [["<", "left"], ["|", "center", None], [">", "right"]]
    V_ALIGN = [["^", "top"], ["-", "middle", None], ["_", "bottom"]]
    try:
        KittyImage._supported = ITerm2Image._supported = True
        KittyImage._KITTY_VERSION = tuple(case.get("kitty_version", (0, 30, 0)))
        ITerm2Image._TERM = case.get("term", "")
        pres = case.get("pres", 0)
        ha = H_ALIGN[case["ha"]][pres % len(H_ALIGN[case["ha"]])]
        va = V_ALIGN[case["va"]][pres % len(V_ALIGN[case["va"]])]
        img = make_gif(case["img"])
        image = cls(img, height=case["height"])
        image.frame_duration = 0.0001
        frames = []
        orig = image._render_image

        def wrapped(*a, **k):
            out = orig(*a, **k)
            frames.append(out)
            return out

        image._render_image = wrapped
        W, Hh = case["pad"]
        kw = dict(animate=True, repeat=case.get("repeat", 1), cached=case.get("cached", False))
        kw.update(case.get("args", {}))
        time.sleep = lambda seconds: None
        try:
            out, exc = capture_pty(lambda: image.draw(ha, W, va, Hh, None, **kw))
        finally:
            time.sleep = saved_sleep
        if exc is not None:
            return {"error": f"draw() raised {type(exc).__name__}: {exc}"}
        n = img.n_frames
        rep = case.get("repeat", 1)
        drawn = frames if len(frames) == n * rep else (frames[:n] * rep if len(frames) >= n else frames)
        return {"out": out, "frames": drawn, "rendered": len(frames), "size": list(image.rendered_size), "n_frames": n}
    finally:
        _kitty._stdout_write = saved_write
        for mod, fn in patched:
            mod.get_terminal_size = fn
        (ITerm2Image._TERM, ITerm2Image._supported, KittyImage._supported, KittyImage._KITTY_VERSION) = saved_cls


# ------------------------------------------------------------------------------- histories
# A history is ONE case run in ONE process: terminal resizes, RenderIterator.set_padding /
# set_render_size / seek / next on one iterator, and calls with their own padding (old image API:
# format(image, spec), image.draw(...), _check_formatting + _format_render; new API:
# Renderable.render(padding=)) on the same image instances / classes.  Every output is returned.


def set_terminal(tw, th):
    """The terminal is (tw, th) from now on, for every module of the library."""
    import sys
    ts = os.terminal_size((tw, th))
    for name, mod in list(sys.modules.items()):
        if name.startswith("term_image") and hasattr(mod, "get_terminal_size"):
            mod.get_terminal_size = lambda: ts


def digits(k, w, h):
    return "\n".join([str(k % 10) * w] * h)


class Digits(Renderable):
    """Frame k at render size (w, h): h lines of w copies of the digit k."""

    def __init__(self, n, size):
        super().__init__(n, 1)
        self._sz = size

    def _get_render_size_(self):
        return Size(*self._sz)

    def _render_(self, render_data, render_args):
        d = render_data[Renderable]
        w, h = d.size
        return Frame(d.frame_offset, 1, Size(w, h), digits(d.frame_offset, w, h))


H_ALIGN = [["<", "left"], ["|", "center", None], [">", "right"]]
V_ALIGN = [["^", "top"], ["-", "middle", None], ["_", "bottom"]]
IMG_K = 100  # frame numbers of the images in the table of bare renders


def old_format_spec(p, pres):
    """"[h_align][width][.[v_align][height]]"; width 0 or absent = terminal width, height absent
    = terminal height - 2, explicit 0 = terminal height"""
    hc = ["<", "|", ">"][p["ha"]] if not (p["ha"] == 1 and pres % 3 == 2) else ""
    vc = ["^", "-", "_"][p["va"]] if not (p["va"] == 1 and pres % 3 == 2) else ""
    assert p["W"] >= 0 and (p["H"] >= 0 or p["H"] == -2)
    ws = str(p["W"]) if p["W"] > 0 else ("0" if pres % 2 else "")
    hs = "" if p["H"] == -2 else str(p["H"])
    return hc + ws + ("." + vc + hs if vc + hs else "")


def run_history(case):
    import contextlib
    import io
    from term_image.render import RenderIterator
    saved = {}
    import sys
    for name, mod in list(sys.modules.items()):
        if name.startswith("term_image") and hasattr(mod, "get_terminal_size"):
            saved[name] = mod.get_terminal_size
    it = None
    try:
        set_terminal(*case["term_size"])
        tests.set_cell_size((10, 20))
        impl_render.KittyImage._supported = impl_render.ITerm2Image._supported = True
        frames, outs = [], []
        images = []
        for n, spec in enumerate(case.get("images", [])):
            cls = {"block": impl_render.BlockImage, "kitty": impl_render.KittyImage,
                   "iterm2": impl_render.ITerm2Image}[spec["style"]]
            impl_render.ITerm2Image._TERM = case["images"][0].get("term", "")  # per class: one per history
            w, h = spec["cells"]
            image = cls(impl_render.make_image(spec["img"]), width=w, height=h)
            method = spec.get("args", {}).get("method", "lines")
            tail = "" if spec["style"] == "block" else "+" + {"lines": "L", "whole": "W"}[method]
            style = {} if spec["style"] == "block" else {"method": method}
            bare = format(image, "1.1" + tail)
            assert list(image.rendered_size) == [w, h], (image.rendered_size, w, h)
            images.append((image, tail, style, bare, w, h))
            frames.append([IMG_K + n, w, h, bare])
        seen = set()

        def digit_frame(k, w, h):
            if (k, w, h) not in seen:
                seen.add((k, w, h))
                frames.append([k, w, h, digits(k, w, h)])

        n_frames = case.get("frames", 0)
        size = list(case.get("size", [1, 1]))
        if n_frames:
            it = RenderIterator(Digits(n_frames, size), padding=make_padding(case["pad0"], FILLS[case["pad0"]["fill"]]),
                                loops=case.get("loops", -1), cache=case.get("cache", True))
        callee = Digits(max(n_frames, 2), [1, 1])
        for st in case["steps"]:
            op = st["op"]
            if op == "resize":
                set_terminal(st["tw"], st["th"])
            elif op == "set_padding":
                it.set_padding(make_padding(st["pad"], FILLS[st["pad"]["fill"]]))
            elif op == "set_size":
                size = [st["w"], st["h"]]
                it.set_render_size(Size(*size))
            elif op == "seek":
                it.seek(st["k"])
            elif op == "next":
                frame = next(it)
                for k in range(n_frames):
                    digit_frame(k, *size)
                outs.append({"out": frame.render_output, "frame_size": list(frame.render_size), "number": frame.number})
            elif op == "call":
                p, via = st["pad"], st["via"]
                if via == "render":  # new API: a padding given to Renderable.render()
                    callee._sz = [st["w"], st["h"]]
                    callee.seek(st["k"])
                    frame = callee.render(padding=make_padding(p, FILLS[p["fill"]]))
                    digit_frame(st["k"], st["w"], st["h"])
                    outs.append({"out": frame.render_output, "frame_size": list(frame.render_size)})
                    continue
                image, tail, style, bare, w, h = images[st["k"] - IMG_K]
                pres = st.get("pres", 0)
                if via == "format":
                    out = format(image, old_format_spec(p, pres) + tail)
                else:
                    ha = H_ALIGN[p["ha"]][pres % len(H_ALIGN[p["ha"]])]
                    va = V_ALIGN[p["va"]][pres % len(V_ALIGN[p["va"]])]
                    if via == "draw":
                        buf = io.StringIO()
                        with contextlib.redirect_stdout(buf):
                            image.draw(ha, p["W"], va, p["H"], check_size=False, **style)
                        out = buf.getvalue()
                        SGR_DEFAULT = _common.SGR_DEFAULT
                        end = SGR_DEFAULT + "\n"  # draw()'s own epilogue (C06's business)
                        assert out.endswith(end), repr(out[-20:])
                        out = out[: -len(end)]
                    else:  # "fmt": the two halves of format() / draw() called directly
                        out = image._format_render(bare, *image._check_formatting(ha, p["W"], va, p["H"]))
                outs.append({"out": out, "frame_size": None})
            else:
                raise ValueError(op)
        return {"outs": outs, "frames": frames}
    except Exception as e:
        import traceback
        return {"error": f"{type(e).__name__}: {e} {traceback.format_exc()[-400:]}"}
    finally:
        if it is not None:
            it.close()
        for name, f in saved.items():
            sys.modules[name].get_terminal_size = f


def run_isolated(case):
    """A history runs in a forked child of this (freshly imported, otherwise idle) process: whatever
    the library remembers at process level from one history cannot reach the next one, and a replay
    of the single history sees exactly the same initial state."""
    import json
    r, w = os.pipe()
    pid = os.fork()
    if pid == 0:
        code = 0
        try:
            os.close(r)
            with os.fdopen(w, "w") as f:
                f.write(json.dumps(run_history(case)))
        except BaseException:
            code = 1
        finally:
            os._exit(code)
    os.close(w)
    with os.fdopen(r) as f:
        data = f.read()
    _, status = os.waitpid(pid, 0)
    if status != 0 or not data:
        return {"error": f"history child exited with status {status}"}
    return json.loads(data)


def dispatch(case):
    return run_isolated(case) if case.get("kind") == "history" else run_case(case)


if __name__ == "__main__":
    implenv.write_results([dispatch(c) for c in implenv.read_cases()])
