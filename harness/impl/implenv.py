"""Implementation-side set-up shared by the drivers: imports term_image from /repo/src
with the test-suite's stubs (terminal size 80x30, settable cell size / colours / name)."""
import json
import os
import sys

REPO = os.environ.get("VERIF_REPO", "/repo")
for p in (REPO, REPO + "/src"):
    if p in sys.path:
        sys.path.remove(p)
sys.path.insert(0, REPO)
sys.path.insert(0, REPO + "/src")
os.chdir(REPO)  # tests/ opens fixture images by relative path

import tests  # noqa: E402  (installs the stubs)
import term_image  # noqa: E402

assert term_image.__file__.startswith(REPO + "/src"), term_image.__file__


def read_cases():
    return json.loads(sys.stdin.read())


def write_results(res):
    sys.stdout.write(json.dumps(res))
    sys.stdout.flush()
