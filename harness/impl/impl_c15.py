"""C15 implementation driver: cached terminal facts.

Runs histories of {resize, win-size-swap toggles, query toggles, set_cell_ratio, getters}
against the REAL functions of term_image (NOT the test-suite stubs: `tests` is never
imported here).  Only the OS-facing layer is replaced, by a scripted FIFO terminal:

    utils.get_terminal_size          -> the scripted size in cells
    utils.fcntl.ioctl(TIOCGWINSZ)    -> the scripted pixel fields (or zeros / OSError)
    utils.termios.tc[gs]etattr       -> no-ops (TCSAFLUSH discards pending input)
    utils.write_tty / utils.read_tty -> the scripted terminal's input/output queues
    utils._tty_fd                    -> a fake descriptor (or -1: no terminal)
    os.environ[TERM_PROGRAM...]      -> scripted

`utils.query_terminal` itself (with its `_queries_enabled` gate), `get_cell_size`,
`get_fg_bg_colors`, `get_terminal_name_version`, `cached`, `terminal_size_cached`,
`term_image.{enable,disable}_*`, `set_cell_ratio`, `get_cell_ratio` and
`TextImage._is_on_kitty` are the real ones.  `query_terminal` is wrapped by a counting
pass-through so that body executions of the memoised getters can be counted.

For every getter the driver also reports the value computed by a *twin*: a second copy of
the package (`ti_fresh`), re-executed from source immediately before (hence with empty
caches), given the same scripted terminal and settings, once with the current
query-enabled status and once with queries enabled.

ABORTED computations: the ops CSA / CRA / COA / NVA call the getter with a FAULT armed
in the scripted terminal; it fires once, at the first of these events INSIDE
`query_terminal`: "kbd" -> KeyboardInterrupt while the reply is awaited (the timed
`read_tty`), "oserr" -> OSError(EIO) from writing the request (`write_tty`), "termios" ->
`termios.error` from `tcsetattr(TCSAFLUSH)`.  If the call never gets there (answered
from a cache, by the ioctl, queries disabled, no tty) it returns normally.  When the
exception reaches the caller the observation is [-1] and the body counters are put back
(they count COMPLETED computations).  The fault is disarmed after the op.

RESIZE DURING A MEMOISED BODY: the op TSR c r x y calls the `terminal_size_cached` probe
with a resize armed in its body: the body (if it runs at all, i.e. the entry does not
serve the call) reads the scripted terminal's pixel size, THEN sets the scripted terminal
to (c, r, x, y), then returns.  The twin's fresh value for this op is the one for the
terminal the call was made at.  The resize is disarmed after the op.

PROBE HISTORIES ({"probe": {"res": [...], "cmds": [...]}}): a function decorated with the
REAL `utils.cached` whose body returns, per scripted argument tuple k, the object
PROBE_OBJS[res[k]] (code -1 = None; 0, "", (None, None), a tuple, False, (), ...); the
commands ["C", k] (call with argument tuple PROBE_ARGS[k]) and ["I"] (_invalidate_cache)
are executed sequentially; per command: how often the body ran and which object came back
(by identity).

SWAP SCHEDULES ({"swap": {...}}): thread 0 runs a program of enable_/disable_win_size_swap
calls, thread 1 one get_cell_size(); `utils._cell_size_lock` is replaced by a re-entrant
lock that reports thread 0's lock events, so that thread 1's call runs, to completion,
exactly at a chosen point: ["before"], ["after"], ["acq", j] (thread 0 is about to enter
the `with` block of its j-th effective toggle), ["rel", j] (it has just left it), or
["ioctl"] (thread 1 goes first and thread 0 runs, until it blocks on the lock or
finishes, while thread 1 is inside its ioctl, i.e. inside the lock region and before it
reads the flag).  Observed: flag, cache, thread 1's value, number of computations, a
get_cell_size() made after both finished, and the twin's fresh values.

INVALIDATION SCHEDULES ({"inval": {...}}): 2-3 real threads run programs of memoised
calls ["C", k] / ["I"] (`f._invalidate_cache()`) / ["E"] (`term_image.enable_queries()`) /
["D"] (`term_image.disable_queries()`) on one memoised function `fn` under a COOPERATIVE
SCHEDULER: a controlled thread runs only when PICKED and then runs to its next parking
point.  Parking points: the start of every command; the acquisition of the memo's lock
(about to acquire / just acquired) and its release (about to release / just released);
the start of the memoised body,
before it reads `_queries_enabled`; inside the body after the flag was read (the
terminal's reply is about to arrive); the table's `setdefault`.  The lock and the table
of `utils.cached` live in closure cells shared by the wrapper and its `_invalidate_cache`:
the cells' contents are replaced by a reporting re-entrant lock (`CoopRLock`: a pick of a
thread that finds the lock taken is a no-op, nobody ever blocks on it) and a reporting
dict (`CoopDict`); for fn = "cs" (`get_cell_size`) the module attributes
`_cell_size_lock` / `_cell_size_cache` are replaced likewise.  fn: "nv"
(`get_terminal_name_version`), "co" (`get_fg_bg_colors`, keys = the three argument
tuples), "cs", or "probe": a function decorated with the REAL `utils.cached` whose body
reads `utils._queries_enabled` at its start and returns (condition, serial of the body
run, key) — its "E" is `enable_queries()` followed, when it found queries disabled, by
the probe's own `_invalidate_cache()`.  `sched` is the list of picks; whatever is still
unfinished afterwards runs freely ("drained").  Observed: see model/CachesInvalTie.v.

REAL-TERMINAL HISTORIES (a history with a "real" part: {"COLUMNS": str | null, "LINES": str |
null}): the library's OWN `utils.get_terminal_size()` (the function object of $VERIF_REPO's
utils.py, kept from before anything was replaced) produces the cache key: `utils._tty_fd` is the
slave side of a fresh pty whose window (cells AND pixels) is set with TIOCSWINSZ — at the start,
at every "R" op and when a resize lands in the probe's body —, the ioctl of `get_cell_size` is
the real one on that pty (when the scripted terminal reports pixel sizes through it), and the
process environment holds COLUMNS / LINES as given (absent when null); the op ["ENV", c, l]
changes them in mid-history.  Queries still go to the scripted terminal.  The TWIN is NOT given
the function under test nor the environment: it computes for the window the driver has set.

HAND-OVER SCHEDULES ({"hand": {...}}): 2-3 real threads run programs of ["T", b]
(enable_/disable_win_size_swap(), or — kind "queries" — enable_queries()) / ["G"]
(get_cell_size()) / ["S"] (the library's `_process_start_wrapper`, i.e. what
`multiprocessing.Process.start` is replaced by when there is an active terminal, around a start
that does not fork) under the cooperative scheduler.  `utils._cell_size_lock` is a REAL RLock
(a subclass instance: `isinstance(lock, utils._rlock_type)` holds) that parks a controlled
thread when it is about to acquire from outside ("acq"; a pick that finds it taken leaves the
thread there), has acquired ("held") and is about to release completely ("rel");
`utils._cell_size_cache` is a list that parks a getter before it stores; `utils.Array` is
replaced by a factory that parks before ("copy") and after ("copied") it copies its argument
into a stand-in for the shared array, whose `get_lock()` parks ("getlock") and returns a second
lock of the same reporting kind; `get_cell_size` also parks inside its ioctl ("read": the flag is
not read yet).  Observed: see model/CachesHandTie.v.

Modes (stdin JSON):  list of cases -> list of results;  a case is either a history
({"env", "t0", "ops"} [+ "real"]), a thread race ({"threads": n, "fn": ...}), a probe history, a
`terminal_size_cached` history with several argument tuples ({"tsargs": ...}, see run_tsargs), a
swap schedule, an invalidation schedule, a hand-over schedule, or a request for a fresh computation in this
(new) interpreter ({"fresh": ...}).
"""
import fcntl as real_fcntl
import importlib.util
import json
import os
import pty
import struct
import sys
import threading
import time
import types
import warnings

REPO = os.environ.get("VERIF_REPO", "/repo")
SRC = REPO + "/src"
for p in (REPO, SRC):
    while p in sys.path:
        sys.path.remove(p)
sys.path.insert(0, SRC)
warnings.simplefilter("ignore")

import termios as real_termios  # noqa: E402

import term_image  # noqa: E402
import term_image.utils as U  # noqa: E402
from term_image import _ctlseqs as ctl  # noqa: E402

assert term_image.__file__.startswith(SRC), term_image.__file__
assert "tests" not in sys.modules

# the library's OWN get_terminal_size(), before anything is replaced (`tests` was never imported:
# every module that imported it by name holds this very function, too)
REAL_GET_TERMINAL_SIZE = U.get_terminal_size
assert REAL_GET_TERMINAL_SIZE.__module__ == "term_image.utils"

FAKE_FD = 1000
FAULT_MARK = "c15-injected-fault"
NAMES = {0: None, 1: "kitty", 2: "konsole", 3: "wezterm", 4: "iterm2", 5: "xterm", 6: "vte", 7: "iterm.app",
         8: "apple_terminal"}
SHOWN = {1: ["kitty", "Kitty", "KITTY"], 2: ["Konsole", "konsole", "KONSOLE"], 3: ["WezTerm", "wezterm", "WEZTERM"],
         4: ["iTerm2", "iterm2", "ITERM2"], 5: ["XTerm", "xterm", "XTERM"], 6: ["VTE", "vte", "Vte"],
         7: ["iTerm.app", "iterm.app", "ITERM.APP"], 8: ["Apple_Terminal", "apple_terminal", "APPLE_TERMINAL"]}
VERS = {0: None, 1: "0.26.5", 2: "22.12.3", 3: "3.4.19", 4: "20230408", 5: "379", 6: "0.31.0"}
NAME_CODE = {v: k for k, v in NAMES.items()}
VER_CODE = {v: k for k, v in VERS.items()}


class Term:
    """The scripted terminal: a FIFO of replies to the queries the library sends."""

    def __init__(self, env, size):
        self.env = env
        self.cols, self.rows, self.xpx, self.ypx = size
        self.pending = b""
        self.pres = env.get("pres", 0)
        self.fault = None  # armed fault: "kbd" | "oserr" | "termios"
        self.fired = 0
        self.resize_in_body = None  # armed resize: the size the terminal gets while the probe's body runs
        self.resized_in_body = 0
        self.real_fd = None  # real-terminal histories: the slave side of the pty that is the active terminal
        self.ioctl_park = None  # hand-over schedules: called inside every ioctl of get_cell_size

    def fire(self, where):
        """Raise the armed fault if `where` is its firing point (one shot)."""
        f = self.fault
        if f == "kbd" and where == "read":
            exc = KeyboardInterrupt(FAULT_MARK)
        elif f == "oserr" and where == "write":
            exc = OSError(5, FAULT_MARK)
        elif f == "termios" and where == "flush":
            exc = real_termios.error(5, FAULT_MARK)
        else:
            return
        self.fault = None
        self.fired += 1
        raise exc

    # -- what the terminal answers
    def reply(self, seq):
        e = self.env
        st = "\x07" if self.pres & 1 else ctl.ST
        if seq == ctl.CELL_SIZE_PX_b:
            if e["xc"]:
                return "%s6;%d;%dt" % (ctl.CSI, self.ypx // self.rows, self.xpx // self.cols)
        elif seq == ctl.TEXT_AREA_SIZE_PX_b:
            if e["xa"]:
                return "%s4;%d;%dt" % (ctl.CSI, self.ypx, self.xpx)
        elif seq == ctl.DA1_b:
            if not e.get("mute"):
                return ctl.CSI + "?62;c"
        elif seq in (ctl.TEXT_FG_QUERY_b, ctl.TEXT_BG_QUERY_b):
            which = 10 if seq == ctl.TEXT_FG_QUERY_b else 11
            c = e["fg"] if which == 10 else e["bg"]
            if c >= 0:
                r, g, b = c >> 16, (c >> 8) & 255, c & 255
                if self.pres & 2:
                    spec = "rgb:%04x/%04x/%04x" % (r * 257, g * 257, b * 257)
                else:
                    spec = "rgb:%02x/%02x/%02x" % (r, g, b)
                return "%s%d;%s%s" % (ctl.OSC, which, spec, st)
        elif seq == ctl.XTVERSION_b:
            if e["xtname"]:
                n, v = e["xtname"]
                shown = SHOWN[n][(self.pres >> 2) % 3]
                body = "%s(%s)" % (shown, VERS[v]) if self.pres & 16 else "%s %s" % (shown, VERS[v])
                return "%s>|%s%s" % (ctl.DCS, body, ctl.ST)
        else:
            raise AssertionError("scripted terminal: unknown request %r" % seq)
        return ""

    KNOWN = None

    def write(self, data):
        if not self.env["tty"]:
            return None
        self.fire("write")
        known = (ctl.CELL_SIZE_PX_b, ctl.TEXT_AREA_SIZE_PX_b, ctl.DA1_b, ctl.TEXT_FG_QUERY_b, ctl.TEXT_BG_QUERY_b,
                 ctl.XTVERSION_b)
        while data:
            for k in known:
                if data.startswith(k):
                    self.pending += self.reply(k).encode()
                    data = data[len(k):]
                    break
            else:
                raise AssertionError("scripted terminal: unparsable request %r" % data)
        if self.env.get("slow"):
            time.sleep(0.003)  # widens the window of the thread race; not used in histories

    def read(self, more=lambda _: True, timeout=None, min=0, *, echo=False):
        if not self.env["tty"]:
            return None
        if timeout is None:
            out, self.pending = self.pending, b""
            return out
        self.fire("read")  # interrupted while waiting for the terminal's reply
        buf = bytearray()
        while self.pending and more(buf):  # the real loop reads one byte at a time
            buf.append(self.pending[0])
            self.pending = self.pending[1:]
        return bytes(buf)


class TermiosShim:
    error = real_termios.error

    def __init__(self, term):
        self.term = term
        for k in ("ECHO", "ICANON", "TCSAFLUSH", "TCSANOW", "TIOCGWINSZ", "VMIN", "VTIME"):
            setattr(self, k, getattr(real_termios, k))

    def tcgetattr(self, fd):
        assert fd in (FAKE_FD, self.term.real_fd), fd
        return [0, 0, 0, real_termios.ECHO | real_termios.ICANON, 0, 0, [b"\0"] * 32]

    def tcsetattr(self, fd, when, attr):
        assert fd in (FAKE_FD, self.term.real_fd), fd
        if when == real_termios.TCSAFLUSH:
            self.term.fire("flush")
            self.term.pending = b""

    def tcdrain(self, fd):
        assert fd in (FAKE_FD, self.term.real_fd), fd


class FcntlShim:
    def __init__(self, term, counters):
        self.term, self.counters = term, counters

    def ioctl(self, fd, req, buf, *a):
        t = self.term
        assert fd in (FAKE_FD, t.real_fd) and req == real_termios.TIOCGWINSZ, (fd, req)
        self.counters["cs"] += 1
        hook, t.ioctl_hook = getattr(t, "ioctl_hook", None), None
        if hook:  # swap schedules: another thread gets to run while this one is inside get_cell_size's lock region
            hook()
        if t.ioctl_park:
            t.ioctl_park()
        if t.real_fd is not None and t.env["io"]:
            # real-terminal histories: the window size as the pty's own ioctl reports it
            assert fd == t.real_fd, fd
            return real_fcntl.ioctl(fd, req, buf, *a)
        if not t.env["io"]:
            if t.pres & 8:
                raise OSError(25, "Inappropriate ioctl for device")
            buf[0], buf[1], buf[2], buf[3] = t.rows, t.cols, 0, 0
            return 0
        buf[0], buf[1], buf[2], buf[3] = t.rows, t.cols, t.xpx, t.ypx
        return 0


def install(M, term, counters):
    """Point the utils module object M (primary or twin) at the scripted terminal."""
    M._tty_fd = FAKE_FD if term.env["tty"] else -1
    M.get_terminal_size = lambda: os.terminal_size((term.cols, term.rows))
    M.fcntl = FcntlShim(term, counters)
    M.termios = TermiosShim(term)
    M.write_tty = term.write
    M.read_tty = term.read
    orig = getattr(M.query_terminal, "_c15_orig", M.query_terminal)

    def counting_query_terminal(request, more, timeout=None):
        if request.startswith(ctl.TEXT_FG_QUERY_b):
            counters["col"] += 1
        elif request.startswith(ctl.XTVERSION_b):
            counters["nv"] += 1
        return orig(request, more, timeout)

    counting_query_terminal._c15_orig = orig
    M.query_terminal = counting_query_terminal
    n, v = term.env["envname"]
    for key, val in (("TERM_PROGRAM", n and SHOWN[n][(term.pres >> 2) % 3]), ("TERM_PROGRAM_VERSION", VERS[v])):
        if val:
            os.environ[key] = val
        else:
            os.environ.pop(key, None)
    os.environ["SHELL"] = "/bin/sh"


# ------------------------------------------------------------------ canonical values


def enc_cs(v):
    return [0] if v is None else [1, int(v[0]), int(v[1])]


def enc_ratio(r):
    n, d = float(r).as_integer_ratio()
    return [n, d]


def enc_color(c):
    if c is None:
        return -1
    if isinstance(c, str):
        assert len(c) == 7 and c[0] == "#", c
        return int(c[1:], 16)
    r, g, b = c
    assert all(0 <= x <= 255 for x in c), c
    return (r << 16) | (g << 8) | b


def enc_cols(v):
    fg, bg = v
    rep = 0
    for c in (fg, bg):
        if c is not None:
            rep = 2 if isinstance(c, str) else 1
    return [rep, enc_color(fg), enc_color(bg)]


def enc_nv(v):
    n, ver = v
    return [NAME_CODE.get(n, 99), VER_CODE.get(ver, 99)]


ABORT_OPS = {"CSA": "CS", "CRA": "CR", "COA": "CO", "NVA": "NV"}
COL_CALLS = {0: lambda f: f(), 1: lambda f: f(hex=False), 2: lambda f: f(hex=True)}

# ---------------------------------------------------------------------------- twin

_twin_spec = importlib.util.spec_from_file_location("ti_fresh", SRC + "/term_image/__init__.py",
                                                    submodule_search_locations=[SRC + "/term_image"])


def load_twin():
    """Re-execute term_image/__init__.py and term_image/utils.py as package `ti_fresh`:
    every cache of the twin is empty because the twin did not exist before."""
    for k in ("ti_fresh", "ti_fresh.utils"):
        sys.modules.pop(k, None)
    mod = importlib.util.module_from_spec(_twin_spec)
    sys.modules["ti_fresh"] = mod
    _twin_spec.loader.exec_module(mod)
    assert mod.utils is not U and mod.utils.__file__ == U.__file__
    return mod


_fresh_results = {}


def fresh(kind, term_args, swap, qen, key=0):
    """The getter `kind` computed from empty caches for the given terminal/settings (by a twin loaded for this
    computation; the result for one (getter, terminal, settings) is computed once per driver process)."""
    memo_key = json.dumps([kind, term_args[0], list(term_args[1]), bool(swap), bool(qen), key], sort_keys=True)
    if memo_key not in _fresh_results:
        _fresh_results[memo_key] = _fresh(kind, term_args, swap, qen, key)
    return list(_fresh_results[memo_key])


def _fresh(kind, term_args, swap, qen, key=0):
    env, size = term_args
    T = load_twin()
    t = Term(env, size)
    install(T.utils, t, {"cs": 0, "col": 0, "nv": 0})
    T.utils._swap_win_size = bool(swap)
    T.utils._queries_enabled = bool(qen)
    if kind == "CS":
        return enc_cs(T.utils.get_cell_size())
    if kind == "CR":  # the DYNAMIC ratio
        T._cell_ratio = None
        return enc_ratio(T.get_cell_ratio())
    if kind == "CO":
        return enc_cols(COL_CALLS[key](T.utils.get_fg_bg_colors))
    if kind == "NV":
        return enc_nv(T.utils.get_terminal_name_version())
    if kind == "TS":  # a first call of a freshly decorated probe
        return list(T.utils.terminal_size_cached(lambda: (t.xpx, t.ypx))())
    raise AssertionError(kind)


# ------------------------------------------------------------------------- histories

_image = None


def text_image():
    global _image
    if _image is None:
        import term_image.image as I  # noqa: N812
        assert "tests" not in sys.modules
        _image = I
    return _image.TextImage


def reset_primary():
    U._cell_size_cache[:] = [0] * 4
    U._queries_enabled = True
    U._swap_win_size = False
    term_image._cell_ratio = 0.5
    term_image.AutoCellRatio.is_supported = None
    for f in (U.get_fg_bg_colors, U.get_terminal_name_version, text_image()._is_on_kitty):
        inv = getattr(f, "_invalidate_cache", None)
        if inv:
            inv()


def run_history(case):
    env, size = case["env"], list(case["t0"])
    reset_primary()
    term = Term(env, size)
    counters = {"cs": 0, "col": 0, "nv": 0, "ts": 0}
    real = case.get("real")
    saved_penv = {k: os.environ.get(k) for k in ("COLUMNS", "LINES")}
    master = slave = None
    if real is not None:
        assert env["tty"], "a real-terminal history needs an active terminal"
        master, slave = pty.openpty()
        term.real_fd = slave

    def set_window():
        """TIOCSWINSZ: the pty's window becomes the scripted terminal's size (cells and pixels)"""
        if real is not None:
            real_fcntl.ioctl(slave, real_termios.TIOCSWINSZ, struct.pack("HHHH", term.rows, term.cols, term.xpx, term.ypx))

    def set_penv(cols, lines):
        for k, v in (("COLUMNS", cols), ("LINES", lines)):
            if v is None:
                os.environ.pop(k, None)
            else:
                os.environ[k] = str(v)

    def reinstall():
        install(U, term, counters)
        if real is not None:
            # the active terminal is the pty; the library's OWN function produces the cache key
            U._tty_fd = slave
            U.get_terminal_size = REAL_GET_TERMINAL_SIZE

    try:
        return _run_history(case, env, term, counters, real, set_window, set_penv, reinstall)
    finally:
        set_penv(saved_penv["COLUMNS"], saved_penv["LINES"])
        if real is not None:
            U._tty_fd = -1
        for fd in (master, slave):
            if fd is not None:
                os.close(fd)


def _run_history(case, env, term, counters, real, set_window, set_penv, reinstall):
    reinstall()
    set_window()
    if real is not None:
        set_penv(real.get("COLUMNS"), real.get("LINES"))
    assert term_image.get_cell_size is U.get_cell_size  # the real one, bound at import

    def ts_body():
        counters["ts"] += 1
        value = (term.xpx, term.ypx)  # the body looks at the terminal at its start ...
        if term.resize_in_body is not None:  # ... the window is resized while it is still running ...
            term.cols, term.rows, term.xpx, term.ypx = term.resize_in_body
            term.resize_in_body = None
            term.resized_in_body += 1
            set_window()
        return value  # ... and it returns what it computed

    ts_probe = U.terminal_size_cached(ts_body)
    TextImage = text_image()
    rows = []
    for op in case["ops"]:
        k = op[0]
        obs, fr_cur, fr_en = [], [], []
        targs = (env, [term.cols, term.rows, term.xpx, term.ypx])
        swap, qen = U._swap_win_size, U._queries_enabled
        if k == "R":
            term.cols, term.rows, term.xpx, term.ypx = op[1:5]
            set_window()
        elif k == "ENV":
            assert real is not None, op
            set_penv(op[1], op[2])
        elif k == "ES":
            term_image.enable_win_size_swap()
        elif k == "DS":
            term_image.disable_win_size_swap()
        elif k == "EQ":
            term_image.enable_queries()
        elif k == "DQ":
            term_image.disable_queries()
        elif k == "SR":
            m = op[1]
            try:
                if m == "F":
                    term_image.set_cell_ratio(term_image.AutoCellRatio.FIXED)
                elif m == "D":
                    term_image.set_cell_ratio(term_image.AutoCellRatio.DYNAMIC)
                else:
                    n, d = m
                    term_image.set_cell_ratio(n / d if d != 1 else n)
                obs = [0]
            except term_image.exceptions.TermImageError:
                obs = [1]
            except ValueError:
                obs = [2]
        elif k == "CS":
            obs = enc_cs(U.get_cell_size())
        elif k == "CR":
            obs = enc_ratio(term_image.get_cell_ratio())
        elif k == "CO":
            obs = enc_cols(COL_CALLS[op[1]](U.get_fg_bg_colors))
        elif k == "NV":
            obs = enc_nv(U.get_terminal_name_version())
        elif k == "K":
            obs = [int(bool(TextImage._is_on_kitty()))]
        elif k == "TS":
            obs = list(ts_probe())
        elif k == "TSR":
            # the probe, with a resize landing while its body runs
            term.resize_in_body = [int(x) for x in op[1:5]]
            try:
                obs = list(ts_probe())
            finally:
                term.resize_in_body = None
        elif k in ABORT_OPS:
            # the getter with a fault armed inside query_terminal
            snap = dict(counters)
            term.fault, fired0 = op[-1], term.fired
            assert term.fault in ("kbd", "oserr", "termios"), op
            try:
                if k == "CSA":
                    obs = enc_cs(U.get_cell_size())
                elif k == "CRA":
                    obs = enc_ratio(term_image.get_cell_ratio())
                elif k == "COA":
                    obs = enc_cols(COL_CALLS[op[1]](U.get_fg_bg_colors))
                else:
                    obs = enc_nv(U.get_terminal_name_version())
                assert term.fired == fired0, "the fault fired but the call returned normally"
            except (KeyboardInterrupt, OSError, real_termios.error) as exc:
                if FAULT_MARK not in map(str, exc.args) or term.fired != fired0 + 1:
                    raise
                obs = [-1]
                counters.update(snap)  # counters count COMPLETED computations
            finally:
                term.fault = None
        else:
            raise AssertionError(op)
        if k in ("CS", "CR", "CO", "NV", "TS", "TSR", "K") or k in ABORT_OPS:
            kind = "NV" if k == "K" else "TS" if k == "TSR" else ABORT_OPS.get(k, k)
            key = op[1] if k in ("CO", "COA") else 0
            fr_cur = fresh(kind, targs, swap, qen, key)
            # (with queries enabled now this is the very same computation: not repeated)
            fr_en = list(fr_cur) if qen else fresh(kind, targs, swap, True, key)
            reinstall()  # os.environ was rewritten by the twin (same values)
        rows.append({"obs": obs, "fc": fr_cur, "fe": fr_en,
                     "n": [counters["cs"], counters["col"], counters["nv"], counters["ts"]]})
    final = {"t": [term.cols, term.rows, term.xpx, term.ypx], "swap": int(U._swap_win_size),
             "qen": int(U._queries_enabled)}
    return {"rows": rows, "final": final}


# ---------------------------------------------------------------------- thread race


def run_threads(case):
    """n threads released together on the first call of a memoised getter."""
    env = dict(case["env"])
    env["slow"] = 1
    reset_primary()
    term = Term(env, list(case["t0"]))
    counters = {"cs": 0, "col": 0, "nv": 0, "ts": 0, "probe": 0}
    install(U, term, counters)
    n = case["threads"]
    fn = case["fn"]
    TextImage = text_image()

    def probe_body(x):
        counters["probe"] += 1
        time.sleep(0.003)
        return x * 7 + counters["probe"]

    probe = U.cached(probe_body)
    rounds = []
    for rnd in range(case.get("rounds", 2)):
        if rnd:  # invalidate between rounds: the body may run once more, not more
            term_image.disable_queries()
            term_image.enable_queries()
            probe._invalidate_cache()
        barrier = threading.Barrier(n)
        out = [None] * n

        def work(i):
            barrier.wait()
            if fn == "nv":
                out[i] = enc_nv(U.get_terminal_name_version())
            elif fn == "co":
                out[i] = enc_cols(U.get_fg_bg_colors(hex=True))
            elif fn == "k":
                out[i] = [int(bool(TextImage._is_on_kitty()))]
            elif fn == "cs":
                out[i] = enc_cs(U.get_cell_size())
            else:
                out[i] = [probe(5)]

        ths = [threading.Thread(target=work, args=(i,)) for i in range(n)]
        for t in ths:
            t.start()
        for t in ths:
            t.join(20)
        assert not any(t.is_alive() for t in ths)
        cnt = {"nv": counters["nv"], "co": counters["col"], "k": counters["nv"], "cs": counters["cs"],
               "probe": counters["probe"]}[fn]
        rounds.append({"count": cnt, "same": int(all(o == out[0] for o in out)), "val": out[0]})
    return {"rounds": rounds}


# -------------------------------------------------------------------- probe histories

PROBE_OBJS = [0, "", (None, None), (1, 2), False, (), 0.0, "unknown", [None]]
PROBE_ARGS = [((), {}), ((0,), {}), ((1,), {}), (("x",), {}), ((1,), {"hex": True}), ((None,), {}),
              ((), {"name": None}), ((1, 2), {}),
              # distinct argument tuples whose HASHES are equal in CPython (hash(-1) == hash(-2) == -2)
              ((-1,), {}), ((-2,), {}), ((3,), {"scale": -1}), ((3,), {"scale": -2})]


def run_probe(case):
    pr = case["probe"]
    res = pr["res"]
    runs = []

    def body(*a, **kw):
        k = PROBE_ARGS.index((a, kw))
        runs.append(k)
        c = res[k]
        return None if c < 0 else PROBE_OBJS[c]

    probe = U.cached(body)
    rows = []
    for cmd in pr["cmds"]:
        n0 = len(runs)
        if cmd[0] == "I":
            probe._invalidate_cache()
            rows.append({"runs": len(runs) - n0, "val": "-", "ran": runs[n0:]})
            continue
        a, kw = PROBE_ARGS[cmd[1]]
        v = probe(*a, **kw)
        if v is None:
            code = -1
        else:
            code = next((i for i, o in enumerate(PROBE_OBJS) if o is v), 99)
        rows.append({"runs": len(runs) - n0, "val": code, "ran": runs[n0:]})
    return {"rows": rows}


# ---------------------------------- terminal_size_cached with several argument tuples


class _Pane:
    """instances handed to the decorated probe the way a decorated METHOD is handed `self`"""


_PANE_A, _PANE_B = _Pane(), _Pane()
TS_ARGS = [((), {}), ((_PANE_A,), {}), ((_PANE_B,), {}), ((2,), {}), ((), {"n": 2}), ((1, 2), {"n": None}),
           (([1, 2],), {})]   # (the last one is not hashable: the decorator takes ANY arguments)


def run_tsargs(case):
    """{"tsargs": {"t0": [c, r], "offs": [...], "real": 0|1, "cmds": [["C", k] | ["CR", k, c, r] | ["R", c, r] | ["I"]]}}:
    a probe decorated with the REAL `utils.terminal_size_cached`, called with the argument tuples TS_ARGS[k].
    Its body asks `utils.get_terminal_size()` and returns columns * 1000 + lines + 1000000 * offs[k] (all offs 0:
    a function of the terminal size alone); with "CR" the terminal is resized while the body runs (if it runs).
    real=1: the active terminal is a pty resized with TIOCSWINSZ and `utils.get_terminal_size` is the library's
    own; otherwise it is a scripted size.  Per command: the value the caller got (None: the call raised), the
    argument tuples the body ran with, and `probe.__wrapped__` called with the call's own arguments just before."""
    ta = case["tsargs"]
    cur = [int(x) for x in ta["t0"]]
    offs = ta["offs"]
    real = bool(ta.get("real"))
    saved_penv = {k: os.environ.pop(k, None) for k in ("COLUMNS", "LINES")}
    saved = (U._tty_fd, U.get_terminal_size)
    master = slave = None
    st = {"log": True, "land": None}
    runs = []

    def set_window():
        if real:
            real_fcntl.ioctl(slave, real_termios.TIOCSWINSZ, struct.pack("HHHH", cur[1], cur[0], 0, 0))

    def body(*a, **kw):
        k = next(i for i, (a2, kw2) in enumerate(TS_ARGS) if len(a) == len(a2) and kw == kw2
                 and all(x is y or (type(x) is type(y) and not isinstance(x, _Pane) and x == y) for x, y in zip(a, a2)))
        c, r = U.get_terminal_size()
        value = c * 1000 + r + 1000000 * offs[k]
        if st["log"]:
            runs.append(k)
            if st["land"] is not None:   # the window is resized while the body is still running
                cur[:] = st["land"]
                st["land"] = None
                set_window()
        return value

    try:
        if real:
            master, slave = pty.openpty()
            U._tty_fd = slave
            U.get_terminal_size = REAL_GET_TERMINAL_SIZE
        else:
            U.get_terminal_size = lambda: os.terminal_size((cur[0], cur[1]))
        set_window()
        probe = U.terminal_size_cached(body)
        assert probe.__wrapped__ is body
        rows = []
        for cmd in ta["cmds"]:
            n0 = len(runs)
            if cmd[0] == "R":
                cur[:] = [int(cmd[1]), int(cmd[2])]
                set_window()
                rows.append({"val": "-", "ran": [], "fresh": "-"})
            elif cmd[0] == "I":
                probe._invalidate_terminal_size_cache()
                rows.append({"val": "-", "ran": runs[n0:], "fresh": "-"})
            else:
                a, kw = TS_ARGS[cmd[1]]
                st["log"] = False
                fr = probe.__wrapped__(*a, **kw)   # a fresh computation with the call's own arguments, current size
                st["log"] = True
                st["land"] = [int(cmd[2]), int(cmd[3])] if cmd[0] == "CR" else None
                try:
                    v = probe(*a, **kw)
                    v = int(v) if type(v) is int else 10 ** 12
                except Exception as exc:  # noqa: BLE001
                    v = None
                    err = "%s: %s" % (type(exc).__name__, exc)
                finally:
                    st["land"] = None
                rows.append({"val": v, "ran": runs[n0:], "fresh": int(fr)})
                if v is None:
                    rows[-1]["exc"] = err
        return {"rows": rows}
    finally:
        U._tty_fd, U.get_terminal_size = saved
        for k, v in saved_penv.items():
            if v is not None:
                os.environ[k] = v
        for fd in (master, slave):
            if fd is not None:
                os.close(fd)


# --------------------------------------------------------------------- swap schedules


class ScheduledRLock:
    """A re-entrant lock standing for `utils._cell_size_lock` that reports the lock events
    of ONE thread (`owner`): "acq" = about to acquire from outside, "rel" = just released
    completely.  At the chosen event a one-shot hook runs in that thread."""

    def __init__(self):
        self._lock = threading.RLock()
        self._depth = {}
        self.owner = None
        self.point = None
        self.hook = None
        self.count = {"acq": 0, "rel": 0}
        self.attempt = threading.Event()  # the owner thread has reached an acquire

    def _event(self, kind):
        idx = self.count[kind]
        self.count[kind] += 1
        if self.hook and self.point == [kind, idx]:
            hook, self.hook = self.hook, None
            hook()

    def acquire(self, blocking=True, timeout=-1):
        me = threading.get_ident()
        if me == self.owner and not self._depth.get(me):
            self._event("acq")
            self.attempt.set()
        got = self._lock.acquire(blocking, timeout)
        if got:
            self._depth[me] = self._depth.get(me, 0) + 1
        return got

    def release(self):
        me = threading.get_ident()
        self._depth[me] -= 1
        outer = self._depth[me] == 0
        self._lock.release()
        if outer and me == self.owner:
            self._event("rel")

    def __enter__(self):
        self.acquire()
        return self

    def __exit__(self, *exc):
        self.release()


def run_swap(case):
    sw = case["swap"]
    env, size = sw["env"], list(sw["t0"])
    reset_primary()
    term = Term(env, size)
    counters = {"cs": 0, "col": 0, "nv": 0}
    install(U, term, counters)
    targs = (env, size)
    ref = [fresh("CS", targs, False, True), fresh("CS", targs, True, True)]
    install(U, term, counters)

    def code(v):
        v = enc_cs(v) if not isinstance(v, list) else v
        return 0 if v == [0] else 1 if v == ref[0] else 2 if v == ref[1] else 3

    U._swap_win_size = bool(sw["f0"])
    if sw["warm"]:
        U.get_cell_size()
    lock = ScheduledRLock()
    old_lock, U._cell_size_lock = U._cell_size_lock, lock
    try:
        n0 = counters["cs"]
        bret, errs = [], []

        def prog_a():
            try:
                for b in sw["prog"]:
                    (term_image.enable_win_size_swap if b else term_image.disable_win_size_swap)()
            except BaseException as exc:  # noqa: B902
                errs.append(repr(exc))

        def get_b():
            try:
                bret.append(enc_cs(U.get_cell_size()))
            except BaseException as exc:  # noqa: B902
                errs.append(repr(exc))

        def in_thread(f):
            t = threading.Thread(target=f)
            t.start()
            t.join(20)
            assert not t.is_alive(), "scheduled thread is stuck"

        point = sw["point"]
        fired = [0]
        if point[0] == "ioctl":
            ta = threading.Thread(target=lambda: (setattr(lock, "owner", threading.get_ident()), prog_a()))

            def hook():
                fired[0] = 1
                ta.start()
                t_end = time.time() + 20
                while not lock.attempt.is_set() and ta.is_alive():  # until thread 0 blocks on the lock or finishes
                    assert time.time() < t_end
                    time.sleep(0.0002)

            term.ioctl_hook = hook
            get_b()
            term.ioctl_hook = None
            if fired[0]:
                ta.join(20)
                assert not ta.is_alive()
            else:
                in_thread(prog_a)
        else:
            lock.owner = threading.get_ident()
            if point[0] == "before":
                in_thread(get_b)
            elif point[0] in ("acq", "rel"):
                lock.point = list(point)

                def hook():
                    fired[0] = 1
                    in_thread(get_b)

                lock.hook = hook
            prog_a()
            lock.hook = None
            if not bret and not errs:
                in_thread(get_b)
        ncomp = counters["cs"] - n0
        flag = int(bool(U._swap_win_size))
        cache = list(U._cell_size_cache)
        ccode = 0 if cache == [0] * 4 else code([1] + cache[2:]) if cache[:2] == size[:2] else 3
    finally:
        U._cell_size_lock = old_lock
    after = enc_cs(U.get_cell_size())
    fr = fresh("CS", targs, flag, True)
    install(U, term, counters)
    return {"flag": flag, "cache": ccode, "bret": code(bret[0]) if bret else 3, "ncomp": ncomp, "after": after,
            "fresh": fr, "fired": fired[0], "distinct": int(ref[0] != ref[1] and [0] not in ref), "errors": errs,
            "raw_cache": cache, "ref": ref}


# --------------------------------------------------------------- invalidation schedules


class Coop:
    """Cooperative scheduler: a registered thread runs only between `pick(i)` and its next
    `point()`; unregistered threads (the main thread) pass through every point.  Hand-over
    by semaphores: `go[i]` lets thread i run, `parked` tells the controller it stopped."""

    WAIT = 8.0

    def __init__(self, n):
        self.who = {}
        self.at = {i: "new" for i in range(n)}
        self.cmd = {i: None for i in range(n)}
        self.skip = {i: False for i in range(n)}
        self.go = {i: threading.Semaphore(0) for i in range(n)}
        self.parked = threading.Semaphore(0)
        self.free = False  # free run: every point passes, locks block for real
        self.trace = []

    def me(self):
        return self.who.get(threading.get_ident())

    def register(self, i):
        self.who[threading.get_ident()] = i

    def point(self, name):
        i = self.me()
        if i is None or self.free:
            return
        self.at[i] = name
        self.parked.release()
        self.go[i].acquire()
        self.at[i] = "running"

    def finish(self, i):
        self.at[i] = "done"
        self.parked.release()

    def wait_parked(self, i):
        """until the thread that was let run has stopped again -> where thread i is; None = nobody stopped in time"""
        if not self.parked.acquire(timeout=self.WAIT):
            return None
        return self.at[i]

    def pick(self, i):
        if self.at[i] == "done":
            self.trace.append([i, "done", "done"])
            return "done"
        was = self.at[i]
        self.go[i].release()
        now = self.wait_parked(i)
        self.trace.append([i, was, now])
        return now

    def free_run(self):
        self.free = True
        for g in self.go.values():
            g.release()


class CoopRLock:
    """Stands for the re-entrant lock of the memo under test.  A controlled thread parks
    when it is about to acquire from outside ("acq"; for a call / a bare invalidation the
    parking point at the start of the command stands for it), when it has acquired
    ("held"), when it is about to release completely ("rel") and when it has released
    ("out").  It never blocks: a pick that finds the lock taken leaves the thread parked
    at "acq"."""

    def __init__(self, coop):
        self._lock = threading.RLock()
        self._depth = {}
        self.coop = coop

    def acquire(self, blocking=True, timeout=-1):
        me = threading.get_ident()
        i = self.coop.me()
        if i is None or self.coop.free or self._depth.get(me):
            got = self._lock.acquire(blocking, timeout)
            if got:
                self._depth[me] = self._depth.get(me, 0) + 1
            return got
        if self.coop.skip[i]:
            self.coop.skip[i] = False
        else:
            self.coop.point("acq")
        while True:
            if self.coop.free:
                self._lock.acquire()
                break
            if self._lock.acquire(False):
                break
            self.coop.point("acq")
        self._depth[me] = 1
        self.coop.point("held")
        return True

    def release(self):
        me = threading.get_ident()
        outer = self.coop.me() is not None and self._depth.get(me) == 1
        if outer:
            self.coop.point("rel")
        self._depth[me] -= 1
        self._lock.release()
        if outer:
            self.coop.point("out")

    def __enter__(self):
        self.acquire()
        return self

    def __exit__(self, *exc):
        self.release()


class CoopDict(dict):
    """The memo's table: a controlled thread executing a CALL parks before it stores."""

    coop = None

    def _park(self):
        i = self.coop.me()
        if i is not None and self.coop.cmd[i] == "C":
            self.coop.point("store")

    def setdefault(self, key, default=None):
        self._park()
        return dict.setdefault(self, key, default)

    def __setitem__(self, key, value):
        self._park()
        dict.__setitem__(self, key, value)


class CoopList(list):
    """`utils._cell_size_cache`: a controlled thread executing a CALL parks before it stores."""

    coop = None

    def __setitem__(self, key, value):
        i = self.coop.me()
        if i is not None and self.coop.cmd[i] == "C":
            self.coop.point("store")
        list.__setitem__(self, key, value)


_RLOCK_T = type(threading.RLock())


def instrument_cached(f, coop):
    """Replace the lock and the table in the closure cells of a `utils.cached` wrapper and of
    its `_invalidate_cache` (they share the cells).  -> [(cell, original content)]"""
    restore, new_for = [], {}
    for fn in (f, getattr(f, "_invalidate_cache", None)):
        for cell in getattr(fn, "__closure__", None) or ():
            try:
                v = cell.cell_contents
            except ValueError:
                continue
            if id(v) in new_for:
                new = new_for[id(v)][1]
            elif isinstance(v, _RLOCK_T):
                new = CoopRLock(coop)
            elif type(v) is dict:
                new = CoopDict(v)
                new.coop = coop
            else:
                continue
            new_for[id(v)] = (v, new)
            restore.append((cell, v))
            cell.cell_contents = new
    return restore


_fresh_memo = {}


def fresh_memo(kind, env, size, qen, key):
    k = json.dumps([kind, env, size, qen, key], sort_keys=True)
    if k not in _fresh_memo:
        _fresh_memo[k] = fresh(kind, (env, list(size)), False, qen, key)
    return _fresh_memo[k]


INVAL_KIND = {"nv": "NV", "co": "CO", "cs": "CS"}
INVAL_REQ = {"nv": ctl.XTVERSION_b, "co": ctl.TEXT_FG_QUERY_b, "cs": ctl.CELL_SIZE_PX_b}


def run_inval(case):
    iv = case["inval"]
    fn, env, size = iv["fn"], iv["env"], list(iv["t0"])
    progs, sched = iv["progs"], iv["sched"]
    keys = sorted({c[1] for p in progs for c in p if c[0] == "C"} | {k for k, _ in iv["warm"]})
    if fn == "probe":
        fdis = {k: [1, k] for k in keys}
        fen = {k: [2, k] for k in keys}
    else:
        fdis = {k: fresh_memo(INVAL_KIND[fn], env, size, False, k) for k in keys}
        fen = {k: fresh_memo(INVAL_KIND[fn], env, size, True, k) for k in keys}
    reset_primary()
    term = Term(env, size)
    counters = {"cs": 0, "col": 0, "nv": 0}
    install(U, term, counters)
    coop = Coop(len(progs))
    log, errs = [], []
    state = {"serial": 0, "started": False, "calls": 0, "invals": 0}

    def body_started():
        """a body reads the condition NOW: its serial number (0 = before the threads started)"""
        if state["started"]:
            state["serial"] += 1
            log.append(["B", state["serial"]])
            return state["serial"]
        return 0

    # -- the function under test, its invalidation, value coding
    restore = []
    if fn == "probe":
        def probe_body(k):
            coop.point("body")
            n = body_started()
            c = bool(U._queries_enabled)
            coop.point("reply")
            return ("P", int(c), n, k)

        probe = U.cached(probe_body)
        restore += instrument_cached(probe, coop)
        call = probe
        invalidate = probe._invalidate_cache

        def enable():
            eff = not U._queries_enabled
            term_image.enable_queries()
            if eff:
                probe._invalidate_cache()

        def enc(v):
            return [2 if v[1] else 1, v[3]]

        def serial_of(v):
            return v[2]
    else:
        base = U.query_terminal

        def parked_query_terminal(request, more, timeout=None):
            if not request.startswith(INVAL_REQ[fn]):
                return base(request, more, timeout)
            coop.point("body")
            body_started()
            r = base(request, more, timeout)
            coop.point("reply")
            return r

        parked_query_terminal._c15_orig = base._c15_orig
        U.query_terminal = parked_query_terminal
        enable = term_image.enable_queries

        def serial_of(v):
            return -1

        if fn == "nv":
            f = U.get_terminal_name_version
            restore += instrument_cached(f, coop)
            call, invalidate, enc = (lambda k: f()), f._invalidate_cache, enc_nv
        elif fn == "co":
            f = U.get_fg_bg_colors
            restore += instrument_cached(f, coop)
            call, invalidate, enc = (lambda k: COL_CALLS[k](f)), f._invalidate_cache, enc_cols
        else:
            old_lock, old_cache = U._cell_size_lock, U._cell_size_cache
            U._cell_size_lock = CoopRLock(coop)
            U._cell_size_cache = CoopList(old_cache)
            U._cell_size_cache.coop = coop
            call, invalidate, enc = (lambda k: U.get_cell_size()), None, enc_cs

    def coded(k, v):
        e = enc(v)
        return [2 if e == fen[k] else 1 if e == fdis[k] else 3, serial_of(v)]

    rets = [[] for _ in progs]

    def do_call(k, out):
        state["calls"] += 1
        j = state["calls"]
        log.append(["S", j])
        v = call(k)
        log.append(["R", j, serial_of(v)])
        out.append(coded(k, v))
        return v

    def worker(i):
        coop.register(i)
        try:
            for cmd in progs[i]:
                coop.cmd[i] = cmd[0]
                coop.skip[i] = cmd[0] in ("C", "I")
                coop.point("idle")
                if cmd[0] == "C":
                    do_call(cmd[1], rets[i])
                elif cmd[0] == "I":
                    state["invals"] += 1
                    x = state["invals"]
                    log.append(["XB", x])
                    invalidate()
                    log.append(["XE", x])
                elif cmd[0] == "E":
                    eff = not U._queries_enabled  # (read and written by enable_queries() before this thread parks again)
                    if eff:
                        state["invals"] += 1
                        x = state["invals"]
                        log.append(["XB", x])
                    enable()
                    if eff:
                        log.append(["XE", x])
                elif cmd[0] == "D":
                    term_image.disable_queries()
                else:
                    raise AssertionError(cmd)
        except BaseException as exc:  # noqa: B902
            errs.append("thread %d: %r" % (i, exc))
        finally:
            coop.cmd[i] = None
            coop.finish(i)

    drained = stuck = 0
    try:
        # entries that are there already: made with the flag at the given value
        for k, c in iv["warm"]:
            U._queries_enabled = bool(c) or bool(iv["f0"])
            call(k)
        U._queries_enabled = bool(iv["f0"])
        state["started"] = True
        ths = [threading.Thread(target=worker, args=(i,), daemon=True) for i in range(len(progs))]
        for t in ths:
            t.start()
        for i in range(len(progs)):
            if coop.wait_parked(i) is None:
                stuck += 1
        for t in sched:
            if stuck or all(coop.at[i] == "done" for i in range(len(progs))):
                break
            if coop.pick(t) is None:
                stuck += 1
        drained = sum(coop.at[i] != "done" for i in range(len(progs)))
        coop.free_run()
        for t in ths:
            t.join(20)
        if any(t.is_alive() for t in ths):
            errs.append("threads still alive after the free run")
        nbody = state["serial"]
        flag = int(bool(U._queries_enabled))
        # calls made AFTER all threads have finished
        after, cache = [], []
        for k in keys:
            n0 = state["serial"]
            out = []
            v = do_call(k, out)
            after.append(enc(v))
            cache.append([0, -1] if state["serial"] != n0 else out[0])
    finally:
        coop.free_run()
        for cell, v in restore:
            cell.cell_contents = v
        if fn == "cs":
            U._cell_size_lock, U._cell_size_cache = old_lock, old_cache
        install(U, term, counters)
    return {"flag": flag, "rets": rets, "nbody": nbody, "keys": keys, "cache": cache, "after": after,
            "fdis": [fdis[k] for k in keys], "fen": [fen[k] for k in keys], "log": log,
            "drained": drained, "stuck": stuck, "errors": errs, "trace": coop.trace,
            "distinct": int(all(fdis[k] != fen[k] for k in keys))}


# ---------------------------------------------------------------- hand-over schedules


class _HandLockProtocol:
    """A lock object of the hand-over schedules.  A controlled thread parks when it is about to
    acquire from outside ("acq"), when it has acquired ("held") and when it is about to release
    completely ("rel").  It never blocks under the scheduler: a pick that finds the lock taken
    leaves the thread parked at "acq" — on THIS object, whatever the module global names by then."""

    def _setup(self, coop, name):
        self.coop, self.name = coop, name
        self._depth = {}

    def acquire(self, blocking=True, timeout=-1):
        me = threading.get_ident()
        i = self.coop.me()
        if i is None or self.coop.free or self._depth.get(me):
            got = self._raw_acquire(blocking, timeout)
            if got:
                self._depth[me] = self._depth.get(me, 0) + 1
            return got
        self.coop.point("acq")
        while True:
            if self.coop.free:
                self._raw_acquire(True, -1)
                break
            if self._raw_acquire(False, -1):
                break
            self.coop.point("acq")
        self._depth[me] = 1
        self.coop.point("held")
        return True

    def release(self):
        me = threading.get_ident()
        if self.coop.me() is not None and self._depth.get(me) == 1:
            self.coop.point("rel")
        self._depth[me] -= 1
        self._raw_release()

    def __enter__(self):
        self.acquire()
        return self

    def __exit__(self, *exc):
        self.release()


class HandLock(_HandLockProtocol, _RLOCK_T):
    """the import-time lock: a REAL `threading.RLock` (a subclass instance of the type
    `utils._rlock_type` tests for)"""

    def __new__(cls, coop, name):
        return _RLOCK_T.__new__(cls)

    def __init__(self, coop, name):
        self._setup(coop, name)

    def _raw_acquire(self, blocking, timeout):
        return _RLOCK_T.acquire(self, blocking, timeout)

    def _raw_release(self):
        _RLOCK_T.release(self)


class SharedLock(_HandLockProtocol):
    """the shared array's lock: re-entrant, and — like `multiprocessing.RLock` — NOT a `threading.RLock`"""

    def __init__(self, coop, name):
        self._setup(coop, name)
        self._lock = threading.RLock()

    def _raw_acquire(self, blocking, timeout):
        return self._lock.acquire(blocking, timeout)

    def _raw_release(self):
        self._lock.release()


class HandList(list):
    """`utils._cell_size_cache`: a controlled thread executing get_cell_size() parks before it stores."""

    coop = None

    def __setitem__(self, key, value):
        i = self.coop.me()
        if i is not None and self.coop.cmd[i] == "G":
            self.coop.point("store")
        list.__setitem__(self, key, value)


class SharedStub(HandList):
    """Stands for the `multiprocessing.Array` of the hand-over (nothing is forked here): same
    indexing / slicing protocol, and a lock of its own behind `get_lock()`."""

    lock = None

    def get_lock(self):
        self.coop.point("getlock")  # the cache global is rebound; the lock global not yet
        return self.lock


_fresh_memo2 = {}


def fresh_cs2(env, size, swap, qen):
    k = json.dumps([env, size, swap, qen], sort_keys=True)
    if k not in _fresh_memo2:
        _fresh_memo2[k] = fresh("CS", (env, list(size)), swap, qen)
    return _fresh_memo2[k]


def run_hand(case):
    hd = case["hand"]
    env, size, kind = hd["env"], list(hd["t0"]), hd.get("kind", "swap")
    progs, sched = hd["progs"], hd["sched"]
    if kind == "swap":
        ref = [fresh_cs2(env, size, False, True), fresh_cs2(env, size, True, True)]
    else:  # the flag is `_queries_enabled`
        ref = [fresh_cs2(env, size, False, False), fresh_cs2(env, size, False, True)]
        assert hd["f0"] == 0 and all(c[0] != "T" or c[1] for p in progs for c in p), "queries: enable_queries() only"
    reset_primary()
    term = Term(env, size)
    counters = {"cs": 0, "col": 0, "nv": 0}
    install(U, term, counters)

    def code(v):
        v = enc_cs(v) if not isinstance(v, list) else v
        return 1 if v == ref[0] else 2 if v == ref[1] else 0 if v == [0] else 3

    def set_flag(b):
        if kind == "swap":
            U._swap_win_size = bool(b)
        else:
            U._queries_enabled = bool(b)

    def get_flag():
        return int(bool(U._swap_win_size if kind == "swap" else U._queries_enabled))

    coop = Coop(len(progs))
    errs = []
    saved = {k: getattr(U, k) for k in ("_cell_size_lock", "_cell_size_cache", "_tty_lock", "Array", "mp_RLock")}
    saved_wrapped = getattr(U._process_start_wrapper, "__wrapped__", None)
    old_lock = HandLock(coop, "old")
    old_cache = HandList([0] * 4)
    old_cache.coop = coop
    shared = []

    def array_stub(typecode, init):
        coop.point("copy")  # about to copy the cache entry into the shared array
        a = SharedStub(list(init))
        a.coop, a.lock = coop, SharedLock(coop, "new")
        shared.append(a)
        coop.point("copied")  # the array exists; the rebinding of the cache global is ahead
        return a

    started = []
    rets = [[] for _ in progs]

    def worker(i):
        coop.register(i)
        try:
            for cmd in progs[i]:
                coop.cmd[i] = cmd[0]
                coop.point("idle")
                if cmd[0] == "T":
                    if kind == "swap":
                        (term_image.enable_win_size_swap if cmd[1] else term_image.disable_win_size_swap)()
                    else:
                        term_image.enable_queries()
                elif cmd[0] == "G":
                    rets[i].append(code(U.get_cell_size()))
                elif cmd[0] == "S":
                    U._process_start_wrapper(types.SimpleNamespace())
                else:
                    raise AssertionError(cmd)
        except BaseException as exc:  # noqa: B902
            errs.append("thread %d: %r" % (i, exc))
        finally:
            coop.cmd[i] = None
            coop.finish(i)

    drained = stuck = 0
    try:
        U._cell_size_lock, U._cell_size_cache = old_lock, old_cache
        U.Array = array_stub
        U.mp_RLock = threading.RLock  # (the tty lock's hand-over: no semaphore is created for a start that does not fork)
        U._process_start_wrapper.__wrapped__ = lambda self, *a, **kw: started.append(self)
        set_flag(hd["f0"])
        if hd["warm"]:
            U.get_cell_size()
        n0 = counters["cs"]
        term.ioctl_park = lambda: coop.point("read")  # get_cell_size computes; the flag is not read yet
        ths = [threading.Thread(target=worker, args=(i,), daemon=True) for i in range(len(progs))]
        for t in ths:
            t.start()
        for i in range(len(progs)):
            if coop.wait_parked(i) is None:
                stuck += 1
        for t in sched:
            if stuck or all(coop.at[i] == "done" for i in range(len(progs))):
                break
            if coop.pick(t) is None:
                stuck += 1
        drained = sum(coop.at[i] != "done" for i in range(len(progs)))
        coop.free_run()
        for t in ths:
            t.join(20)
        if any(t.is_alive() for t in ths):
            errs.append("threads still alive after the free run")
        ncomp = counters["cs"] - n0
        flag = get_flag()
        cache = list(U._cell_size_cache)
        ccode = 0 if cache == [0] * 4 else 3 if cache[:2] != size[:2] else code([0] if 0 in cache[2:] else [1] + cache[2:])
        is_shared = int(isinstance(U._cell_size_cache, SharedStub))
        lock_shared = int(bool(shared) and U._cell_size_lock is shared[0].lock)
        # a call made AFTER all threads have finished
        after = enc_cs(U.get_cell_size())
    finally:
        coop.free_run()
        for k, v in saved.items():
            setattr(U, k, v)
        if saved_wrapped is None:
            U._process_start_wrapper.__dict__.pop("__wrapped__", None)
        else:
            U._process_start_wrapper.__wrapped__ = saved_wrapped
        term.ioctl_park = None
    fr = fresh_cs2(env, size, bool(flag), True) if kind == "swap" else fresh_cs2(env, size, False, bool(flag))
    install(U, term, counters)
    return {"flag": flag, "cache": ccode, "shared": is_shared, "lockshared": lock_shared, "rets": rets, "ncomp": ncomp,
            "after": after, "fresh": fr, "drained": drained, "stuck": stuck, "errors": errs, "trace": coop.trace,
            "distinct": int(ref[0] != ref[1] and ref[1] != [0] and (kind != "swap" or ref[0] != [0])), "raw_cache": cache, "ref": ref,
            "starts": len(started), "arrays": len(shared)}


# ------------------------------------------------------------- new-interpreter fresh


def run_fresh(case):
    """Everything computed in THIS interpreter (started for this one request) with the
    primary package, untouched caches."""
    f = case["fresh"]
    term = Term(f["env"], list(f["t"]))
    install(U, term, {"cs": 0, "col": 0, "nv": 0})
    U._swap_win_size = bool(f["swap"])
    U._queries_enabled = bool(f["qen"])
    res = {"CS": enc_cs(U.get_cell_size())}
    term_image._cell_ratio = None
    res["CR"] = enc_ratio(term_image.get_cell_ratio())
    res["NV"] = enc_nv(U.get_terminal_name_version())
    res["CO"] = [enc_cols(COL_CALLS[k](U.get_fg_bg_colors)) for k in (0, 1, 2)]
    res["K"] = [int(bool(text_image()._is_on_kitty()))]
    return res


def run_case(case):
    if "fresh" in case:
        return run_fresh(case)
    if "probe" in case:
        return run_probe(case)
    if "tsargs" in case:
        return run_tsargs(case)
    if "swap" in case:
        return run_swap(case)
    if "inval" in case:
        return run_inval(case)
    if "hand" in case:
        return run_hand(case)
    if "threads" in case:
        return run_threads(case)
    return run_history(case)


if __name__ == "__main__":
    cases = json.loads(sys.stdin.read())
    sys.stdout.write(json.dumps([run_case(c) for c in cases]))
    sys.stdout.flush()
