"""C07 implementation driver: fault enumeration of draw() on a real pty.

stdin : JSON list of cases
  {"scn": {"api": "old" | "new",
           "style": "block" | "kitty" | "iterm2"          (old API)  | "text" (new API, instrumented renderable),
           "frames": int, "animate": bool, "seek": int,
           "size": "dynamic" | "fixed",                     (old API: image.size setting)
           "noise": bool, "px": [w, h], "width": int,       (old API: image content / columns)
           "style_args": {...}, "term": str, "kitty_version": [..],
           "hide_cursor": bool, "echo_input": bool,         (new API)
           "pad": [left, top, right, bottom], "size_wh": [w, h], "handler": bool, "loops": int},
   "fault": null | {"k": int, "kind": "KI" | "Exc", "j": int | null, "after": bool},
   "async": absent | {"k": int | null, "kind": "KI" | "Exc", "record": bool},      (round 4)
   "srcfault": absent | "removed" | "garbage" | "directory"}                         (round 4)
     k: index among the FAULTABLE calls (stream write -- one per write() call, including the
        empty strings print() writes for sep/end --, stream flush, sleep, frame render), in
        call order, clean-up included;  j: for a write, number of characters delivered before
        it raises (0 = raises before, len = after the whole string);  after: for the others.
  async (harness/impl/asyncfault.py): an ASYNCHRONOUS exception (KeyboardInterrupt, or AsyncError -- an
        OSError -- for "Exc") is raised at the k-th 'line' event executed inside term_image code during
        draw() (k = null: counting run; "record": also return, per line event, the chain of term_image
        call sites from draw() down to depth 3, for the stratified choice of k).  The tracked calls are
        still recorded (no synchronous fault is injected: "fault" must be null).  The driver decides FROM
        THE SOURCE TEXT (ast; see `classify`) whether the position lies inside clean-up code.
  scn.source = "file": the old-API image is created with from_file() from a file written by the driver;
  srcfault: what happens to that file between the construction of the image and draw().
stdout: JSON list of
  {"calls": [[class, text-or-null, in_handler], ...]    every faultable call (fault-free shape of THIS run)
   "events": [[class, arg, f], ...]    trace for the skeleton judgement (one event per print(); writes
                                        inside the interrupt handler are part of the handler event)
   "segs": [[text, cut], ...]          what the stream delivered, in order; cut = 1 for the interrupted write
   "master_ok": bool                   the bytes read from the pty master are exactly the segments (LF -> CR LF)
   "out": 0 | 1 | 2, "exc": repr, "termios_same": bool, "finalized": bool | null,
   "size_same": bool, "seek_same": bool, "started": bool (a frame render call was reached before the fault),
   "hit": [class, text, j] | null, "abort": str | null,
   async runs: "acount": line events counted, "afired": bool, "astack": [[file, line, function], ...] (term_image
   frames, draw() first), "cleanup": str | null (why the position is clean-up code), "strict": bool (draw()'s own
   frame was inside the body of a try ... finally), "groups"/"group_keys" (record), "final_released": bool (render
   data finalized once the exception and the driver's references are gone: RenderData.__del__)}
"""
import implenv  # noqa: F401  (sys.path, stubs)
from implenv import tests

import ast
import atexit
import builtins
import gc
import io
import json
import os
import pty
import random
import select as _select
import shutil
import tempfile
import signal
import sys
import termios
import time

from PIL import Image

from asyncfault import AsyncFault, in_package

import term_image.utils as U
from term_image import _ctlseqs as ctlseqs
from term_image.geometry import Size
from term_image.image import BlockImage, ITerm2Image, KittyImage, Size as ImgSize
from term_image.image import common as COMMON
from term_image.image import iterm2 as ITERM2
from term_image.image import kitty as KITTY
from term_image.padding import ExactPadding
from term_image.render import RenderIterator
from term_image.renderable import Frame, FrameCount, Renderable, RenderData
from term_image.renderable import _renderable as RMOD

R_TCGETATTR, R_TCSETATTR = termios.tcgetattr, termios.tcsetattr
R_READ, R_WRITE, R_SELECT = os.read, os.write, _select.select
R_SLEEP_NEW, R_SLEEP = RMOD.sleep, time.sleep
R_NEXT = RenderIterator.__next__
R_FINALIZE = RenderData.finalize
R_ANIMATE = COMMON.ImageIterator._animate
R_PRINT = builtins.print
REAL_STDOUT = sys.stdout

signal.signal(signal.SIGINT, signal.default_int_handler)

MASTER, SLAVE = pty.openpty()
os.set_blocking(MASTER, False)
U._tty_fd = SLAVE
BASE = R_TCGETATTR(SLAVE)

C_GET, C_SET = 0, 1
C_OUT, C_FLUSH, C_RENDER, C_SLEEP, C_HANDLE, C_FINALIZE = 8, 9, 10, 11, 12, 13


class Abort(BaseException):
    """The harness gives up on this run (not a property of the code)."""


def norm(a):
    return [int(x) for x in a[:6]] + [[x if isinstance(x, int) else x[0] for x in a[6]]]


# ------------------------------------------------------------------ asynchronous faults (round 4)
#
# "interrupted ... at any point before its own clean-up starts": WHERE an asynchronous exception
# landed is decided from the source text, not by trial.  At the moment of the fault the chain of
# term_image frames from draw() down to the interrupted line is recorded; a position is CLEAN-UP
# CODE (outside the property) iff for SOME frame of that chain
#   * the frame's current line lies lexically inside an `except ...:` clause (header included: the
#     exception is already being handled) or inside the body of a `finally:` of the frame's own
#     function (nested function definitions are separate functions) -- exactly the blocks that
#     coq/lib/Eff.v `protect` marks in the translated skeletons; or
#   * the frame's function is one of CLEANUP_FUNCS: the library's clean-up entry points, which
#     belong to a sub-operation wherever they are called from (an iterator's close(), finalizers,
#     `__exit__`, the interrupt handlers themselves).
# `strict`: the OUTERMOST frame (draw() itself) is inside the body / else part of a `try` that has a
# `finally`: from there on the render data must be finalized when draw() raises; before it (between
# the creation of the render data and the `try:` line) finalization may be left to RenderData.__del__.

CLEANUP_FUNCS = {"__del__", "__exit__", "close", "finalize", "_finalize_render_data_", "_close_image",
                 "_handle_interrupted_draw", "_handle_interrupted_draw_"}
_FUNCS = {}   # file -> [(first line, last line, name, clean-up spans, protected spans, lines of `try:`)]


class AsyncError(OSError):
    """the asynchronous non-KeyboardInterrupt exception"""

    def __init__(self):
        super().__init__(5, "injected asynchronous fault")


def _functions(filename):
    fs = _FUNCS.get(filename)
    if fs is not None:
        return fs
    with open(filename, encoding="utf-8") as f:
        tree = ast.parse(f.read())
    defs = (ast.FunctionDef, ast.AsyncFunctionDef, ast.Lambda)
    fs = []
    for node in ast.walk(tree):
        if not isinstance(node, defs):
            continue
        cleanup, prot, trylines = [], [], set()

        def visit(n):
            for ch in ast.iter_child_nodes(n):
                if isinstance(ch, defs + (ast.ClassDef,)):
                    continue
                if isinstance(ch, (ast.Try, getattr(ast, "TryStar", ast.Try))):
                    trylines.add(ch.lineno)
                    for h in ch.handlers:
                        cleanup.append((h.lineno, h.end_lineno, "except clause"))
                    if ch.finalbody:
                        cleanup.append((ch.finalbody[0].lineno, ch.finalbody[-1].end_lineno, "finally block"))
                        prot.append((ch.body[0].lineno, (ch.orelse or ch.body)[-1].end_lineno))
                visit(ch)
        visit(node)
        first = min([node.lineno] + [d.lineno for d in getattr(node, "decorator_list", [])])
        fs.append((first, node.end_lineno, getattr(node, "name", "<lambda>"), cleanup, prot, trylines))
    _FUNCS[filename] = fs
    return fs


def _function_at(filename, lineno, name):
    best = None
    for f in _functions(filename):
        if f[0] <= lineno <= f[1] and f[2] == name and (best is None or f[0] >= best[0]):
            best = f
    return best


def chain(frame):
    """the term_image frames from draw() (first) down to `frame`"""
    out = []
    while frame is not None:
        if in_package(frame):
            out.append((os.path.realpath(frame.f_code.co_filename), frame.f_lineno, frame.f_code.co_name))
        frame = frame.f_back
    out.reverse()
    return out


def classify(stack):
    """(why the position is clean-up code | None, strict)"""
    why = None
    for filename, lineno, name in stack:
        if name in CLEANUP_FUNCS:
            why = why or f"inside {name}()"
            continue
        f = _function_at(filename, lineno, name)
        if f is None:
            continue  # module / class level code, comprehensions of 3.11-: no try statement of their own is looked at
        for a, b, what in f[3]:
            if a <= lineno <= b:
                why = why or f"{what} of {name}() (line {lineno})"
    if stack:
        # CPython 3.12 compiles `try:` to a NOP that carries the line number but lies OUTSIDE the exception table
        # of the enclosing try statements (`try: a() \n try: b() ... finally: c()`: dis shows the table entry of the
        # outer try ending before the inner `try:`'s NOP and the next one starting after it): an exception raised
        # by the trace function on that line event skips the enclosing `finally`.  No signal can be
        # delivered there (the interpreter polls for signals at calls, function entries and backward jumps only),
        # so the line of a `try:` keyword is not a fault position.
        filename, lineno, name = stack[-1]
        f = _function_at(filename, lineno, name)
        if f is not None and lineno in f[5]:
            why = why or f"the `try:` line {lineno} of {name}() (no interrupt can be delivered at its NOP)"
    strict = False
    if stack:
        filename, lineno, name = stack[0]
        f = _function_at(filename, lineno, name)
        strict = f is not None and any(a <= lineno <= b for a, b in f[4])
    return why, strict


class StackFault(AsyncFault):
    """AsyncFault that keeps the chain of frames of the fault position (and, when recording, the
    call-site prefix of every line event)."""

    def __init__(self, k, exc, record=False, depth=3):
        super().__init__(k=k, exc=exc)
        self.record = record
        self.depth = depth
        self.stack = None
        self.keys = {}
        self.groups = []

    def _local(self, frame, event, arg):
        if event == "line":
            self.count += 1
            if self.record:
                st = chain(frame)
                key = " > ".join(f"{n}:{ln}" for _, ln, n in st[: self.depth])
                if len(st) > self.depth:
                    key += " > .. " + st[-1][2]
                self.groups.append(self.keys.setdefault(key, len(self.keys)))
            if self.k is not None and self.count == self.k and not self.fired:
                self.fired = True
                self.stack = chain(frame)
                self.where = (os.path.basename(frame.f_code.co_filename), frame.f_lineno, frame.f_code.co_name)
                raise self.exc()
        return self._local


RELEASED = {}   # id(render data) -> finalized when its __del__ ran
R_DEL = RenderData.__del__


def p_del(self):
    R_DEL(self)
    try:
        RELEASED[id(self)] = bool(self.finalized)
    except Exception:
        RELEASED[id(self)] = False


RenderData.__del__ = p_del

TMPDIR = None
WARM = set()


def source_file(scn):
    """a file with the scenario's image (written once per process)"""
    global TMPDIR
    if TMPDIR is None:
        TMPDIR = tempfile.mkdtemp(prefix="c07-src-")
        atexit.register(shutil.rmtree, TMPDIR, True)
    n = scn.get("frames", 1)
    path = os.path.join(TMPDIR, f"img-{os.getpid()}-{len(os.listdir(TMPDIR))}." + ("png" if n == 1 else "gif"))
    pil = make_pil(scn)
    pil.fp.seek(0)
    with open(path, "wb") as f:
        f.write(pil.fp.read())
    pil.close()
    return path


class SourceFault:
    """what happens to the source file of a file-sourced image between its construction and draw()"""

    def __init__(self, path, how):
        self.path, self.how = path, how

    def __enter__(self):
        if self.how:
            os.rename(self.path, self.path + ".away")
            if self.how == "garbage":
                with open(self.path, "wb") as f:
                    f.write(b"this is not an image\n" * 8)
            elif self.how == "directory":
                os.mkdir(self.path)
        return self

    def __exit__(self, *a):
        if self.how:
            if self.how == "garbage":
                os.unlink(self.path)
            elif self.how == "directory":
                os.rmdir(self.path)
            os.rename(self.path + ".away", self.path)
        return False


class Inject:
    def __init__(self, fault, entry):
        self.fault = fault
        self.entry = entry
        self.n = 0              # faultable calls so far
        self.calls = []
        self.events = []
        self.segs = []
        self.captured = b""
        self.active = True
        self.depth_next = 0
        self.in_handler = None  # the handler event while inside the interrupt handler
        self.group = None       # the write event of the print() call in progress
        self.in_print = False
        self.started = False
        self.hit = None
        self.injected = False

    def drain(self):
        while True:
            try:
                r, _, _ = R_SELECT([MASTER], [], [], 0)
                if not r:
                    return
                self.captured += R_READ(MASTER, 65536)
            except (BlockingIOError, OSError):
                return

    def deliver(self, s, cut):
        if not s and not cut:
            return
        self.segs.append([s, 1 if cut else 0])
        data = s.encode()
        while data:  # small pieces, the master emptied after each: a blocking write can never fill the pty
            n = R_WRITE(SLAVE, data[:512])
            data = data[n:]
            self.drain()

    def throw(self, exc_cls):
        self.injected = True
        if self.fault["kind"] == "KI":
            raise KeyboardInterrupt
        raise exc_cls(5, "injected fault") if issubclass(exc_cls, OSError) else exc_cls("injected fault")

    def count(self, cls, text):
        if self.n > 4000:
            self.active = False
            raise Abort("more than 4000 faultable calls")
        idx = self.n
        self.n += 1
        self.calls.append([cls, text, 1 if self.in_handler is not None else 0])
        return self.fault is not None and self.fault["k"] == idx

    def mark(self, ev, after):
        ki = self.fault["kind"] == "KI"
        code = (3 if ki else 4) if after else (1 if ki else 2)
        if self.in_handler is not None:
            self.in_handler[2] = code
        else:
            ev[2] = code

    # ---- stream write / flush -------------------------------------------------------
    def write(self, s):
        if not self.active:
            return len(s)
        hit = self.count(C_OUT, s)
        ev = None
        if self.in_handler is None:
            if self.in_print and self.group is not None:
                ev = self.group
            else:
                ev = [C_OUT, 1, 0]
                self.events.append(ev)
                if self.in_print:
                    self.group = ev
        if hit:
            j = self.fault.get("j")
            j = len(s) if j is None else max(0, min(int(j), len(s)))
            self.hit = [C_OUT, s, j]
            self.deliver(s[:j], cut=True)
            # "after its effect" only if everything this print()/write() had to say is out
            self.mark(ev, after=(j == len(s) and bool(self.fault.get("after", j == len(s)))))
            self.throw(OSError)
        self.deliver(s, cut=False)
        return len(s)

    def flush(self):
        if not self.active:
            return
        hit = self.count(C_FLUSH, None)
        ev = None
        if self.in_handler is None:
            ev = [C_FLUSH, 1, 0]
            self.events.append(ev)
        if hit:
            self.hit = [C_FLUSH, None, None]
            self.mark(ev, after=bool(self.fault.get("after")))
            self.throw(OSError)
        self.drain()

    # ---- other faultable calls ------------------------------------------------------
    def call(self, cls, real, exc_cls=RuntimeError):
        if not self.active:
            return real()
        hit = self.count(cls, None)
        ev = None
        if self.in_handler is None:
            ev = [cls, 1, 0]
            self.events.append(ev)
        if cls == C_RENDER:
            self.started = True   # the code reached a frame render call
        if hit:
            self.hit = [cls, None, None]
        if hit and not self.fault.get("after"):
            self.mark(ev, after=False)
            self.throw(exc_cls)
        try:
            res = real()
        except KeyboardInterrupt:
            if ev is not None:
                ev[2] = 1
            raise
        except Abort:
            raise
        except Exception:
            if ev is not None:
                ev[2] = 2  # natural exception of the real call (StopIteration ends the animation)
            raise
        if hit:
            self.mark(ev, after=True)
            self.throw(exc_cls)
        return res

    # ---- tracked, never faulted -----------------------------------------------------
    def tracked(self, cls, real, pre_arg=None, post_arg=None):
        if not self.active:
            return real()
        ev = [cls, 1 if pre_arg is None else int(pre_arg), 0]
        if self.in_handler is None:
            self.events.append(ev)
        res = real()
        if post_arg is not None:
            ev[1] = int(post_arg(res))
        return res

    def handler(self, real):
        if not self.active:
            return real()
        ev = [C_HANDLE, 1, 0]
        self.events.append(ev)
        self.in_handler = ev
        try:
            return real()
        finally:
            self.in_handler = None


INJ = None


class Out:
    """sys.stdout replacement connected to the pty slave (unbuffered)."""

    encoding = "utf-8"

    def write(self, s):
        return INJ.write(s)

    def flush(self):
        return INJ.flush()

    def isatty(self):
        return True

    def fileno(self):
        return SLAVE


def p_print(*args, **kwargs):
    """print() as seen by the image modules: one write event per call."""
    if INJ is None or not INJ.active or kwargs.get("file") is not None:
        return R_PRINT(*args, **kwargs)
    INJ.in_print, INJ.group = True, None
    try:
        return R_PRINT(*args, **kwargs)
    finally:
        INJ.in_print, INJ.group = False, None


def p_tcgetattr(fd):
    return INJ.tracked(C_GET, lambda: R_TCGETATTR(fd), post_arg=lambda res: norm(res) == INJ.entry)


def p_tcsetattr(fd, when, attrs):
    return INJ.tracked(C_SET, lambda: R_TCSETATTR(fd, when, attrs), pre_arg=norm(attrs) == INJ.entry)


def p_sleep(t):
    return INJ.call(C_SLEEP, lambda: None)


def p_next(self):
    def real():
        INJ.depth_next += 1
        try:
            return R_NEXT(self)
        finally:
            INJ.depth_next -= 1
    return INJ.call(C_RENDER, real)


def p_finalize(self):
    if INJ is None or not INJ.active or sys._getframe(1).f_code.co_name == "__del__":
        return R_FINALIZE(self)
    return INJ.tracked(C_FINALIZE, lambda: R_FINALIZE(self))


class AnimatorProxy:
    """`image_it._animator`: every next() is one tracked frame render."""

    def __init__(self, gen):
        self._gen = gen

    def __iter__(self):
        return self

    def __next__(self):
        def real():
            INJ.depth_next += 1
            try:
                return next(self._gen)
            finally:
                INJ.depth_next -= 1
        return INJ.call(C_RENDER, real)

    def send(self, v):
        return self._gen.send(v)

    def close(self):
        return self._gen.close()


def p_animate(self, *a, **k):
    return AnimatorProxy(R_ANIMATE(self, *a, **k))


# ------------------------------------------------------------------ new API: instrumented renderable


class Text(Renderable):
    """Coloured text frames (CSI 38;2 m ... CSI m per line); following the HINT of
    Renderable._handle_interrupted_draw_, the handler writes CSI 0 m (here: ST CSI m)."""

    def __init__(self, n, size, handler, indefinite=None):
        super().__init__(FrameCount.INDEFINITE if indefinite is not None else n, 1)
        self._sz = Size(*size)
        self._handler = handler
        self._left = indefinite
        self._it = None
        self.render_data_seen = []

    def _get_render_size_(self):
        return self._sz

    def _get_render_data_(self, *, iteration):
        rd = super()._get_render_data_(iteration=iteration)
        self.render_data_seen.append(rd)
        self._it = iter(range(self._left)) if self._left is not None else None
        return rd

    def _render_(self, render_data, render_args):
        def real():
            data = render_data[Renderable]
            if self._it is not None and data.iteration:
                next(self._it)  # StopIteration ends an INDEFINITE animation
            w, h = data.size
            n = data.frame_offset
            line = f"\x1b[38;2;{10 + n};{20 + n};{30 + n}m" + chr(0x30 + n % 10) * w + "\x1b[m"
            return Frame(n, 1, data.size, "\n".join((line,) * h))
        if INJ is not None and INJ.active and INJ.depth_next == 0:
            return INJ.call(C_RENDER, real)
        return real()

    def _handle_interrupted_draw_(self, render_data, render_args, output):
        def real():
            if self._handler:
                output.write("\x1b\\\x1b[m")
                output.flush()
        return INJ.handler(real) if INJ is not None else real()


# ------------------------------------------------------------------ old API: images


def make_pil(scn):
    n = scn.get("frames", 1)
    w, h = scn.get("px", [4, 4])
    rng = random.Random(scn.get("img_seed", 7))
    frames = []
    for i in range(n):
        if scn.get("noise"):
            im = Image.frombytes("RGB", (w, h), bytes(rng.randrange(256) for _ in range(w * h * 3)))
        else:
            im = Image.new("RGB", (w, h), (40 * i + 5, 10, 20))
            im.putpixel((0, 0), (200, 100 + i, 50))
        frames.append(im)
    b = io.BytesIO()
    if n == 1:
        frames[0].save(b, "PNG")
    else:
        frames[0].save(b, "GIF", save_all=True, append_images=frames[1:], duration=10, loop=0)
    b.seek(0)
    return Image.open(b)


def size_repr(s):
    return ["enum", s.name] if isinstance(s, ImgSize) else ["fixed", list(s)]


def run_case(case):
    global INJ
    scn = case["scn"]
    api = scn["api"]
    asy = case.get("async")
    if asy is not None:
        # the k-th line event must be the same one in every process: run the scenario once, untraced, so that
        # the library's process-wide caches are in the same (warm) state for the counting and for the faulted run
        wkey = json.dumps(scn, sort_keys=True)
        if wkey not in WARM:
            WARM.add(wkey)
            run_case({"scn": scn, "fault": None})
    R_TCSETATTR(SLAVE, termios.TCSANOW, BASE)
    termios.tcflush(SLAVE, termios.TCIOFLUSH)
    while True:
        r, _, _ = R_SELECT([MASTER], [], [], 0)
        if not r:
            break
        R_READ(MASTER, 65536)
    before = norm(R_TCGETATTR(SLAVE))
    res = {"abort": None, "exc": None, "finalized": None, "size_same": True, "seek_same": True, "out": 0}
    # ---- build the object before anything is patched
    if api == "old":
        cls = {"block": BlockImage, "kitty": KittyImage, "iterm2": ITerm2Image}[scn["style"]]
        tests.set_cell_size(tuple(scn.get("cell_size", (10, 20))))
        KittyImage._supported = ITerm2Image._supported = True
        KittyImage._KITTY_VERSION = tuple(scn.get("kitty_version", (0, 30, 0)))
        KittyImage._TERM = ITerm2Image._TERM = scn.get("term", "")
        src_path = None
        if scn.get("source") == "file":
            src_path = source_file(scn)
            make = lambda **kw: cls.from_file(src_path, **kw)  # noqa: E731
        else:
            pil = make_pil(scn)
            make = lambda **kw: cls(pil, **kw)  # noqa: E731
        if scn.get("size", "dynamic") == "fixed":
            obj = make(width=scn.get("width", 4))
        else:
            obj = make()
            obj.size = ImgSize[scn.get("size_enum", "FIT")]
        if scn.get("seek"):
            obj.seek(scn["seek"])
        size0, seek0 = size_repr(obj.size), obj.tell()
        res["lines"] = obj.rendered_height
        res["cols"] = obj.rendered_width
    else:
        obj = Text(scn.get("frames", 1), scn.get("size_wh", [3, 2]), scn.get("handler", True), scn.get("indefinite"))
        if scn.get("seek"):
            obj.seek(scn["seek"])
        seek0 = obj.tell()
    INJ = inj = Inject(case.get("fault"), before)
    # ---- patch
    termios.tcgetattr, termios.tcsetattr = p_tcgetattr, p_tcsetattr
    RMOD.sleep = p_sleep
    time.sleep = p_sleep
    RenderIterator.__next__ = p_next
    RenderData.finalize = p_finalize
    COMMON.ImageIterator._animate = p_animate
    COMMON.print = KITTY.print = ITERM2.print = p_print
    saved_render = saved_handler = None
    if api == "old":
        saved_render = cls.__dict__.get("_render_image")
        real_render = cls._render_image

        def p_render_image(self, *a, **k):
            if INJ is None or not INJ.active or INJ.depth_next:
                return real_render(self, *a, **k)
            return INJ.call(C_RENDER, lambda: real_render(self, *a, **k))
        cls._render_image = p_render_image
        saved_handler = cls.__dict__.get("_handle_interrupted_draw")
        real_handler = cls._handle_interrupted_draw
        cls._handle_interrupted_draw = staticmethod(lambda: INJ.handler(real_handler) if INJ is not None else real_handler())
    sys.stdout = Out()
    af = None
    if asy is not None:
        af = StackFault(asy.get("k"), KeyboardInterrupt if asy.get("kind", "KI") == "KI" else AsyncError,
                        record=bool(asy.get("record")))
    srcf = SourceFault(src_path if api == "old" else None, case.get("srcfault") if api == "old" and src_path else None)
    RELEASED.clear()
    try:
        try:
            srcf.__enter__()
            if af is not None:
                gc.collect()
                gc.disable()
                af.__enter__()
            if api == "old":
                kw = dict(scn.get("style_args", {}))
                if scn.get("frames", 1) > 1:
                    kw.update(animate=scn.get("animate", True), repeat=scn.get("loops", 1), cached=scn.get("cached", False))
                if "alpha" in scn:
                    kw["alpha"] = scn["alpha"]
                obj.draw(scn.get("h_align"), scn.get("pad_width", 1), scn.get("v_align"), scn.get("pad_height", 1), **kw)
            else:
                pad = scn.get("pad", [0, 0, 0, 0])
                obj.draw(None, ExactPadding(*pad), animate=scn.get("animate", True), loops=scn.get("loops", 1),
                         cache=scn.get("cache", False), hide_cursor=scn.get("hide_cursor", True),
                         echo_input=scn.get("echo_input", False))
            res["out"] = 0
        except KeyboardInterrupt as e:
            res["out"], res["exc"] = 1, repr(e)
        except Abort as e:
            res["out"], res["abort"] = 0, str(e)
        except Exception as e:
            res["out"], res["exc"] = 2, repr(e)[:200]
    finally:
        if af is not None:
            af.__exit__()
            gc.enable()
        srcf.__exit__()
        inj.active = False
        sys.stdout = REAL_STDOUT
        termios.tcgetattr, termios.tcsetattr = R_TCGETATTR, R_TCSETATTR
        RMOD.sleep = R_SLEEP_NEW
        time.sleep = R_SLEEP
        RenderIterator.__next__ = R_NEXT
        RenderData.finalize = R_FINALIZE
        COMMON.ImageIterator._animate = R_ANIMATE
        for m in (COMMON, KITTY, ITERM2):
            if "print" in m.__dict__:
                del m.print
        if api == "old":
            if saved_render is None:
                del cls._render_image
            else:
                cls._render_image = saved_render
            if saved_handler is None:
                del cls._handle_interrupted_draw
            else:
                cls._handle_interrupted_draw = saved_handler
        INJ = None
    inj.drain()
    after = norm(R_TCGETATTR(SLAVE))
    expect = "".join(s for s, _ in inj.segs).replace("\n", "\r\n").encode()
    res.update(calls=inj.calls, events=inj.events, segs=inj.segs, master_ok=(inj.captured == expect),
               termios_same=(before == after), started=inj.started, hit=inj.hit, injected=inj.injected)
    if not res["master_ok"]:
        res["master_diff"] = [len(inj.captured), len(expect)]
    if api == "old":
        res["size_same"] = size_repr(obj.size) == size0
        res["size"] = [size0, size_repr(obj.size)]
        res["seek_same"] = obj.tell() == seek0
        res["seek"] = [seek0, obj.tell()]
    else:
        res["seek_same"] = obj.tell() == seek0
        res["seek"] = [seek0, obj.tell()]
        # (asynchronous faults may land before any render data exists)
        res["finalized"] = (bool(obj.render_data_seen) or asy is not None) and all(rd.finalized for rd in obj.render_data_seen)
        res["n_render_data"] = len(obj.render_data_seen)
        # ... and once nobody but the library refers to the render data any more (the exception is gone by now)
        ids = [(id(rd), rd.finalized) for rd in obj.render_data_seen]
        obj.render_data_seen.clear()
        gc.collect()
        res["final_released"] = all(fin or RELEASED.get(i, False) for i, fin in ids)
    if af is not None:
        root = os.path.join(os.path.realpath(os.environ.get("VERIF_REPO", "/repo")), "src", "term_image") + os.sep
        res["acount"], res["afired"] = af.count, af.fired
        if af.fired:
            res["astack"] = [[f[len(root):] if f.startswith(root) else f, ln, n] for f, ln, n in af.stack]
            res["cleanup"], res["strict"] = classify(af.stack)
            # the exception counts as injected only if it is the one that came out / was swallowed: always, by construction
            res["injected"] = True
        if af.record:
            res["groups"] = af.groups
            res["group_keys"] = sorted(af.keys, key=af.keys.get)
    try:
        obj.close()
    except Exception:
        pass
    return res


def main():
    cases = json.loads(sys.stdin.read())
    results = []
    for c in cases:
        try:
            results.append(run_case(c))
        except BaseException as e:  # the harness itself failed on this case
            import traceback
            results.append({"abort": f"driver error: {type(e).__name__}: {e} {traceback.format_exc()[-600:]}", "events": [],
                            "calls": [], "segs": [], "out": 0})
    REAL_STDOUT.write(json.dumps(results))
    REAL_STDOUT.flush()


if __name__ == "__main__":
    main()
