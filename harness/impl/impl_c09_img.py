"""C09 (image iterator half, validation only): paired cached / uncached `ImageIterator`
runs over a synthetic animated GIF; frames are compared as strings (reported as equal /
index of first difference), with `image.set_size` between frames and seeks."""
import implenv
from implenv import tests

import hashlib
import io

from PIL import Image
from term_image.image import BlockImage, ImageIterator, ITerm2Image, KittyImage

tests.set_cell_size((10, 20))
STYLES = {"block": BlockImage, "kitty": KittyImage, "iterm2": ITerm2Image}
for cls in (KittyImage, ITerm2Image):
    cls._supported = True


def gif(n):
    frames = []
    for i in range(n):
        im = Image.new("RGB", (8, 4), (40 * i + 10, 255 - 50 * i, 17 * i))
        for x in range(8):
            im.putpixel((x, i % 4), (255, 255, 255))
        frames.append(im)
    buf = io.BytesIO()
    frames[0].save(buf, format="GIF", save_all=True, append_images=frames[1:], duration=20, loop=0)
    buf.seek(0)
    return Image.open(buf)


SIZES = {}  # rendered sizes seen at a next() of the caching run -> hash(rendered_size), the cache's key


def hash_box_injective():
    """hash() separates every size of a 400 x 200 box (what ImageIterator's size hash is assumed to do)"""
    return len({hash((w, h)) for w in range(1, 401) for h in range(1, 201)}) == 400 * 200


def run_one(case, cached):
    import os
    from term_image.image import common as _common
    img = gif(case["frames"])
    saved_ts = _common.get_terminal_size
    _common.get_terminal_size = lambda: os.terminal_size((80, 30))
    # "dyn": the image keeps its default DYNAMIC size (follows the terminal size)
    image = STYLES[case["style"]](img) if case.get("dyn") else STYLES[case["style"]](img, width=4)
    try:
        it = ImageIterator(image, case["repeat"], case.get("spec", ""), cached)
    except Exception as e:  # noqa: BLE001
        _common.get_terminal_size = saved_ts
        img.close()
        return [["ctor", type(e).__name__]]
    out, started = [], False
    try:
        for o in case["ops"]:
            if o[0] == "term":  # the terminal is resized
                cols, lines = o[1]
                _common.get_terminal_size = lambda cols=cols, lines=lines: os.terminal_size((cols, lines))
                out.append(["K"])
                continue
            if o[0] == "next":
                try:
                    fr = next(it)
                    started = True
                    if cached is not False:
                        rs = image.rendered_size
                        SIZES[(int(rs[0]), int(rs[1]))] = hash(rs)
                    out.append(["F", hashlib.sha1(fr.encode()).hexdigest()[:16], image.tell(), it.loop_no])
                except StopIteration:
                    out.append(["S", it.loop_no])
                except Exception as e:  # noqa: BLE001 — e.g. a frame that does not fit the padding
                    out.append(["E", type(e).__name__])
            elif o[0] == "size":
                image.set_size(width=o[1][0])
                out.append(["K"])
            elif o[0] == "seek":
                if not started:
                    out.append(["skip"])
                    continue
                try:
                    it.seek(o[1])
                    out.append(["K"])
                except Exception as e:  # noqa: BLE001
                    out.append(["E", type(e).__name__])
    finally:
        it.close()
        img.close()
        _common.get_terminal_size = saved_ts
    return out


def run_case(case):
    SIZES.clear()
    a = run_one(case, case["cached"])
    b = run_one(case, False)
    first = next((i for i, (x, y) in enumerate(zip(a, b)) if x != y), None)
    return {"equal": a == b, "first_diff": first, "frames": sum(1 for x in a if x[0] == "F"),
            "cached": a if a != b else None, "uncached": b if a != b else None,
            "sizes": [[w, h, hv] for (w, h), hv in sorted(SIZES.items())], "hash_box_injective": BOX_OK}


BOX_OK = hash_box_injective()

if __name__ == "__main__":
    implenv.write_results([run_case(c) for c in implenv.read_cases()])
