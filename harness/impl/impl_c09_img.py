"""C09, image iterator half: paired caching / non-caching `ImageIterator` runs of one history
over two instances of the same animated source.

Source kinds (`source`): "pil" = a PIL image decoded from bytes (no file), "pil_file" = a PIL
image the caller opened from a file, "file" = `from_file(path)` (the library opens the file
itself, the iterator holds an open image of its own), "url" = `from_url(...)` (served by a stub
of `requests.get`; the library keeps a temp file).  Formats GIF / WEBP, written to a temp dir
that is removed when the driver exits.

Per operation and run: outcome code (0 frame, 1 StopIteration, 2 an exception out of next(),
4 seek ok, 5 seek ValueError, 6 seek before the first frame, 7 seek on a closed iterator,
8 close, 9 a change of the size setting or of the environment), the frame (numbered per case: equal strings = equal numbers),
image.tell(), loop_no, images the library opened for the iterator and has not closed, and the
RENDER REQUESTS of the operation: every call of `image._render_image` as (image._seek_position,
index of image.rendered_size, "the PIL image handed over was already closed").


Round 9: the ENVIRONMENT of the rendered size has three components - terminal size (op `term`),
cell ratio (op `ratio` [num, den] -> `term_image.set_cell_ratio(num / den)`, text styles) and cell
size (op `cell` [w, h] -> the `get_cell_size` stub, graphics styles) - and the size SETTING may
change KIND during the iterator's life: `size` [w, _] = `set_size(width=w)` (fixed), `dsize` name =
`image.size = Size[name]` (dynamic); `size0` = the setting the image is constructed with
(["F", w] / ["D", name]; default: `dyn` -> Size.FIT, else width 4); `px` = pixel size of the
source frames (default 8 x 4).  `settings` reports the size
setting in force after every operation (["F", w, h] / ["D", member index]).

Everything reported is an integer, a bool, a short string or a list of those."""
import implenv
from implenv import tests

import atexit
import hashlib
import io
import os
import shutil
import tempfile

from PIL import Image
from term_image.exceptions import TermImageError
import term_image
from term_image.image import BlockImage, ImageIterator, ITerm2Image, KittyImage, Size
from term_image.image import common as _common

tests.set_cell_size((10, 20))
STYLES = {"block": BlockImage, "kitty": KittyImage, "iterm2": ITerm2Image}
for cls in (KittyImage, ITerm2Image):
    cls._supported = True

TMP = tempfile.mkdtemp(prefix="c09img-")
atexit.register(shutil.rmtree, TMP, ignore_errors=True)
REAL_OPEN = Image.open
REAL_CLOSE = Image.Image.close
_BYTES = {}


def frames_of(n, px=(8, 4)):
    frames = []
    w, h = px
    for i in range(n):
        im = Image.new("RGB", (w, h), (40 * i + 10, 255 - 50 * i, 17 * i))
        for x in range(w):
            im.putpixel((x, i % h), (255, 255, 255))
        frames.append(im)
    return frames


def source_bytes(n, fmt, px=(8, 4)):
    """-> (path of the file in the temp dir, its content)"""
    key = (n, fmt, tuple(px))
    if key not in _BYTES:
        frames = frames_of(n, tuple(px))
        kw = dict(save_all=True, append_images=frames[1:], duration=20, loop=0)
        if fmt == "WEBP":
            kw["lossless"] = True
        path = os.path.join(TMP, f"anim{n}_{px[0]}x{px[1]}.{fmt.lower()}")
        frames[0].save(path, format=fmt, **kw)
        with open(path, "rb") as f:
            _BYTES[key] = (path, f.read())
    return _BYTES[key]


class _Response:
    status_code = 200

    def __init__(self, content):
        self.content = content


class _Requests:
    """what `from_url` needs of `requests`: get(url, stream=True) -> .status_code, .content"""

    def __init__(self, content):
        self._content = content

    def get(self, url, **kw):
        return _Response(self._content)


def construct(case):
    """-> (image, the caller's PIL image or None)"""
    cls = STYLES[case["style"]]
    kind, fmt = case.get("source", "pil"), case.get("fmt", "GIF")
    path, content = source_bytes(case["frames"], fmt, case.get("px", (8, 4)))
    kw = {} if case.get("dyn") else {"width": 4}
    if case.get("size0"):
        kw = {"width": case["size0"][1]} if case["size0"][0] == "F" else {}
    keep = None
    if kind == "file":
        image = cls.from_file(path, **kw)
    elif kind == "url":
        saved = _common.requests
        _common.requests = _Requests(content)
        try:
            image = cls.from_url("http://c09.invalid/" + os.path.basename(path), **kw)
        finally:
            _common.requests = saved
    elif kind == "pil_file":
        keep = REAL_OPEN(path)
        image = cls(keep, **kw)
    else:
        keep = REAL_OPEN(io.BytesIO(content))
        image = cls(keep, **kw)
    if case.get("size0") and case["size0"][0] == "D":
        image.size = Size[case["size0"][1]]
    return image, keep


DYN = ["FIT", "FIT_TO_WIDTH", "ORIGINAL", "AUTO"]


def setting_of(image):
    z = image.size
    return ["D", DYN.index(z.name)] if isinstance(z, Size) else ["F", int(z[0]), int(z[1])]


class OpenTracker:
    """Image.open / Image.close pairing while an iterator lives (every opened image is kept
    referenced: nothing is closed by the garbage collector)."""

    def __init__(self):
        self.opened, self.closed = [], set()

    def __enter__(self):
        tr = self

        def opener(*a, **kw):
            im = REAL_OPEN(*a, **kw)
            tr.opened.append(im)
            return im

        def closer(self_):
            tr.closed.add(id(self_))
            return REAL_CLOSE(self_)

        Image.open = opener
        Image.Image.close = closer
        return self

    def __exit__(self, *a):
        Image.open = REAL_OPEN
        Image.Image.close = REAL_CLOSE

    def unclosed(self):
        return sum(1 for im in self.opened if id(im) not in self.closed)


SIZES = {}  # (rendered size, pixel size of the render) -> [index, hash(rendered_size)], per case, shared by the two runs


def size_index(image):
    """identity of what a frame is rendered for: the rendered size (cells) AND the pixel size of the render
    (`_get_render_size()`: for graphics-based styles rendered size x cell size; a function of the rendered size
    alone for text-based styles).  The stamp reported is the code's: hash(rendered_size)."""
    rs = image.rendered_size
    px = image._get_render_size()
    key = (int(rs[0]), int(rs[1]), int(px[0]), int(px[1]))
    if key not in SIZES:
        SIZES[key] = [len(SIZES), hash(rs)]
    return SIZES[key][0]


def hash_box_injective():
    """hash() separates every size of a 400 x 200 box (what ImageIterator's size hash is assumed to do)"""
    return len({hash((w, h)) for w in range(1, 401) for h in range(1, 201)}) == 400 * 200


def run_one(case, cached):
    saved_ts = _common.get_terminal_size
    cols0, lines0 = case.get("term0", [80, 30])
    _common.get_terminal_size = lambda: os.terminal_size((cols0, lines0))
    term_image._cell_ratio = 0.5
    tests.set_cell_size((10, 20))
    image, keep = construct(case)
    fail = case.get("fail")  # [frame number, rendered width]: rendering that frame at that width fails
    res = {"rows": [], "reqs": [], "exc": [], "closed_src": 0, "settings": []}
    cur = []
    tracker = OpenTracker()
    real_render = image._render_image

    def logged(img, alpha, **kw):
        k = image._seek_position
        was_closed = id(img) in tracker.closed
        cur.append([k, size_index(image), was_closed])
        res["closed_src"] += was_closed
        if fail and k == fail[0] and image.rendered_width == fail[1]:
            raise RuntimeError("injected render failure")
        return real_render(img, alpha, **kw)

    image._render_image = logged
    it = None
    try:
        with tracker:
            try:
                it = ImageIterator(image, case["repeat"], case.get("spec", ""), cached)
            except Exception as e:  # noqa: BLE001
                res["ctor"] = type(e).__name__
                return res
            res["ctor"] = "ok"
            res["cache_on"] = bool(it._cached)
            res["n"] = image.n_frames
            res["z0"] = size_index(image)
            res["g0"] = setting_of(image)
            for o in case["ops"]:
                del cur[:]
                code, frame, exc = 9, -1, ""
                if o[0] == "term":  # the terminal is resized
                    cols, lines = o[1]
                    _common.get_terminal_size = lambda cols=cols, lines=lines: os.terminal_size((cols, lines))
                elif o[0] == "size":
                    image.set_size(width=o[1][0])
                elif o[0] == "dsize":
                    image.size = Size[o[1]]
                elif o[0] == "ratio":  # the cell ratio changes (what text-based styles resolve a dynamic size with)
                    term_image.set_cell_ratio(o[1][0] / o[1][1])
                elif o[0] == "cell":  # the terminal's cell size changes (graphics-based styles)
                    tests.set_cell_size(tuple(o[1]))
                elif o[0] == "next":
                    try:
                        fr = next(it)
                        code, frame = 0, hashlib.sha1(fr.encode()).hexdigest()[:16]
                    except StopIteration:
                        code = 1
                    except Exception as e:  # noqa: BLE001 — e.g. a frame that does not fit the padding
                        code, exc = 2, type(e).__name__
                elif o[0] == "seek":
                    try:
                        it.seek(o[1])
                        code = 4
                    except ValueError:
                        code = 5
                    except TermImageError as e:
                        code = 6 if "not yet started" in str(e) else 7
                    except Exception as e:  # noqa: BLE001
                        code, exc = 2, type(e).__name__
                elif o[0] == "close":
                    it.close()
                    code = 8
                loop_no = it.loop_no
                res["rows"].append([code, frame, image.tell(), -99 if loop_no is None else loop_no,
                                    tracker.unclosed(), size_index(image)])
                res["reqs"].append([list(r) for r in cur])
                res["settings"].append(setting_of(image))
                res["exc"].append(exc)
    finally:
        try:
            if it is not None:
                it.close()
        finally:
            image.__dict__.pop("_render_image", None)
            image.close()
            if keep is not None:
                keep.close()
            _common.get_terminal_size = saved_ts
            term_image._cell_ratio = 0.5
            tests.set_cell_size((10, 20))
    return res


def number_frames(a, b):
    ids = {}
    for run in (b, a):  # the non-caching run first: its frames get the small numbers
        for row in run["rows"]:
            if row[1] != -1:
                row[1] = ids.setdefault(row[1], len(ids))
    return len(ids)


def legacy(run):
    out = []
    for row, exc in zip(run.get("rows", []), run.get("exc", [])):
        c = row[0]
        out.append(["F", row[1], row[2], row[3]] if c == 0 else ["S", row[3]] if c == 1 else ["E", exc] if c == 2
                   else ["K"] if c in (4, 8, 9) else ["E", {5: "ValueError"}.get(c, "TermImageError")])
    return out


def run_case(case):
    SIZES.clear()
    a = run_one(case, case["cached"])
    b = run_one(case, False)
    if a.get("ctor") != "ok" or b.get("ctor") != "ok":
        return {"equal": a.get("ctor") == b.get("ctor"), "first_diff": None if a.get("ctor") == b.get("ctor") else -1,
                "frames": 0, "ctor": [a.get("ctor"), b.get("ctor")], "cached": None, "uncached": None,
                "sizes": [], "hash_box_injective": BOX_OK}
    number_frames(a, b)
    seen_a = [r[:4] + [e] for r, e in zip(a["rows"], a["exc"])]
    seen_b = [r[:4] + [e] for r, e in zip(b["rows"], b["exc"])]
    first = next((i for i, (x, y) in enumerate(zip(seen_a, seen_b)) if x != y), None)
    return {"equal": seen_a == seen_b, "first_diff": first, "frames": sum(1 for r in a["rows"] if r[0] == 0),
            "ctor": ["ok", "ok"],
            "cached": legacy(a) if seen_a != seen_b else None, "uncached": legacy(b) if seen_a != seen_b else None,
            "runs": {"cached": a, "uncached": b},
            "sizes": [[w, h, v[1], pw, ph] for (w, h, pw, ph), v in sorted(SIZES.items(), key=lambda kv: kv[1][0])],
            "hash_box_injective": BOX_OK}


BOX_OK = hash_box_injective()

if __name__ == "__main__":
    try:
        implenv.write_results([run_case(c) for c in implenv.read_cases()])
    finally:
        shutil.rmtree(TMP, ignore_errors=True)
