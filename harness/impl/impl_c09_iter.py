"""C09 driver for the RenderIterator pairs: impl_c08.py (shared with C08 / C10, imported unchanged)
plus render-argument field VALUES of another type.

A case's `args` (and the argument of an `["args", v]` operation) may be, beside what impl_c08.py
accepts (an int — any int, negative and beyond 2**61 included — / "none" / "base" / "bad"):

    ["L", k]     the render-argument field holds the LIST [k]: a valid, comparable (== by value)
                 but UNHASHABLE field value (RenderArgs are hashable only if their field values are)

The instrumented renderable writes the field value into its output and its call log as an integer;
a list [k] is written as LIST_BASE + k (the plugin encodes ["L", k] the same way for the Coq side,
so that equality of values is equality of codes).  Nothing else differs from impl_c08.py."""
import impl_c08 as d
import implenv

LIST_BASE = 7000000

_mk_args = d.mk_args
_render = d.VR._render_


def mk_args(a):
    if isinstance(a, list) and a and a[0] == "L":
        return d.RenderArgs(d.VR, d.VRArgs([a[1]]))
    return _mk_args(a)


def _render_(self, render_data, render_args):
    a = render_args[d.VR].foo
    if isinstance(a, list):  # canonicalise for the log / the output only: the iterator never sees this
        render_args = render_args.update(d.VR, foo=LIST_BASE + a[0])
    return _render(self, render_data, render_args)


d.mk_args = mk_args
d.VR._render_ = _render_

if __name__ == "__main__":
    implenv.write_results([d.run_case(c) for c in implenv.read_cases()])
