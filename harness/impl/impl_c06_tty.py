"""C06 driver for draws that TALK TO THE TERMINAL while they draw.

The other C06 driver (impl_c06.py) runs with the test-suite's stubs for the terminal queries
(colours, name, cell size): draw() never queries there.  Here nothing of the library is stubbed:
the draw runs in a FRESH PROCESS (a fork of this driver, which has imported the library but never
drawn or queried: every query cache is cold) whose standard input / output / error AND active
terminal (`utils._tty_fd`) are the slave of a pty; this process holds the master and PLAYS THE
TERMINAL: it answers the queries the draw makes (replies from a terminal profile in the format of
harness/props/c12_pty.py: query name -> reply bytes) at a CONTROLLED point of each exchange:

  "window"     after the request has been transmitted (the library's `termios.tcdrain` has
               returned) and before the library's next termios call
  "read"       after the first `termios.tcsetattr` that follows the transmission (the reply arrives
               while the library is reading)
  "split"      all replies but the last at "window", the last (DA1) at "read"
  "immediate"  as soon as the request has been seen on the master (no delay; wherever the library
               happens to be)

The controlled points need no clock: the child's `termios.tcdrain` and `termios.tcsetattr` are
pass-through wrappers that, after the real call, tell this process (a pipe) and wait for its "go"
(a second pipe) -- the technique of seeded/C06-m11/demo.py.  Nothing of the library is patched
(but `sleep`, replaced by a no-op, the `_stdout_write` aliases bound at import time, and -- graphics
styles -- the forced support flags, as in impl_c06.py).

What the SCREEN receives is what arrives on the master: draw()'s writes, the query requests (which
draw nothing: recognised byte for byte and taken out, with their positions) and WHATEVER THE TTY'S
LINE DISCIPLINE ECHOES of the replies.  With "tty": false standard output is a pipe (the active
terminal is still there, through standard input / error, and is still asked): "out" is what the pipe
received and "term" what the terminal's screen received (nothing, if the property holds).  Result per case: "screen" (the master stream without the
recognised requests), "exchanges" [{"names", "pos" / "cpos" (offset in "screen", bytes / characters), "reply", "when", "pieces":
[[point, bytes, ECHO flag of the tty at that moment]], "echo_at_send": ECHO flag when the request was seen}], "events" (the
termios calls seen), + the keys of impl_c06.py's results ("frames", "size", "raised", ...).
"""
import json
import os
import sys
import warnings

REPO = os.environ.get("VERIF_REPO", "/repo")
for p in (REPO, REPO + "/src"):
    while p in sys.path:
        sys.path.remove(p)
sys.path.insert(0, REPO + "/src")
sys.path.append(os.path.join(os.path.dirname(os.path.abspath(__file__)), "..", "props"))
sys.path.append(os.path.join(os.path.dirname(os.path.abspath(__file__)), ".."))
warnings.simplefilter("ignore")

import fcntl  # noqa: E402
import io  # noqa: E402
import pty  # noqa: E402
import select  # noqa: E402
import signal  # noqa: E402
import struct  # noqa: E402
import termios  # noqa: E402
import time  # noqa: E402
import traceback  # noqa: E402

from c12_pty import QUERIES, tokenize  # noqa: E402  (the queries the library makes, read-only)

# the library is imported while fd 1 is a (dummy) pty: there is an active terminal
_dummy_master, _dummy_slave = pty.openpty()
_real_out = os.dup(1)
os.dup2(_dummy_slave, 1)
try:
    import term_image  # noqa: E402
    from term_image import utils  # noqa: E402
    from PIL import Image  # noqa: E402
    from term_image.exceptions import InvalidSizeError  # noqa: E402
    from term_image.geometry import Size  # noqa: E402
    from term_image.image import BlockImage, ITerm2Image, KittyImage  # noqa: E402
    from term_image.image import common as _common  # noqa: E402
    from term_image.image import iterm2 as _iterm2  # noqa: E402
    from term_image.image import kitty as _kitty  # noqa: E402
    from term_image.padding import AlignedPadding, ExactPadding, HAlign, VAlign  # noqa: E402
    from term_image.renderable import Frame, Renderable, RenderSizeOutofRangeError  # noqa: E402
    from term_image.renderable import _renderable as _rmod  # noqa: E402
finally:
    os.dup2(_real_out, 1)
    os.close(_real_out)

assert term_image.__file__.startswith(REPO + "/src"), term_image.__file__
assert utils._tty_fd != -1, "no active terminal"

FILLS = {"space": " ", "star": "*", "empty": ""}
CASE_CAP = 120.0   # seconds: a case that has not finished by then is an infrastructure error
ANSWERING_TIMEOUT = 100.0  # query timeout of the library when the terminal answers: never reached


# ============================================================================ the child


def make_frame(kind, k, w, h, seed):
    lines = []
    for i in range(h):
        if kind == "text":
            ch = "abcdefghijklmnopqrstuvwxyz"[(seed + 3 * k + i) % 26]
            lines.append(ch * w)
        elif kind == "block":
            r, g, b = (seed * 7 + 40 * k + 5 * i) % 256, (seed * 3 + 17 * k) % 256, (90 * k + 11 * i) % 256
            lines.append(f"\x1b[38;2;{r};{g};{b}m\x1b[48;2;{b};{r};{g}m" + "▀" * w + "\x1b[0m")
        else:
            lines.append(f"\x1b[{w}X\x1b[{w}C")
    return "\n".join(lines)


class QAnim(Renderable):
    """a renderable whose render asks the terminal (through the library's public query functions,
    as a text-based style does for the default colours and the terminal's name) on every frame
    render; the answers are cached by the library, so the terminal is asked while the FIRST frame
    is rendered"""

    def __init__(self, frames, size, clear, asks):
        super().__init__(len(frames), 1)
        self._frames, self._sz, self._clear, self._asks = frames, size, clear, asks
        self.rendered = []
        self.answers = []

    def _get_render_size_(self):
        return Size(*self._sz)

    def _render_(self, render_data, render_args):
        n = render_data[Renderable].frame_offset
        self.rendered.append(n)
        for a in self._asks:
            if a == "colors":
                self.answers.append(repr(utils.get_fg_bg_colors()))
            elif a == "name":
                self.answers.append(repr(utils.get_terminal_name_version()))
            elif a == "cell":
                self.answers.append(repr(utils.get_cell_size()))
        return Frame(n, 1, Size(*self._sz), self._frames[n])

    def _clear_frame_(self, render_data, render_args, cursor_x, output):
        if self._clear:
            output.write(self._clear)

    def _handle_interrupted_draw_(self, render_data, render_args, output):
        output.write("\x1b[0m")


def make_gif(spec):
    n, (pw, ph), seed = spec["n_frames"], spec["size"], spec.get("seed", 0)
    ims = []
    for k in range(n):
        im = Image.new("RGB", (pw, ph))
        px = im.load()
        for y in range(ph):
            for x in range(pw):
                px[x, y] = ((seed * 13 + 60 * k + 9 * x) % 256, (40 * k + 23 * y + seed) % 256, (200 - 45 * k + x * y) % 256)
        ims.append(im)
    buf = io.BytesIO()
    if n > 1:
        ims[0].save(buf, "GIF", save_all=True, append_images=ims[1:], duration=1, loop=0)
    else:
        ims[0].save(buf, "PNG")
    buf.seek(0)
    return Image.open(buf)


def child_new(case):
    w, h = case["size"]
    n = case["frames"]
    frames = [make_frame(case["frame_kind"], k, w, h, case.get("seed", 0)) for k in range(n)]
    clear = f"\x1b[{w}X" if case.get("clear") == "ech" else ""
    p = case["padding"]
    fill = FILLS[case.get("fill", "space")]
    if p["kind"] == "aligned":
        pad = AlignedPadding(p["W"], p["H"], HAlign(p["ha"]), VAlign(p["va"]), fill)
    else:
        pad = ExactPadding(p["l"], p["t"], p["r"], p["b"], fill)
    kw = dict(animate=case.get("animate", True), check_size=case.get("check_size", True),
              allow_scroll=case.get("allow_scroll", False), hide_cursor=case.get("hide_cursor", True),
              echo_input=case.get("echo_input", False))
    kw["loops"] = case.get("loops", 1)
    if "cache" in case:
        kw["cache"] = case["cache"]
    r = QAnim(frames, (w, h), clear, case["term_io"].get("asks", ["colors", "name"]))
    res = {"frames": frames, "clear": clear, "size": [w, h]}
    try:
        r.draw(None, pad, **kw)
        res["raised"] = 0
    except RenderSizeOutofRangeError as e:
        res["raised"] = 1
        res["message"] = str(e)
    except BaseException as e:  # noqa: B902
        res["error"] = f"{type(e).__name__}: {e} " + traceback.format_exc()[-500:]
    res["rendered"] = r.rendered
    res["answers"] = r.answers[:6]
    return res


def child_old(case):
    style = case["style"]
    cls = {"block": BlockImage, "kitty": KittyImage, "iterm2": ITerm2Image}[style]
    if style != "block":  # as impl_c06.py: the style's terminal is given, not detected
        KittyImage._supported = ITerm2Image._supported = True
        KittyImage._KITTY_VERSION = tuple(case.get("kitty_version", (0, 30, 0)))
        ITerm2Image._TERM = case.get("term", "")
    H_ALIGN = [["<", "left"], ["|", "center", None], [">", "right"]]
    V_ALIGN = [["^", "top"], ["-", "middle", None], ["_", "bottom"]]
    pres = case.get("pres", 0)
    ha = H_ALIGN[case["ha"]][pres % len(H_ALIGN[case["ha"]])]
    va = V_ALIGN[case["va"]][pres % len(V_ALIGN[case["va"]])]
    kw = dict(animate=case.get("animate", True), scroll=case.get("scroll", False),
              check_size=case.get("check_size", True))
    kw["repeat"] = case.get("repeat", 1)
    if "cached" in case:
        kw["cached"] = case["cached"]
    kw.update(case.get("args", {}))
    W, Hh = case["pad"]
    img = make_gif(case["img"])
    cells = case.get("cells")
    image = cls(img, width=cells[0], height=cells[1]) if cells else cls(img)
    frames, sizes = [], []
    orig = image._render_image

    def wrapped(*a, **k):
        out = orig(*a, **k)
        frames.append(out)
        sizes.append(list(image.rendered_size))
        return out

    image._render_image = wrapped
    res = {}
    try:
        image.draw(ha, W, va, Hh, case.get("alpha", None), **kw)
        res["raised"] = 0
    except BaseException as e:  # noqa: B902
        if isinstance(e, InvalidSizeError) or (isinstance(e, ValueError) and ("pad_width" in str(e) or "pad_height" in str(e))):
            res["raised"] = 1
            res["message"] = f"{type(e).__name__}: {e}"
        else:
            res["error"] = f"{type(e).__name__}: {e} " + traceback.format_exc()[-500:]
    res.update(frames=frames, sizes=sizes, n_frames=getattr(img, "n_frames", 1), animated=bool(image.is_animated))
    try:
        res["size"] = list(image.rendered_size)
    except Exception:
        res["size"] = None
    return res


def child_main(case, slave_name, evt_w, ack_r, res_w, out_w):
    """never returns"""
    try:
        os.setsid()
        fd = os.open(slave_name, os.O_RDWR | os.O_NOCTTY)
        for t in (0, 1, 2, utils._tty_fd):
            os.dup2(fd, t)
        if fd not in (0, 1, 2, utils._tty_fd):
            os.close(fd)
        if out_w is not None:
            # standard output redirected (a pipe, block-buffered as Python does it): the active
            # terminal -- standard input / error -- is still there and is still asked
            os.dup2(out_w, 1)
            os.close(out_w)
            out = io.TextIOWrapper(io.BufferedWriter(io.FileIO(1, "w", closefd=False)), encoding="utf-8", newline="")
        else:
            out = io.TextIOWrapper(io.FileIO(1, "w", closefd=False), encoding="utf-8", newline="", line_buffering=True)
        err = io.TextIOWrapper(io.FileIO(2, "w", closefd=False), encoding="utf-8", newline="", line_buffering=True)
        sys.stdout = sys.__stdout__ = out
        sys.stderr = sys.__stderr__ = err
        _kitty._stdout_write = _iterm2._stdout_write = lambda s: sys.stdout.write(s)
        _rmod.sleep = lambda s: None
        _common.time.sleep = lambda s: None  # (the child's own code does not sleep)
        io_spec = case["term_io"]
        for k in ("COLUMNS", "LINES", "TERM_PROGRAM", "TERM_PROGRAM_VERSION"):
            os.environ.pop(k, None)

        # pass-through wrappers of the two termios calls at which the terminal's reply is scheduled
        real_drain, real_setattr = termios.tcdrain, termios.tcsetattr

        def sync(code):
            try:
                os.write(evt_w, code)
                os.read(ack_r, 1)
            except OSError:
                pass

        def tcdrain(fd_):
            real_drain(fd_)
            sync(b"D")

        def tcsetattr(fd_, when, attrs):
            real_setattr(fd_, when, attrs)
            sync(b"S")

        termios.tcdrain, termios.tcsetattr = tcdrain, tcsetattr
        term_image.set_query_timeout(float(io_spec.get("timeout", ANSWERING_TIMEOUT)))
        signal.alarm(int(CASE_CAP))
        res = child_new(case) if case["api"] == "new" else child_old(case)
        try:
            sys.stdout.flush()
        except Exception:
            pass
        res["seen"] = list(utils.get_terminal_size())
        res["echo_after"] = bool(termios.tcgetattr(0)[3] & termios.ECHO)
    except BaseException as e:  # noqa: B902
        res = {"error": f"child: {type(e).__name__}: {e} " + traceback.format_exc()[-500:]}
    try:
        data = json.dumps(res).encode()
        while data:
            n = os.write(res_w, data)
            data = data[n:]
    finally:
        os._exit(0)


# ============================================================================ the terminal

QBYTES = [q for _, q in QUERIES]
DA1 = dict(QUERIES)["da1"]


def find_request(stream, start):
    """-> (i, j): the first request at or after `start` -- a maximal run of the library's known
    query sequences, closed by the first DA1 in it (every request of the library ends with DA1) --
    or None"""
    i = stream.find(b"\x1b", start)
    while i >= 0:
        j = i
        while True:
            for q in QBYTES:
                if stream.startswith(q, j):
                    j += len(q)
                    break
            else:
                break
            if q == DA1:
                break
        if j > i:
            return i, j
        i = stream.find(b"\x1b", i + 1)
    return None


def split_requests(stream: bytes):
    """-> (screen bytes, [(offset in screen, request bytes)]): the requests are taken out;
    everything else is for the screen"""
    screen = bytearray()
    reqs = []
    pos = 0
    while True:
        f = find_request(stream, pos)
        if not f:
            break
        i, j = f
        screen += stream[pos:i]
        reqs.append((len(screen), bytes(stream[i:j])))
        pos = j
    screen += stream[pos:]
    return bytes(screen), reqs


def set_nonblock(fd):
    fcntl.fcntl(fd, fcntl.F_SETFL, fcntl.fcntl(fd, fcntl.F_GETFL) | os.O_NONBLOCK)


def play(case):
    io_spec = case["term_io"]
    tw, th = case["term_size"]
    xpix, ypix = io_spec.get("pixels", [0, 0])
    master, slave = pty.openpty()
    fcntl.ioctl(slave, termios.TIOCSWINSZ, struct.pack("HHHH", th, tw, xpix, ypix))
    attrs = termios.tcgetattr(slave)
    attrs[1] &= ~termios.OPOST      # the master sees what was written (as in impl_c06.py)
    if not io_spec.get("echo0", True):
        attrs[3] &= ~termios.ECHO   # a terminal found with its input echo already off
    termios.tcsetattr(slave, termios.TCSANOW, attrs)
    slave_name = os.ttyname(slave)
    evt_r, evt_w = os.pipe()
    ack_r, ack_w = os.pipe()
    res_r, res_w = os.pipe()
    redirected = not case.get("tty", True)
    out_r, out_w = os.pipe() if redirected else (None, None)
    pid = os.fork()
    if pid == 0:
        for fd in (master, evt_r, ack_w, res_r) + ((out_r,) if redirected else ()):
            os.close(fd)
        child_main(case, slave_name, evt_w, ack_r, res_w, out_w)
    for fd in (evt_w, ack_r, res_w) + ((out_w,) if redirected else ()):
        os.close(fd)
    set_nonblock(master)
    piped = bytearray()
    out_open = redirected

    profile = {k: (None if v is None else bytes(v)) for k, v in io_spec["profile"].items()}
    whens = io_spec.get("when", ["window"])
    stream = bytearray()
    answered_upto = 0      # offset in `stream` up to which requests have been looked at
    exchanges = []         # per request
    pending = None         # the exchange whose reply is not completely written yet
    events = []
    resbuf = bytearray()
    res_open = True
    master_open = True
    deadline = time.monotonic() + CASE_CAP
    infra = None

    def echo_now():
        try:
            return bool(termios.tcgetattr(slave)[3] & termios.ECHO)
        except termios.error:
            return None

    def drain_master():
        nonlocal master_open
        while master_open:
            try:
                data = os.read(master, 1 << 16)
            except BlockingIOError:
                return
            except OSError:
                master_open = False
                return
            if not data:
                master_open = False
                return
            stream.extend(data)

    def write_piece(ex, point):
        """write the part of the reply that is due at `point` (0 = window, 1 = read)"""
        units = ex["units"]
        if not units:
            ex["done"] = True
            return
        if ex["when"] == "split" and len(units) > 1 and point == 0:
            data, ex["units"] = b"".join(units[:-1]), units[-1:]
        else:
            data, ex["units"] = b"".join(units), []
        if data:
            ex["pieces"].append([point, list(data), echo_now()])
            os.write(master, data)
            if ex["when"] != "immediate":
                settle()
        if not ex["units"]:
            ex["done"] = True

    def settle():
        """The kernel hands what was written to the master over to the line discipline in a worker
        thread, i.e. a moment AFTER write() has returned; the program (blocked in its termios
        wrapper until our "go") is let go on only when that has happened, as far as it can be
        told: an echo shows up on the master at once, no echo shows nothing -- wait for the former
        for at most 30 ms.  (Detection only: with ECHO off nothing is echoed whenever the worker
        runs.)"""
        end = time.monotonic() + 0.03
        while True:
            left = end - time.monotonic()
            if left <= 0:
                return
            if master_open and select.select([master], [], [], left)[0]:
                drain_master()
                end = min(end, time.monotonic() + 0.003)

    def look_for_requests():
        """a complete request = a run of known queries ending with DA1"""
        nonlocal answered_upto, pending
        while pending is None:
            found = find_request(stream, answered_upto)
            if not found:
                answered_upto = max(answered_upto, len(stream) - 64)
                return
            i, j = found
            request = bytes(stream[i:j])
            if not request.endswith(DA1) and j == len(stream):
                return  # may still be growing
            answered_upto = j
            names = tokenize(request)
            k = len(exchanges)
            ex = {"names": names, "when": whens[k % len(whens)], "pieces": [], "done": False, "drained": False,
                  "units": [profile[q] for q in names if profile.get(q) is not None],
                  "echo_at_send": echo_now()}
            ex["reply"] = list(b"".join(ex["units"]))
            exchanges.append(ex)
            pending = ex
            if ex["when"] == "immediate":
                write_piece(ex, 0)
            if ex["done"]:
                pending = None

    while True:
        if time.monotonic() > deadline:
            infra = "the case did not finish within %d s" % CASE_CAP
            break
        rl = [fd for fd, ok in ((master, master_open), (evt_r, True), (res_r, res_open), (out_r, out_open)) if ok]
        ready = select.select(rl, [], [], 0.5)[0]
        if out_open and out_r in ready:
            chunk = os.read(out_r, 1 << 16)
            if chunk:
                piped.extend(chunk)
            else:
                out_open = False
        if master in ready or evt_r in ready:
            drain_master()
            look_for_requests()
        if evt_r in ready:
            code = os.read(evt_r, 1)
            if code:
                events.append(code.decode() + ("1" if echo_now() else "0"))
                if pending is not None and not pending["done"]:
                    if code == b"D":
                        pending["drained"] = True
                        if pending["when"] in ("window", "split"):
                            write_piece(pending, 0)
                    elif code == b"S":
                        # the first attribute change after the transmission; a library that
                        # does not wait for the transmission gets its answer here as well
                        write_piece(pending, 1)
                    if pending["done"]:
                        pending = None
                        look_for_requests()
                os.write(ack_w, b"g")
        if res_r in ready:
            chunk = os.read(res_r, 1 << 16)
            if chunk:
                resbuf.extend(chunk)
            else:
                res_open = False
        if not ready and pending is not None and not pending["done"]:
            # no termios call follows the request: the terminal answers anyway
            write_piece(pending, 2)
            if pending["done"]:
                pending = None
                look_for_requests()
        if not res_open:
            # the child is done: what it wrote is in the master's queue
            try:
                os.waitpid(pid, 0)
            except ChildProcessError:
                pass
            pid = None
            drain_master()
            while out_open:
                chunk = os.read(out_r, 1 << 16)
                if not chunk:
                    out_open = False
                piped.extend(chunk)
            break
    if pid is not None:
        try:
            os.kill(pid, signal.SIGKILL)
            os.waitpid(pid, 0)
        except (ProcessLookupError, ChildProcessError):
            pass
    for fd in (master, slave, evt_r, ack_w, res_r) + ((out_r,) if redirected else ()):
        try:
            os.close(fd)
        except OSError:
            pass
    if infra:
        return {"infra": infra, "stream": list(stream[-400:])}
    try:
        res = json.loads(resbuf.decode())
    except ValueError:
        return {"infra": "no result from the child process", "stream": list(stream[-400:])}
    screen, reqs = split_requests(bytes(stream))
    for ex in exchanges:
        ex.pop("units", None)
        ex.pop("done", None)
    for ex, (pos, req) in zip(exchanges, reqs):
        ex["pos"] = pos
        ex["cpos"] = len(screen[:pos].decode("utf-8", "replace"))   # offset in characters
        ex["request"] = list(req)
    res["n_requests_in_stream"] = len(reqs)
    res["exchanges"] = exchanges
    res["events"] = "".join(events)
    if redirected:
        # what the TERMINAL received (nothing but the requests, if the property holds) apart from
        # what standard output -- the pipe -- received
        res["term"] = screen.decode("utf-8", "replace")
        screen = bytes(piped)
    try:
        res["out"] = screen.decode("utf-8")
    except UnicodeDecodeError:
        res["out"] = screen.decode("utf-8", "replace")
        res["undecodable"] = True
    res["stream_head"] = bytes(stream[:1500]).decode("utf-8", "replace")
    return res


if __name__ == "__main__":
    cases = json.loads(sys.stdin.read())
    results = []
    for c in cases:
        try:
            results.append(play(c))
        except Exception as e:
            results.append({"infra": f"{type(e).__name__}: {e} " + traceback.format_exc()[-500:]})
    sys.stdout.write(json.dumps(results))
    sys.stdout.flush()
