"""C20 implementation driver: runs set/unset histories on real subclass forests of
KittyImage / ITerm2Image and reports, after every operation, the value every class and
instance sees for every setting, plus behavioural confirmations (framing of an actual
render, instantiation under forced support).

Histories may contain RENDER operations ("s": "rd"): an instance -- whose source may be an
animated GIF / APNG file, a PIL image opened from such a file, a static file or a static
PIL image -- is rendered through str() / format() (with or without a per-call method) or
as one frame of an ImageIterator; the output is decoded into the method whose format was
produced (0 LINES, 1 WHOLE, 2 ANIM = ONE transmission whose payload is the whole animated
file) and whether the "data size above the maximum for native animation" warning was
issued.  The animated files are written to a temporary directory removed at exit.

Set operations carry the Python VALUE to hand to the setter as a structured description
("val": {"k": "none" | "str" | "int" | "bool" | "float" | "bytes" | "tuple" | "list" | "sized" |
"obj", ...}, see build_val) -- any value of the universe of model/SettingsVal.v, valid or not;
operations without "val" use the older integer coding (decode).  The outcome of an operation
is reported by KIND: 0 accepted, 1 TypeError, 2 ValueError, 3 AttributeError, 4 any other
exception.

Class HIERARCHIES ("hier": [{"k": kind, "b": [numbers of the bases]}, ...], creation order):
the library's own base classes ("base" BaseImage, "gfx" GraphicsImage, "text" TextImage,
"block" BlockImage), the style class ("root": KittyImage / ITerm2Image), image classes
created with type(name, bases, {}) through the library's metaclass ("img": mix-ins derived
from the base classes that are not style classes, style classes composed of a style base and
mix-ins listed before or after it, diamonds) and plain object mix-ins ("obj").  Operations
may target the library's base classes themselves; these are process-global, so the setting
attributes of all library classes are put back to their import-time state in a finally
block and the restoration is VERIFIED ("restored"; "clean_start" at the start of a case).
Every class's real __mro__ is reported (as class numbers; [] when Python refuses to create
the class).  A class the setting does not exist on reads ABSENT (-7).  Cases without "hier"
use the older coding ("par": single-inheritance forest below the style class)."""
import implenv
from implenv import tests
import atexit
import io
import os
import random
import re
import shutil
import tempfile
import warnings
from base64 import standard_b64decode

from PIL import Image
from term_image.exceptions import TermImageUserWarning
from term_image.image import (
    BaseImage,
    BlockImage,
    GraphicsImage,
    ImageIterator,
    ITerm2Image,
    KittyImage,
    TextImage,
)
from term_image.image.common import ImageMeta
from term_image.image.iterm2 import ITerm2ImageMeta

tests.set_cell_size((10, 20))


def cell_size():
    from term_image.utils import get_cell_size
    return get_cell_size()


IMG = Image.new("RGB", (4, 4), (10, 20, 30))
METHODS = ["lines", "whole", "anim"]
SETTINGS = {"kitty": ["rm", "fs"], "iterm2": ["rm", "fs", "jq", "rff", "nam"]}


ITERM2_TX = re.compile(r"\x1b\]1337;File=([^:]*):([A-Za-z0-9+/=]*)\x1b\\")
_FILES = {}


def source_files():
    """Deterministic animated / static sources on disk: {"g": gif, "n": apng, "s": png} ->
    (path, bytes).  "q" (a PIL image opened from the GIF) shares the GIF."""
    if not _FILES:
        d = tempfile.mkdtemp(prefix="c20_src_")
        atexit.register(shutil.rmtree, d, ignore_errors=True)
        rng = random.Random(20)
        frames = [Image.frombytes("L", (8, 8), bytes(rng.randrange(256) for _ in range(64)))
                  for _ in range(3)]
        g = os.path.join(d, "a.gif")
        frames[0].save(g, save_all=True, append_images=frames[1:], duration=100, loop=0)
        n = os.path.join(d, "a.png")
        rgb = [f.convert("RGB") for f in frames]
        rgb[0].save(n, save_all=True, append_images=rgb[1:], duration=100, loop=0)
        st = os.path.join(d, "s.png")
        rgb[1].save(st)
        big = os.path.join(d, "b.png")  # a static file LARGER than small renders (40 x 30 pixels)
        Image.frombytes("RGB", (40, 30), bytes((7 * i) % 256 for i in range(3600))).save(big)
        for key, path in (("g", g), ("n", n), ("s", st), ("b", big)):
            with open(path, "rb") as f:
                _FILES[key] = (path, f.read())
        _FILES["q"] = _FILES["g"]
    return _FILES


def src_info():
    f = source_files()
    return {key: {"animated": int(key not in "sb"), "size": len(f[key][1])} for key in f}


def used_method(out, root, data):
    """Which method's output format is this?  0 LINES, 1 WHOLE, 2 ANIM; negative = none."""
    if root == "kitty":
        n = out.count("f=")
        return 0 if n == 2 else (1 if n == 1 else -10 - n)
    tx = ITERM2_TX.findall(out)
    if len(tx) == 2 and all(";height=1;" in ctl for ctl, _ in tx):
        return 0
    if len(tx) != 1:
        return -10 - len(tx)
    payload = standard_b64decode(tx[0][1])
    try:
        with Image.open(io.BytesIO(payload)) as im:
            nframes = getattr(im, "n_frames", 1)
    except Exception:
        return -3
    if nframes == 1:
        return 1  # a single-frame image
    return 2 if payload == data else -2  # the whole animated file, untouched


KITTY_ANY = re.compile(r"\x1b_G([^;\x1b]*)(?:;([^\x1b]*))?\x1b\\")


def payload_rows(out, root, data):
    """What a render TRANSMITS: [pixel width, pixel height, verbatim] of every image in it, in
    order, flattened.  iterm2: every payload is decoded with PIL (its pixel size) and compared
    with the source file's bytes (verbatim).  kitty: the pixel columns / rows each transmission
    declares (s=, v=), verified against the length of its (decompressed) pixel data; a payload
    that cannot be decoded reads [-1, -1, 0]."""
    rows = []
    if root == "kitty":
        import zlib

        txs = []
        for ctl, chunk in KITTY_ANY.findall(out):
            keys = dict(kv.split("=", 1) for kv in ctl.split(",") if "=" in kv)
            if "f" in keys:
                txs.append((keys, [chunk]))
            elif txs and set(keys) <= {"m"}:
                txs[-1][1].append(chunk)
        for keys, chunks in txs:
            try:
                raw = standard_b64decode("".join(chunks))
                if keys.get("o") == "z":
                    raw = zlib.decompress(raw)
                w, h = int(keys["s"]), int(keys["v"])
                ok = len(raw) == w * h * int(keys["f"]) // 8
            except Exception:
                ok = False
            rows += [w, h, 0] if ok else [-1, -1, 0]
        return rows
    for _, b64 in ITERM2_TX.findall(out):
        payload = standard_b64decode(b64)
        try:
            with Image.open(io.BytesIO(payload)) as im:
                im.load()
                rows += [im.size[0], im.size[1], int(bool(data) and payload == data)]
        except Exception:
            rows += [-1, -1, 0]
    return rows


def do_render(inst, root, o, data, geo=False):
    """[method used, warning issued] of one render operation; with [geo]: [warning issued,
    pixel width, pixel height, verbatim, ...] (what was transmitted, see payload_rows)."""
    m = o.get("m")
    spec = "" if m is None else "+" + "LWA"[m]
    with warnings.catch_warnings(record=True) as caught:
        warnings.simplefilter("always")
        try:
            if o.get("f"):
                it = ImageIterator(inst, 1, "1.1" + spec, False)
                try:
                    out = next(it)
                finally:
                    it.close()
            elif m is None and o.get("pres", 0) % 2 == 0:
                out = str(inst)
            else:
                out = format(inst, ["", "1.1", "2.2", ""][o.get("pres", 0) % 4] + spec)
        except Exception as e:
            return [-9, 0, type(e).__name__]
    warned = [w for w in caught if issubclass(w.category, TermImageUserWarning)
              and "native animation" in str(w.message)]
    if geo:
        return [int(bool(warned))] + payload_rows(out, root, data)
    return [used_method(out, root, data), int(bool(warned))]


KITTY_TX = re.compile(r"\x1b_G[^;\x1b]*;")


class FrameLog(io.StringIO):
    """A stdout that remembers every write() separately: draw() prints every frame of an
    animation with ONE write."""

    def __init__(self):
        super().__init__()
        self.chunks = []

    def write(self, s):
        self.chunks.append(s)
        return super().write(s)


def has_transmission(chunk, root):
    if root == "kitty":
        return any("a=T" in ctl for ctl in KITTY_TX.findall(chunk))
    return bool(ITERM2_TX.search(chunk))


def draw_frames(inst, root, animate, style):
    """The separately written pieces of draw()'s output that transmit image data: one per
    rendered frame.  No real time passes (sleep is a no-op while drawing)."""
    import contextlib
    import time

    log = FrameLog()
    real_sleep = time.sleep
    time.sleep = lambda s: None
    try:
        with contextlib.redirect_stdout(log):
            inst.draw(animate=animate, repeat=1, cached=False, **style)
    finally:
        time.sleep = real_sleep
    return [c for c in log.chunks if has_transmission(c, root)]


def do_route(inst, root, o, data):
    """A render REQUEST by a given route ("fmt": format(), "still": draw(animate=False),
    "anim": draw(animate=True), "iter": all frames of an ImageIterator): one
    [method used, warning issued] row per rendered frame (the classifier of single renders,
    used_method, applied to every frame)."""
    m = o.get("m")
    route = o["route"]
    others = o.get("others", {})
    style = {} if m is None else {"method": METHODS[m] if o.get("pres", 0) % 2 else METHODS[m].upper()}
    style.update({{"z": "z_index", "mix": "mix", "c": "compress"}[k]: (bool(v) if k == "mix" else v)
                  for k, v in others.items()})
    spec = ("" if m is None else "+" + "LWA"[m])
    if others:
        spec = (spec or "+") + "".join(
            {"z": "z%d", "mix": "m%d", "c": "c%d"}[k] % v for k, v in sorted(others.items(), reverse=True))
    with warnings.catch_warnings(record=True) as caught:
        warnings.simplefilter("always")
        try:
            if route == "fmt":
                frames = [format(inst, ["", "1.1", "2.2", ""][o.get("pres", 0) % 4] + spec)]
            elif route in ("still", "anim"):
                frames = draw_frames(inst, root, route == "anim", style)
            else:
                it = ImageIterator(inst, 1, "1.1" + spec, False)
                try:
                    frames = list(it)
                finally:
                    it.close()
        except Exception as e:
            return [[-9, 0, type(e).__name__ + ": " + str(e)[:80]]]
    warned = [w for w in caught if issubclass(w.category, TermImageUserWarning)
              and "native animation" in str(w.message)]
    rows = [[used_method(f, root, data), 0] for f in frames]
    if rows and warned:
        rows[0][1] = 1
    return rows


class Falsy:
    """An object of a user class whose truth value is False."""

    def __bool__(self):
        return False

    def __repr__(self):
        return "<falsy object>"


class Truthy:
    def __repr__(self):
        return "<truthy object>"


def build_val(d):
    """The Python value described by [d] (the universe of model/SettingsVal.v)."""
    k = d["k"]
    if k == "none":
        return None
    if k == "str":
        return d["s"]
    if k == "int":
        return int(d["z"])
    if k == "bool":
        return bool(d["b"])
    if k == "float":
        return float(d["r"])
    if k == "bytes":
        return d["s"].encode("latin-1")
    if k == "tuple":
        return tuple(build_val(x) for x in d["l"])
    if k == "list":
        return [build_val(x) for x in d["l"]]
    if k == "sized":
        n = d["n"]
        return {"dict": lambda: {i: i for i in range(n)}, "set": lambda: set(range(n)),
                "frozenset": lambda: frozenset(range(n)), "range": lambda: range(n),
                "bytearray": lambda: bytearray(n)}[d["t"]]()
    if k == "obj":
        v = {"custom": Truthy() if d["t"] else Falsy(), "complex": 1j if d["t"] else 0j,
             "notimpl": NotImplemented, "ellipsis": Ellipsis, "type": int}[d["w"]]
        assert bool(v) == bool(d["t"])
        return v
    raise ValueError(d)


def lower_probe():
    """Code points outside A-Z whose str.lower() differs from them although it consists only of
    letters of the render-method names (model/SettingsVal.v [lower_cp] leaves every code point
    outside A-Z alone; that is harmless for membership in the names unless this list is
    non-empty)."""
    letters = set("lineswhoam")
    bad = []
    for c in range(0x110000):
        if 65 <= c <= 90:
            if chr(c).lower() != chr(c + 32):
                bad.append(c)
            continue
        low = chr(c).lower()
        if low != chr(c) and set(low) <= letters:
            bad.append(c)
    return bad


ABSENT = -7
_MISSING = object()
LIB_CLASSES = (BaseImage, GraphicsImage, TextImage, BlockImage, KittyImage, ITerm2Image)
SETTING_ATTRS = ("_forced_support", "_render_method", "_jpeg_quality", "_read_from_file")


def lib_state():
    """The setting attributes in the library classes' OWN dictionaries (+ the global limit)."""
    st = {(c.__name__, a): vars(c).get(a, _MISSING) for c in LIB_CLASSES for a in SETTING_ATTRS}
    st["limit"] = ITerm2ImageMeta._native_anim_max_bytes
    return st


PRISTINE = lib_state()  # import-time state of the process-global classes


def restore_lib():
    """Put every library class back to its import-time state; 1 if that succeeded."""
    for c in LIB_CLASSES:
        for a in SETTING_ATTRS:
            want = PRISTINE[(c.__name__, a)]
            if want is _MISSING:
                if a in vars(c):
                    delattr(c, a)
            elif vars(c).get(a, _MISSING) is not want:
                setattr(c, a, want)
    ITerm2ImageMeta._native_anim_max_bytes = PRISTINE["limit"]
    return int(lib_state() == PRISTINE)


def build_hier(case, Root):
    """The classes of a hierarchy case: (classes ([None]: creation refused), real MROs as class
    numbers)."""
    import types

    lib = {"base": BaseImage, "gfx": GraphicsImage, "text": TextImage, "block": BlockImage, "root": Root}
    classes = []
    for c, e in enumerate(case["hier"]):
        if e["k"] in lib:
            classes.append(lib[e["k"]])
            continue
        bases = tuple(classes[b] for b in e["b"])
        try:
            if any(b is None for b in bases):
                raise TypeError("base not created")
            if e["k"] == "obj":
                classes.append(type(f"O{c}", bases, {}))
                continue
            if c in case.get("meta", ()):
                # a metaclass DERIVED from the one Python would pick: the settings must behave the same
                winner = types.prepare_class(f"C{c}", bases)[0]
                classes.append(type(f"M{c}", (winner,), {})(f"C{c}", bases, {}))
            else:
                classes.append(type(f"C{c}", bases, {}))
        except TypeError:
            classes.append(None)
    index = {id(cl): i for i, cl in enumerate(classes) if cl is not None}
    mros = [[] if cl is None else [index[id(x)] for x in cl.__mro__ if id(x) in index] for cl in classes]
    return classes, mros


def reset_root(Root):
    Root._render_method = Root._default_render_method
    for a in ("_forced_support", "_jpeg_quality", "_read_from_file"):
        if a in vars(Root):
            delattr(Root, a)
    ITerm2ImageMeta._native_anim_max_bytes = 2 * 2**20
    Root._supported = True
    if Root is ITerm2Image:
        Root._TERM = "wezterm"
    else:
        Root._TERM, Root._TERM_VERSION, Root._KITTY_VERSION = "kitty", "0.30.0", (0, 30, 0)


def decode(s, v, pres):
    if s == "rm":
        if 0 <= v <= 2:
            m = METHODS[v]
            return [m, m.upper(), m.capitalize()][pres % 3]
        return {7: "foo", 8: 123, 9: ""}.get(v, "bar")
    if s in ("fs", "rff"):
        return {0: False, 1: True}.get(v, [2, "x", None][pres % 3])
    if s == "jq":
        return "x" if v == 1000 else (5.0 if v == 1001 else v)
    if s == "nam":
        return "x" if v == -1 else v


def as_int(v):
    """ints (and bools, which ARE ints: True == 1) as themselves; anything else is not a value
    the property allows to be read: a sentinel no model value equals"""
    return int(v) if isinstance(v, int) else -99999


def as_bool(v):
    return int(v) if isinstance(v, bool) else -99999


def read(s, obj):
    if obj is None:
        return ABSENT  # a class Python refused to create
    if isinstance(obj, type):
        # does the setting exist on this class?  (decided from the library's own structure)
        if not isinstance(obj, ImageMeta if s in ("fs", "rm") else ITerm2ImageMeta):
            return ABSENT
        if s == "rm" and obj._render_method is None:
            return ABSENT  # a class without render methods
    try:
        if s == "rm":
            return METHODS.index(obj._render_method.lower())
        if s == "fs":
            return as_bool(obj.forced_support)
        if s == "jq":
            return as_int(obj.jpeg_quality)
        if s == "rff":
            return as_bool(obj.read_from_file)
        if s == "nam":
            return as_int(obj.native_anim_max_bytes)
    except Exception:
        return -99998  # the stored value cannot even be read the way a render reads it


def framing(out, root):
    n = out.count("f=") if root == "kitty" else out.count("File=")
    return 0 if n == 2 else (1 if n == 1 else -n)


def apply(s, op, target, val):
    """Returns 0 (accepted) / 1 TypeError / 2 ValueError / 3 AttributeError / 4 any other
    exception."""
    try:
        if s == "rm":
            if op in ("cs", "is"):
                target.set_render_method(val)
            elif val:  # two spellings of unset
                target.set_render_method()
            else:
                target.set_render_method(None)
        else:
            name = {"fs": "forced_support", "jq": "jpeg_quality", "rff": "read_from_file",
                    "nam": "native_anim_max_bytes"}[s]
            if op in ("cs", "is"):
                setattr(target, name, val)
            else:
                delattr(target, name)
    except TypeError:
        return 1
    except ValueError:
        return 2
    except AttributeError:
        return 3
    except Exception:
        return 4
    return 0


def run_case(case):
    if case.get("probe"):
        return {"src": src_info(), "lower_bad": lower_probe()}
    root = case["root"]
    Root = {"kitty": KittyImage, "iterm2": ITerm2Image}[root]
    clean_start = int(lib_state() == PRISTINE)
    restore_lib()
    reset_root(Root)
    opened, insts = [], []
    mros = None
    try:
        classes = [Root]
        for c, p in enumerate(case.get("par", ())):
            if c == 0:
                continue
            meta = type(classes[p])
            if c in case.get("meta", ()):
                # a style subclass may need a metaclass DERIVED from the style's metaclass (to mix
                # in another metaclass'd base, a registry, ...): the settings must behave the same
                meta = type(f"M{c}", (meta,), {})
            classes.append(meta(f"C{c}", (classes[p],), {}))
        if "hier" in case:
            classes, mros = build_hier(case, Root)
        # the classes instances can be made of (all of them in a forest below the style class)
        instantiable = case.get("inst_ok", range(len(classes)))
        kinds = case.get("src") or ["p"] * len(case["icls"])
        insts, datas = [], []
        geo = case.get("geo")  # per instance: [columns, lines] of its render
        if geo and case.get("rff") is not None and root == "iterm2":
            Root.read_from_file = bool(case["rff"])
        for j, (c, kd) in enumerate(zip(case["icls"], kinds)):
            size = {"width": geo[j][0], "height": geo[j][1]} if geo else None
            if kd == "p":
                insts.append(classes[c](IMG, **(size or {"width": 2, "height": 2})))
                datas.append(b"")
                continue
            path, data = source_files()[kd]
            if kd == "q":
                pil = Image.open(path)
                opened.append(pil)
                insts.append(classes[c](pil, **(size or {"height": 2})))
            else:
                insts.append(classes[c].from_file(path, **(size or {"height": 2})))
            datas.append(data)
        settings = SETTINGS[root]
        renders = []

        def snapshot(s):
            return [read(s, c) for c in classes] + [read(s, i) for i in insts]

        obs = {s: [] for s in settings}
        interference, framing_bad = [], []
        cur = {s: snapshot(s) for s in settings}
        for k, o in enumerate(case["ops"]):
            s = o["s"]
            if s == "rd":
                if "route" in o:
                    renders.extend(do_route(insts[o["t"]], root, o, datas[o["t"]]))
                else:
                    renders.append(do_render(insts[o["t"]], root, o, datas[o["t"]], bool(geo)))
                for s2 in settings:  # a render changes no setting
                    snap = snapshot(s2)
                    if snap != cur[s2]:
                        interference.append([k, s2])
                    cur[s2] = snap
                continue
            target = classes[o["t"]] if o["op"] in ("cs", "cu") else insts[o["t"]]
            if o["op"] not in ("cs", "is"):
                val = o.get("pres", 0) % 2
            elif "val" in o:
                val = build_val(o["val"])
            else:
                val = decode(s, o["v"], o.get("pres", 0))
            code = apply(s, o["op"], target, val)
            for s2 in settings:
                snap = snapshot(s2)
                if s2 == s:
                    obs[s].append([code] + snap)
                elif snap != cur[s2]:
                    interference.append([k, s2])
                cur[s2] = snap
            # behavioural confirmation: the framing of an actual render of every instance (renders
            # two lines high; with other geometries the payloads of the renders are judged instead)
            for j, inst in enumerate(insts if not geo else ()):
                want = cur["rm"][len(classes) + j]
                with warnings.catch_warnings():
                    warnings.simplefilter("ignore")
                    try:
                        got = framing(str(inst), root)
                    except Exception:
                        got = -99
                if (got == 0) != (want == 0):
                    framing_bad.append([k, j, want, got])
        final = {}
        try:
            # classes' effective method as seen by a fresh instance; per-call override wins
            fresh, override = [], []
            for ci, C in enumerate(classes):
                if ci not in instantiable:
                    fresh.append(1)
                    continue
                inst = C(IMG, width=2, height=2)
                got = framing(str(inst), root)
                fresh.append(int((got == 0) == (cur["rm"][ci] == 0)))
                for m, letter in zip(range(len(Root._render_methods)), "LWA"):
                    got = framing(format(inst, "+" + letter), root)
                    override.append(int((got == 0) == (m == 0)))
                inst.set_render_method("whole")
                override.append(int(framing(format(inst, "+L"), root) == 0))
                override.append(int(framing(inst._renderer(inst._render_image, None, method="LINES"), root) == 0))
            final["fresh_ok"] = fresh
            final["override_ok"] = override
            # forced support decides instantiation when the style is unsupported
            Root._supported = False
            inst_ok = []
            for ci, C in enumerate(classes):
                if ci not in instantiable:
                    inst_ok.append(1)
                    continue
                try:
                    C(IMG)
                    ok = 1
                except Exception as e:
                    ok = 0 if type(e).__name__ == "StyleError" else -1
                inst_ok.append(int(ok == cur["fs"][ci]))
            final["instantiation_ok"] = inst_ok
        except Exception as e:  # a stored value that cannot be rendered with / instantiated under
            final = {"fresh_ok": [0], "override_ok": [0], "instantiation_ok": [0],
                     "error": type(e).__name__}
        return {"obs": obs, "interference": interference, "framing_bad": framing_bad, "final": final,
                "renders": renders, "srcs": [[int(i.is_animated), len(d), i.n_frames] for i, d in zip(insts, datas)],
                "ginfo": [list(i.rendered_size) + list(cell_size()) + list(i.original_size) + [int(kd != "p")]
                          for i, kd in zip(insts, kinds)] if geo else None,
                "rff": [int(i.read_from_file) for i in insts] if geo and root == "iterm2" else None,
                "mros": mros, "clean_start": clean_start}
    finally:
        for inst in insts:
            try:
                inst.close()
            except Exception:
                pass
        for pil in opened:
            pil.close()
        RESTORED.append(restore_lib())
        reset_root(Root)


RESTORED = []


def run_checked(case):
    del RESTORED[:]
    r = run_case(case)
    if "obs" in r:
        r["restored"] = int(RESTORED == [1])
    return r


if __name__ == "__main__":
    implenv.write_results([run_checked(c) for c in implenv.read_cases()])
