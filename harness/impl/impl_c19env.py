"""C19 environment driver: format specifiers interpreted in every process environment.

The property quantifies over the process in which format() is called; the library is made
for processes whose standard streams are on a terminal.  impl_c19.py runs with every stream
on a pipe.  This driver runs the SAME observations in a CHILD PROCESS whose standard streams
are, per job, any combination of {pipe, pseudo-terminal}:

  job = {"term": [cols, lines], "env": [in_tty, out_tty, err_tty] (0/1 each),
         "batches": [{"style": s, "specs": [...]}, ...]}      (one child process per job)

  * every stream with bit 1 is the slave side of one pty whose window size is set to
    `term` (TIOCSWINSZ; pixel size = 10x20 per cell); the others are pipes;
  * the child is a session of its own (no inherited controlling terminal); COLUMNS/LINES
    are set to `term` as well, so that every way of asking the environment for the terminal
    size gives the same answer;
  * the library's OWN get_terminal_size() is in force in the child (the test-suite stub
    that implenv installs is undone for this one function): with a terminal it reads the
    pty's window size through utils._tty_fd, without one it falls back to COLUMNS/LINES;
  * job in / results out over two extra pipes (never through the standard streams).

Per specifier and per route (0 format(image, spec); 1 next(ImageIterator(animated, 1, spec));
2 str(image), once per job, specifier ignored) the child reports

  k      0 accepted, 1 ValueError, 2 StyleError, 9 anything else
  rs     [columns, lines] of image.rendered_size
  geom   MEASURED on the returned string: [number of lines, common line width (-1 ragged),
         index of the first render line, blanks left of the render] — the string must be
         the primary render placed in a rectangle of blanks (else width/top/left are -1).
         The primary render is obtained through the explicit-parameter route below.
  x      the parameters the driver derived from the DOCUMENTATION (impl_c19.doc_params, a
         hand scanner; Coq compares them with FmtSpec.doc_interp):
         [h 0/1/2, pad_width, v 0/1/2, pad_height]
  same   1 the string equals the explicit-parameter route's
             image._format_render(image._renderer(image._render_image, alpha, **style_args),
                                  *image._check_formatting(h_align, pad_width, v_align, pad_height))
           (what draw() prints for those parameters, minus the terminal-width guard and
           the trailing reset), 0 it does not, 2 the explicit route raised

Result per job: {"seen": {"isatty": [..], "active": bool, "size": [c, l]},
"batches": [{"obs": [...], "str": obs, "final": [...effects on class / public state...]}]}
or {"error": text}.
"""
import fcntl
import json
import os
import pty
import select
import struct
import subprocess
import sys
import termios

HERE = os.path.dirname(os.path.abspath(__file__))

# ------------------------------------------------------------------------------ parent


def run_job(job, timeout=600):
    cols, lines = job["term"]
    bits = [int(bool(b)) for b in job["env"]]
    master = slave = None
    if any(bits):
        master, slave = pty.openpty()
        fcntl.ioctl(slave, termios.TIOCSWINSZ, struct.pack("HHHH", lines, cols, cols * 10, lines * 20))
    jr, jw = os.pipe()
    rr, rw = os.pipe()
    env = dict(os.environ, COLUMNS=str(cols), LINES=str(lines), PYTHONWARNINGS="ignore")
    env.pop("TERM_PROGRAM", None)
    std = [slave if b else subprocess.PIPE for b in bits]
    try:
        proc = subprocess.Popen(
            [sys.executable, os.path.abspath(__file__), "--child", str(jr), str(rw)],
            stdin=std[0], stdout=std[1], stderr=std[2], pass_fds=(jr, rw), env=env,
            start_new_session=True, cwd="/")
    finally:
        os.close(jr)
        os.close(rw)
        if slave is not None:
            os.close(slave)
    if proc.stdin is not None:
        proc.stdin.close()  # a pipe at end-of-file, like `cmd < /dev/null`
    payload = json.dumps(job).encode()
    chunks = {rr: []}
    other = {}
    if master is not None:
        other[master] = []
    for f in (proc.stdout, proc.stderr):
        if f is not None:
            other[f.fileno()] = []
    os.set_blocking(jw, False)
    import time
    deadline = time.monotonic() + timeout
    rfds = [rr] + list(other)
    wfds = [jw]
    while rr in rfds:
        if time.monotonic() > deadline:
            proc.kill()
            break
        r, w, _ = select.select(rfds, wfds, [], 1.0)
        for fd in w:
            try:
                n = os.write(fd, payload[:65536])
                payload = payload[n:]
            except BlockingIOError:
                continue
            except OSError:
                payload = b""
            if not payload:
                os.close(jw)
                wfds = []
        for fd in r:
            try:
                data = os.read(fd, 1 << 16)
            except OSError:  # EIO: the slave side of the pty is closed
                data = b""
            if not data:
                rfds.remove(fd)
            else:
                (chunks if fd == rr else other)[fd].append(data)
    if wfds:
        os.close(jw)
    try:
        proc.wait(timeout=30)
    except subprocess.TimeoutExpired:
        proc.kill()
        proc.wait()
    os.close(rr)
    noise = b"".join(b"".join(v) for v in other.values())
    for f in (proc.stdout, proc.stderr):
        if f is not None:
            f.close()
    if master is not None:
        os.close(master)
    raw = b"".join(chunks[rr])
    try:
        res = json.loads(raw)
    except ValueError:
        return {"error": f"child rc={proc.returncode}, no result; streams: {noise[-1500:].decode(errors='replace')}"}
    res["noise"] = len(noise)  # bytes the child wrote to its standard streams (expected: 0)
    return res


# ------------------------------------------------------------------------------ child


def measure(out, core, rc, rl):
    """Where does the primary render `core` (rl lines, each rc columns wide) sit in `out`?"""
    ol, cl = out.split("\n"), core.split("\n")
    if len(cl) != rl:
        return [len(ol), -1, -1, -1]
    for t in range(len(ol) - rl + 1):
        i = ol[t].find(cl[0])
        if i < 0 or ol[t][:i].strip(" "):
            continue
        widths, ok = [], True
        for k, line in enumerate(ol):
            if t <= k < t + rl:
                c = cl[k - t]
                rest = line[i + len(c):]
                if line[:i].strip(" ") or not line.startswith(c, i) or rest.strip(" "):
                    ok = False
                    break
                widths.append(i + rc + len(rest))
            else:
                if line.strip(" "):
                    ok = False
                    break
                widths.append(len(line))
        if ok:
            return [len(ol), widths[0] if len(set(widths)) == 1 else -1, t, i]
    return [len(ol), -1, -1, -1]


def child(jfd, rfd):
    import warnings

    warnings.simplefilter("ignore")
    job = json.loads(_read_all(jfd))
    out = os.fdopen(rfd, "w")
    try:
        res = child_run(job)
    except BaseException as e:  # noqa: BLE001
        import traceback

        res = {"error": "child: " + "".join(traceback.format_exception(type(e), e, e.__traceback__))[-2500:]}
    out.write(json.dumps(res))
    out.close()


def _read_all(fd):
    buf = []
    while True:
        d = os.read(fd, 1 << 16)
        if not d:
            os.close(fd)
            return b"".join(buf)
        buf.append(d)


def child_run(job):
    REPO = os.environ.get("VERIF_REPO", "/repo")
    sys.path.insert(0, HERE)
    sys.path.insert(0, REPO)
    sys.path.insert(0, REPO + "/src")
    import term_image.utils as U  # before the test-suite stubs are installed

    real_size = U.get_terminal_size
    import impl_c19 as D  # implenv (stubs: cell size, colours, terminal name), Probe, doc_params
    import term_image
    import term_image.image.common as common
    from term_image.exceptions import StyleError
    from term_image.image import ImageIterator

    term_image.disable_queries()  # nothing answers at the other end of the pty
    for name, mod in list(sys.modules.items()):
        if name.startswith("term_image") and hasattr(mod, "get_terminal_size"):
            mod.get_terminal_size = real_size
    D.TERM[:] = job["term"]
    seen = {"isatty": [int(s.isatty()) for s in (sys.stdin, sys.stdout, sys.stderr)],
            "os_isatty": [int(os.isatty(i)) for i in (0, 1, 2)],
            "active": int(U._tty_fd != -1), "size": list(real_size())}

    return {"seen": seen, "batches": [batch_run(b["style"], b["specs"], D, common, StyleError, ImageIterator)
                                      for b in job["batches"]]}


def batch_run(style, specs, D, common, StyleError, ImageIterator):
    import io

    from PIL import Image

    pr = D.Probe(style)
    im = pr.im
    frames = [Image.new("RGBA", (2, 2), (10, 20, 30, 255)), Image.new("RGBA", (2, 2), (200, 100, 50, 255))]
    buf = io.BytesIO()
    frames[0].save(buf, "GIF", save_all=True, append_images=frames[1:], duration=100)
    buf.seek(0)
    anim = pr.C(Image.open(buf), width=2)

    def kind(fn):
        try:
            return 0, fn()
        except StyleError:
            return 2, None
        except ValueError:
            return 1, None
        except Exception as e:  # noqa: BLE001
            return 9, type(e).__name__ + ": " + str(e)[:160]

    def explicit(image, spec, frame):
        """(params, primary render, formatted render) by the explicit-parameter route."""
        p = D.doc_params(spec, style)
        if p is None:
            return None
        kwargs, enc = p
        try:
            fmt = image._check_formatting(kwargs["h_align"], kwargs["pad_width"], kwargs["v_align"], kwargs["pad_height"])
            sargs = image._check_style_args({k: kwargs[k] for k in ("method", "z_index", "mix", "compress") if k in kwargs})
            alpha = kwargs.get("alpha", common._ALPHA_THRESHOLD)
            extra = {"frame": True} if frame else {}
            if frame:
                image._seek_position = 0
            core = image._renderer(image._render_image, alpha, **extra, **sargs)
            return enc[:4], core, image._format_render(core, *fmt)
        except Exception:  # noqa: BLE001
            return enc[:4], None, None

    def route(fn, image, spec, frame):
        k, got = kind(fn)
        o = {"k": k, "rs": list(image.rendered_size)}
        if k == 9:
            o["exc"] = got
        ex = explicit(image, spec, frame)
        if ex is None:
            o["x"], o["same"], o["geom"] = [], (2 if k == 0 else 1), []
            if k == 0:
                o["geom"] = [len(got.split("\n")), -1, -1, -1]
            return o
        o["x"] = ex[0]
        if ex[1] is None:
            o["same"], o["geom"] = 2, ([len(got.split("\n")), -1, -1, -1] if k == 0 else [])
            return o
        if k != 0:
            o["same"], o["geom"] = 0, []
            return o
        o["same"] = int(got == ex[2])
        o["geom"] = measure(got, ex[1], *o["rs"])
        return o

    def it_next(spec):
        it = ImageIterator(anim, 1, spec)
        try:
            return next(it)
        finally:
            it.close()

    obs = []
    for spec in specs:
        pr.rec.clear()
        o = {"f": route(lambda: format(im, spec), im, spec, False)}
        if o["f"]["k"] != 0 and (pr.rec or pr.snap() != pr.snap0):
            o["f"]["fx"] = pr.effects(pr.rec)
        o["i"] = route(lambda: it_next(spec), anim, spec, True)
        obs.append(o)
    # str(image): "renders the image with transparency enabled and without alignment": no padding at all
    s = route(lambda: str(im), im, "1.1", False)
    return {"obs": obs, "str": s, "final": pr.final_effects()}


if __name__ == "__main__":
    if len(sys.argv) == 4 and sys.argv[1] == "--child":
        child(int(sys.argv[2]), int(sys.argv[3]))
    else:
        from concurrent.futures import ThreadPoolExecutor

        jobs = json.loads(sys.stdin.read())
        par = int(os.environ.get("C19ENV_PAR", "1"))
        with ThreadPoolExecutor(max_workers=max(1, par)) as ex:
            results = list(ex.map(run_job, jobs))
        sys.stdout.write(json.dumps(results))
        sys.stdout.flush()
