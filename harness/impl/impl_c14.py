"""C14 implementation driver: terminal access is serialised across threads and processes.

Mode 1 (deterministic schedules, the correspondence).  The REAL `utils.lock_tty`,
`utils._process_start_wrapper` and `utils._process_run_wrapper` run on real threads, but

    utils._tty_lock   -> a traced re-entrant lock object "T" (class TLock)
    utils._rlock_type -> TLock        (mirrors `_rlock_type = type(_tty_lock)`)
    utils.mp_RLock    -> a factory returning traced lock objects "M", "M2", ... (class MLock)
    the wrapped originals of Process.start / Process.run -> stubs (a "child process" is a
      worker thread that begins, through the real `_process_run_wrapper`, when the stub
      start is executed)

Every simulated PROCESS has its own instance of the module `term_image.utils` (its own module
globals `_tty_lock`, `_queries_enabled`, ...; `lock_tty` and both wrappers of that instance are
the real code executed from the library's source): the root's is created afresh for the case, a
child's is created when the stub start runs — start method "spawn": a fresh instance (what a new
interpreter gets by importing the library), "fork": a fresh instance into which the parent's
module STATE at that moment is copied (a thread lock becomes a private copy, a multiprocessing
lock stays shared).  So a child that is handed nothing (or does not install what it is handed)
really runs on a private lock.  Schedule items >= 1000 are CONFIGURATION changes performed in a
process (1000 + 8*process + 2*field + value; field 0: term_image.enable_queries() /
disable_queries(), 1: enable_win_size_swap() / disable_win_size_swap(), 2: set_query_timeout()),
executed by the scheduler on behalf of some thread of that process.

and every intercepted call (lock acquire / release, entry to and return from the body of a
`lock_tty`-decorated probe, the terminal round trip inside the body, the lock factory, the
stub start) PARKS the calling thread until a central scheduler grants it the step.  Exactly
one worker runs at a time, so a schedule (list of thread ids; id 0 = the scripted FIFO
terminal) determines the run.  A pick of a thread that is blocked (lock held by another
thread, reply not there yet, process not started, finished) is a no-op, as in the model.
Output: the (thread, event) trace.

Mode 2 (supporting evidence, {"mp": ...}): real threads and real fork / spawn child
processes call a `lock_tty`-decorated probe that stamps enter/exit times (CLOCK_MONOTONIC)
into shared memory; run by the plugin under a pty because the library only installs its
Process.start/run wrappers when it finds a terminal.
"""
import json
import os
import sys
import threading
import warnings

REPO = os.environ.get("VERIF_REPO", "/repo")
SRC = REPO + "/src"
for p in (REPO, SRC):
    while p in sys.path:
        sys.path.remove(p)
sys.path.insert(0, SRC)
warnings.simplefilter("ignore")

import term_image.utils as U  # noqa: E402

assert U.__file__.startswith(SRC), U.__file__

TERM = 0
# A granted worker parks again within microseconds; the timeout is only reached when the code
# under test blocks for real (e.g. on a lock that is not one of the traced ones).  Generous
# because checks run on loaded machines; after a first hang (the check fails anyway: it is
# reported as an error) the remaining cases of this process use a short one.
GRANT_TIMEOUT = 15.0
AFTER_HANG_TIMEOUT = 2.0


class Harness:
    def __init__(self, case):
        self.case = case
        self.workers = {}
        self.log = []
        self.reqs, self.reps = [], []
        self.locks = []
        self.by_ident = {}
        self.error = None
        self.abort = False
        self.xres = {}
        self.prologue = False

    def me(self):
        return self.by_ident[threading.get_ident()]

    def ev(self, w, *e):
        if e[0] == 12 and self.log and self.log[-1][0] == w.tid and self.log[-1][1][0] == 12:
            self.log[-1][1][1] += e[1]  # consecutive reads of one thread: one event
            return
        self.log.append([w.tid, list(e)])


class Abort(BaseException):
    """the run is over: unwinds a worker that is still parked (no thread is left behind)"""


class Worker:
    def __init__(self, h, tid, proc, prog):
        self.h, self.tid, self.proc, self.prog = h, tid, proc, prog
        self.go = threading.Semaphore(0)
        self.parked = threading.Event()
        self.at = None
        self.finished = False
        self.started = proc == 0
        self.nreq = 0
        self.thread = threading.Thread(target=self.main, daemon=True)

    def park(self, kind, obj=None):
        if self.h.abort:
            raise Abort()
        self.at = (kind, obj)
        self.parked.set()
        self.go.acquire()
        self.at = None
        if self.h.abort:
            raise Abort()

    def main(self):
        h = self.h
        h.by_ident[threading.get_ident()] = self
        try:
            self.park("idle")
            # (the main thread of a child process has been through the real run wrapper of the child's
            # module instance when the process came into being: see stub_start)
            self.run_program()
        except Abort:
            pass
        except BaseException as e:  # noqa: BLE001
            h.error = "worker %d: %s: %s" % (self.tid, type(e).__name__, e)
        self.finished = True
        self.parked.set()

    def run_program(self):
        h = self.h
        first = True
        for cmd in self.prog:
            if not first:
                self.park("idle")
            first = False
            if cmd[0] == "call":
                h.probe_of(self.proc)(cmd[1], bool(cmd[2]))
            elif cmd[0] == "xq":  # a REAL query function of the library (first, uncached call)
                h.xres[str(self.tid)] = repr(XQ[cmd[1]]())
            elif cmd[0] == "xs":  # urwid's event loop: the started screen's input reader
                h.xres[str(self.tid)] = bytes(h.screen.get_available_raw_input()).hex()
            elif cmd[0] == "xr":  # a synchronized reader that does not flush first
                r = U.read_tty_all()
                h.xres[str(self.tid)] = None if r is None else r.hex()
            else:
                h.mods[self.proc]._process_start_wrapper(h.procobj[cmd[1]])


class TracedLock:
    """Re-entrant (owner, count) lock; never blocks for real: the scheduler only grants an
    acquire when the lock is free or owned by the caller."""

    def __init__(self, h, code):
        self.h, self.code = h, code
        self.owner, self.count = None, 0
        h.locks.append(self)

    def can_acquire(self, tid):
        return self.owner is None or self.owner == tid

    def acquire(self, blocking=True, timeout=-1):
        w = self.h.me()
        w.park("acq", self)
        assert self.can_acquire(w.tid), "granted an acquire that must block"
        self.owner = w.tid
        self.count += 1
        self.h.ev(w, 1, self.code)
        return True

    def release(self):
        w = self.h.me()
        w.park("rel", self)
        if self.owner != w.tid:
            raise RuntimeError("cannot release un-acquired lock")
        self.count -= 1
        if self.count == 0:
            self.owner = None
        self.h.ev(w, 2, self.code)

    __enter__ = acquire

    def __exit__(self, *a):
        self.release()


class TLock(TracedLock):  # stands for threading.RLock
    pass


class MLock(TracedLock):  # stands for multiprocessing.RLock
    pass


class _ThreadLockMeta(type):
    def __instancecheck__(cls, obj):
        return isinstance(obj, (TLock, REAL_RLOCK_TYPE))


class ThreadLockType(metaclass=_ThreadLockMeta):
    """Stands for `_rlock_type = type(threading.RLock())`: true for the traced thread lock
    and for real thread RLocks (the cell-size lock, which is not traced)."""


REAL_RLOCK_TYPE = type(threading.RLock())


class ProcObj:
    """Stands for a multiprocessing.Process instance (the wrappers only set attributes)."""

    def __init__(self, child):
        self.child = child


# ------------------------------------------------------------------ one module instance per process

UTILS_PATH = os.path.join(SRC, "term_image", "utils.py")
PLAIN = (bool, int, float, str, bytes, tuple, type(None))
CONF_BASE = 1000


def fresh_utils():
    """a new instance of term_image.utils, executed from the library's source: what an
    interpreter gets by importing the library"""
    import importlib.util
    from multiprocessing import Process

    spec = importlib.util.spec_from_file_location("term_image.utils", UTILS_PATH)
    mod = importlib.util.module_from_spec(spec)
    saved = Process.start, Process.run
    try:
        spec.loader.exec_module(mod)
    finally:  # (with a controlling terminal the module wraps Process.start / run: not wanted here)
        Process.start, Process.run = saved
    return mod


def conf_functions(mod):
    """the configuration functions of the package, bound to that instance of utils"""
    import types

    import term_image as TI

    g = dict(TI.__dict__)
    g["utils"] = mod
    f = {n: types.FunctionType(getattr(TI, n).__code__, g, n) for n in (
        "enable_queries", "disable_queries", "enable_win_size_swap", "disable_win_size_swap", "set_query_timeout")}
    default = TI.DEFAULT_QUERY_TIMEOUT
    return {(0, 1): f["enable_queries"], (0, 0): f["disable_queries"],
            (1, 1): f["enable_win_size_swap"], (1, 0): f["disable_win_size_swap"],
            (2, 1): lambda: f["set_query_timeout"](0.25), (2, 0): lambda: f["set_query_timeout"](default)}


def lock_copier(h, proc):
    """os.fork() copies a thread lock (a private lock in the same state, one copy per lock object,
    whoever refers to it); a multiprocessing lock stays shared"""
    copies = {}

    def cp(v):
        if id(v) not in copies:
            lock = TLock(h, 100 + proc)
            lock.owner, lock.count = v.owner, v.count
            copies[id(v)] = lock
        return copies[id(v)]

    return cp


def fork_state(parent, child, cp):
    """os.fork(): the child's module state is a copy of the parent's at that moment"""
    for k, v in list(vars(parent).items()):
        if k.startswith("__") or k in ("_rlock_type", "mp_RLock"):
            continue
        if isinstance(v, TLock):
            setattr(child, k, cp(v))
        elif isinstance(v, MLock):
            setattr(child, k, v)
        elif isinstance(v, REAL_RLOCK_TYPE):
            setattr(child, k, threading.RLock())
        elif isinstance(v, list) and all(isinstance(x, PLAIN) for x in v):
            setattr(child, k, list(v))
        elif isinstance(v, PLAIN) or type(v).__module__.startswith("multiprocessing"):
            setattr(child, k, v)  # plain data is copied; shared memory (the cell-size Array) stays shared


def carried(obj, method, cp):
    """the process object as the child sees it: inherited (fork) or pickled (spawn) — a thread lock
    does not cross the process boundary (fork: a private copy; spawn: it cannot be pickled)"""
    out = ProcObj(obj.child)
    for k, v in vars(obj).items():
        if isinstance(v, TLock):
            if method != "fork":
                raise TypeError("cannot pickle '_thread.RLock' object (Process.start, start method %s)" % method)
            v = cp(v)
        setattr(out, k, v)
    return out


# ------------------------------------------------------------------ exchange scenarios
#
# The REAL get_terminal_name_version / get_fg_bg_colors / get_cell_size (and under them the
# real query_terminal / write_tty / read_tty) run against a pty whose master side is a
# scripted FIFO terminal living in the OS layer: `utils.os` / `utils.termios` are proxies
# that delegate to the real modules and, for the terminal's descriptor, (a) log what the
# calling thread does (write / read n bytes / TCSAFLUSH) and (b) answer a complete request
# synchronously, waiting until the whole reply sits in the input queue (FIONREAD), so that
# nothing depends on timing.


def x_replies():
    from term_image import _ctlseqs as C

    ESC = b"\x1b"
    return [
        (C.XTVERSION_b, ESC + b"P>|demoterm 1.2.3" + ESC + b"\\"),
        (C.TEXT_FG_QUERY_b, ESC + b"]10;rgb:ffff/8080/0000" + ESC + b"\\"),
        (C.TEXT_BG_QUERY_b, ESC + b"]11;rgb:0000/1111/2222" + ESC + b"\\"),
        (C.CELL_SIZE_PX_b, ESC + b"[6;20;10t"),
        (C.TEXT_AREA_SIZE_PX_b, ESC + b"[4;480;800t"),
        (C.DA1_b, ESC + b"[?62;c"),
    ], C.DA1_b


class ScriptedTerminal:
    def __init__(self, h):
        import fcntl
        import pty
        import struct
        import termios
        import tty

        self.h = h
        self.master, self.slave = pty.openpty()
        tty.setcbreak(self.slave)
        fcntl.ioctl(self.slave, termios.TIOCSWINSZ, struct.pack("HHHH", 24, 80, 0, 0))
        self.replies, self.da1 = x_replies()
        self.request = bytearray()
        self.pending = 0
        self.fds = {self.slave}  # descriptors of the terminal (the slave and its duplicates)

    def inq(self):
        import fcntl
        import struct
        import termios

        return struct.unpack("i", fcntl.ioctl(self.slave, termios.FIONREAD, b"\0\0\0\0"))[0]

    def wrote(self, data):
        """the terminal consumes what was written; a request that ends with DA1 is answered"""
        import select
        import time

        got = 0
        t0 = time.monotonic()
        while got < len(data) and time.monotonic() - t0 < 10:
            if select.select([self.master], [], [], 0.05)[0]:
                chunk = os.read(self.master, 65536)
                got += len(chunk)
                self.request += chunk
        n = 0
        if self.request.endswith(self.da1):
            req = bytes(self.request)
            self.request.clear()
            reply = b""
            while req:
                for q, r in self.replies:
                    if req.startswith(q):
                        reply += r
                        req = req[len(q):]
                        break
                else:
                    req = req[1:]
            os.write(self.master, reply)
            n = len(reply)
            self.pending += n
            t0 = time.monotonic()
            while self.inq() < self.pending and time.monotonic() - t0 < 10:
                time.sleep(0.0005)
        return n

    def close(self):
        for fd in (self.master, self.slave):
            try:
                os.close(fd)
            except OSError:
                pass


class OSProxy:
    def __init__(self, h, term):
        self._h, self._t = h, term

    def __getattr__(self, name):
        return getattr(os, name)

    def write(self, fd, data):
        n = os.write(fd, data)
        if fd in self._t.fds:
            k = self._t.wrote(bytes(data))
            if threading.get_ident() in self._h.by_ident:
                self._h.ev(self._h.me(), 11, k)
        return n

    def read(self, fd, n):
        data = os.read(fd, n)
        if fd in self._t.fds and data:
            self._t.pending -= len(data)
            if threading.get_ident() in self._h.by_ident:
                self._h.ev(self._h.me(), 12, len(data))
        return data


class TermiosProxy:
    def __init__(self, h, term):
        import termios

        self._h, self._t, self._m = h, term, termios

    def __getattr__(self, name):
        return getattr(self._m, name)

    def tcsetattr(self, fd, when, attr):
        if fd == self._t.slave and when == self._m.TCSAFLUSH:
            self._h.ev(self._h.me(), 10)
            self._t.pending = 0
        return self._m.tcsetattr(fd, when, attr)


XQ = {
    "query": lambda: U.query_terminal(x_replies()[1], more=lambda s: not s.endswith(b"c")),
    "name_version": lambda: U.get_terminal_name_version(),
    "fg_bg": lambda: U.get_fg_bg_colors(),
    "cell_size": lambda: tuple(U.get_cell_size() or ()),
}


def hung():
    global GRANT_TIMEOUT
    GRANT_TIMEOUT = AFTER_HANG_TIMEOUT


def run_schedule(case):
    global GRANT_TIMEOUT
    if case.get("grant_timeout"):
        GRANT_TIMEOUT = min(GRANT_TIMEOUT, float(case["grant_timeout"]))
    h = Harness(case)
    for tid, proc, prog in case["threads"]:
        h.workers[tid] = Worker(h, tid, proc, prog)
    h.procobj = {c: ProcObj(c) for c in {w.proc for w in h.workers.values()} if c != 0}
    for cmds in [w.prog for w in h.workers.values()]:
        for cmd in cmds:
            if cmd[0] == "start":
                h.procobj.setdefault(cmd[1], ProcObj(cmd[1]))

    # ---- patch points
    exchange = any(cmd[0] in ("xq", "xr", "xs") for _, _, prog in case["threads"] for cmd in prog)
    method = case.get("method", "spawn")
    # the root process: the imported module for the exchange scenarios (the screen class is bound
    # to it), otherwise an instance of its own, so that no module state survives from case to case
    root = U if exchange else fresh_utils()
    h.mods = {0: root}
    h.conf = {0: conf_functions(root)}
    h.probes = {}

    def instrument(mod, proc, fresh_lock):
        if fresh_lock:
            mod._tty_lock = TLock(h, 0 if proc == 0 else 100 + proc)
        mod._rlock_type = ThreadLockType
        mod.mp_RLock = factory
        mod._process_start_wrapper.__wrapped__ = stub_start
        mod._process_run_wrapper.__wrapped__ = stub_run

    root._queries_enabled, root._swap_win_size = True, False
    root._cell_size_cache = [0] * 4
    root._cell_size_lock = threading.RLock()
    made = []
    starts_conf = []  # (histogram) the configuration of the starting process at each Process.start()
    term = None
    screen = screen_in = None
    if any(cmd[0] in ("xq", "xr", "xs") for _, _, prog in case["threads"] for cmd in prog):
        import termios as real_termios

        term = ScriptedTerminal(h)
        U._tty_fd = term.slave
        U._query_timeout = 5.0
        U.os, U.termios = OSProxy(h, term), TermiosProxy(h, term)
        U.get_terminal_name_version._invalidate_cache()
        U.get_fg_bg_colors._invalidate_cache()
        if any(cmd[0] == "xs" for _, _, prog in case["threads"] for cmd in prog):
            # a STARTED UrwidImageScreen whose input is that same terminal (output to a buffer);
            # urwid reads through its own `os`: same logging proxy
            import io

            import urwid.display._posix_raw_display as UP
            from term_image.image import KittyImage
            from term_image.widget import UrwidImageScreen

            KittyImage._supported = False  # no support query of its own when the screen starts / stops
            screen_in = os.fdopen(os.dup(term.slave), "rb", buffering=0)
            term.fds.add(screen_in.fileno())
            screen = h.screen = UrwidImageScreen(screen_in, io.StringIO())
            U._tty_lock = threading.RLock()  # started by the scheduler's own thread, before any worker
            screen.start()                   # runs: not a scheduled step (the traced lock is installed below)
            UP.os = OSProxy(h, term)

    def factory():
        w = h.me()
        w.park("swap")
        lock = MLock(h, 1 + len(made))
        made.append(lock)
        h.ev(w, 7)
        return lock

    def stub_start(self, *a, **k):
        """stands for the original Process.start: the child process comes into being here"""
        w = h.me()
        w.park("start")
        # what the child is handed (`self._tty_lock`, installed by the real _process_run_wrapper):
        # 0 = the root's thread lock, 1.. = a multiprocessing lock, 100+p = a private thread lock, 9 = nothing
        handed = getattr(self, "_tty_lock", None)
        h.ev(w, 8, self.child, handed.code if isinstance(handed, TracedLock) else 9)
        starts_conf.append([w.proc, int(bool(h.mods[w.proc]._queries_enabled)), int(bool(h.mods[w.proc]._swap_win_size))])
        if self.child not in h.mods:
            cp = lock_copier(h, self.child)
            seen = carried(self, method, cp)
            child = fresh_utils()
            if method == "fork":
                fork_state(h.mods[w.proc], child, cp)
            instrument(child, self.child, fresh_lock=method != "fork")
            h.mods[self.child] = child
            h.conf[self.child] = conf_functions(child)
            # the child's main thread begins in the REAL run wrapper (which installs what the process
            # object carries) before any other thread of the child can exist
            h.prologue = True
            try:
                child._process_run_wrapper(seen)
            finally:
                h.prologue = False
        for x in h.workers.values():
            if x.proc == self.child:
                x.started = True

    def stub_run(self, *a, **k):
        if not h.prologue:
            h.me().run_program()

    instrument(root, 0, fresh_lock=True)

    def probe_of(proc):
        """a lock_tty-decorated probe of that process (decorated by ITS instance of the library)"""
        if proc not in h.probes:
            @h.mods[proc].lock_tty
            def probe(d, io):
                w = h.me()
                h.ev(w, 3)
                w.park("body")
                if d > 0:
                    probe(d - 1, io)
                elif io:
                    n = w.nreq
                    w.nreq += 1
                    h.reqs.append((w.tid, n))
                    h.ev(w, 5, n)
                    w.park("wait")
                    r = h.reps.pop(0)
                    h.ev(w, 6, r[0], r[1])
                w.park("after")
                h.ev(w, 4)

            h.probes[proc] = probe
        return h.probes[proc]

    h.probe_of = probe_of

    for w in h.workers.values():
        w.thread.start()
    for w in h.workers.values():
        if not w.parked.wait(GRANT_TIMEOUT):
            return {"error": "worker %d did not reach its first park" % w.tid}

    def can_move(tid):
        if tid == TERM:
            return bool(h.reqs)
        w = h.workers.get(tid)
        if w is None or w.finished or not w.started or w.at is None:
            return False
        kind, obj = w.at
        if kind == "acq" and not obj.can_acquire(tid):
            return False
        if kind == "wait" and not h.reps:
            return False
        return True

    blocked = [0]

    def configure(item):
        """a configuration change in a running process (performed on behalf of one of its threads)"""
        proc, field, value = (item - CONF_BASE) // 8, (item - CONF_BASE) % 8 // 2, (item - CONF_BASE) % 2
        if proc not in h.conf:
            return False  # the process does not exist (yet)
        f = h.conf[proc].get((field, value))
        if f is not None:
            f()
        return True

    def grant(tid):
        if tid >= CONF_BASE:
            return configure(tid)
        if not can_move(tid):
            w = h.workers.get(tid)
            if w is not None and w.started and not w.finished and w.at is not None:
                blocked[0] += 1  # a pick of a thread that has to wait (lock held by another / no reply yet)
            return False
        if tid == TERM:
            h.reps.append(h.reqs.pop(0))
            return True
        w = h.workers[tid]
        w.parked.clear()
        w.go.release()
        if not w.parked.wait(GRANT_TIMEOUT):
            hung()
            raise RuntimeError("worker %d did not park again (blocked outside the traced locks?)" % tid)
        return True

    sched = list(case["sched"])
    effective = []
    enabled = []
    try:
        for tid in sched:
            grant(tid)
            effective.append(tid)
        # who could move now (used by the exhaustive enumeration of the thorough tier)
        enabled = [tid for tid in [TERM] + sorted(h.workers) if can_move(tid)]
        # configuration changes offered to the enumeration: each at most once per schedule
        enabled += [c for c in case.get("conf_items", []) if c not in sched and (c - CONF_BASE) // 8 in h.conf]
        # completion: round-robin until every worker is finished (recorded, replayed in Coq)
        ids = [TERM] + sorted(h.workers)
        for _ in range(case.get("completion_rounds", 400)):
            if all(w.finished for w in h.workers.values()):
                break
            moved = False
            for tid in ids:
                # only the picks that move are recorded (blocked picks are no-ops on both
                # sides and are exercised by the generated part of the schedule)
                if grant(tid):
                    effective.append(tid)
                    moved = True
            if not moved:
                # nobody can move although somebody is unfinished: record one full round of
                # blocked picks, so that the model has to be stuck in the same way
                effective += ids
                break
    except RuntimeError as e:
        h.error = str(e)
    unfinished = [w.tid for w in h.workers.values() if not w.finished]
    log, error = list(h.log), h.error
    # the run is over: unwind the workers that are still parked
    h.abort = True
    for w in h.workers.values():
        w.go.release()
    for w in h.workers.values():
        w.thread.join(1.0 if error else GRANT_TIMEOUT)
    h.log, h.error = log, error
    leftover = None
    if term is not None:
        leftover = term.inq()
        if screen is not None:
            UP.os = os
            U._tty_lock = threading.RLock()
            try:
                screen.stop()
            finally:
                screen_in.close()
        U.os, U.termios, U._tty_fd = os, real_termios, -1
        term.close()
    return {"log": h.log, "sched": effective, "unfinished": unfinished, "error": h.error,
            "locks_made": len(made), "enabled": enabled, "xres": h.xres, "leftover": leftover,
            "blocked_picks": blocked[0], "starts_conf": starts_conf}


# ------------------------------------------------------------------ real processes


def mp_probe_setup():
    import time

    @U.lock_tty
    def probe(arr, slot, hold):
        arr[2 * slot] = time.monotonic_ns()
        time.sleep(hold)
        arr[2 * slot + 1] = time.monotonic_ns()

    @U.lock_tty
    def nested(arr, slot, hold):
        probe(arr, slot, hold)

    return probe, nested


def mp_child(arr, ready, go, base, n, hold, grand_base, use_ctx):
    import multiprocessing as mp

    probe, nested = mp_probe_setup()
    kids = []
    if grand_base is not None:
        P = mp.get_context().Process if use_ctx else mp.Process
        k = P(target=mp_child, args=(arr, ready, go, grand_base, n, hold, None, use_ctx))
        k.start()
        kids.append(k)
    ready[base // n] = 1
    go.wait(60)
    for i in range(n):
        (nested if i % 2 else probe)(arr, base + i, hold)
    for k in kids:
        k.join(60)


def run_mp(case):
    """Two parent threads, two children and a grandchild call the probe at the same time;
    one parent thread is already calling it while the first child is started (the lock is
    swapped under its feet).  Returns the enter/exit stamps.

    control=True uses `get_context().Process` (NOT a subclass of `multiprocessing.Process`,
    hence not wrapped by the library: children are not handed the lock) to show that the
    experiment does observe overlaps when the hand-over is missing."""
    import multiprocessing as mp
    import time

    m = case["mp"]
    method, n, hold, control = m["method"], m["calls"], m["hold"], m.get("control", False)
    if U._tty_fd == -1:
        return {"skipped": "no terminal found at import (Process.start not wrapped)"}
    assert hasattr(mp.Process.start, "__wrapped__") and hasattr(mp.Process.run, "__wrapped__")
    mp.set_start_method(method, force=True)
    P = mp.get_context().Process if control else mp.Process
    groups = 6  # 0: early parent thread, 1: parent thread, 2-3: children, 4: grandchild, 5: spare
    arr = mp.Array("q", 2 * n * groups, lock=False)
    ready = mp.Array("b", groups, lock=False)
    go = mp.Event()
    probe, nested = mp_probe_setup()
    stop_early = threading.Event()
    early_calls = [0]

    def early():  # keeps the thread lock busy until everybody is ready, then joins the crowd
        scratch = mp.Array("q", 2, lock=False)
        while not stop_early.is_set():
            probe(scratch, 0, hold / 4)
            early_calls[0] += 1
        for i in range(n):
            probe(arr, i, hold)

    def late():
        go.wait(60)
        for i in range(n):
            (nested if i % 2 else probe)(arr, n + i, hold)

    ths = [threading.Thread(target=early), threading.Thread(target=late)]
    ths[0].start()
    time.sleep(0.01)
    kids = [P(target=mp_child, args=(arr, ready, go, 2 * n, n, hold, 4 * n, control)),
            P(target=mp_child, args=(arr, ready, go, 3 * n, n, hold, None, control))]
    if m.get("disable_queries"):
        # the library's configuration at the moment of the first start: queries disabled (re-enabled
        # once both children are running); the hand-over must not depend on it
        import term_image

        term_image.disable_queries()
    kids[0].start()  # the lock is swapped here, racing with the early thread
    ths[1].start()
    kids[1].start()
    if m.get("disable_queries"):
        term_image.enable_queries()
    t0 = time.monotonic()
    while not (ready[2] and ready[3] and ready[4]) and time.monotonic() - t0 < 30:
        time.sleep(0.005)
    stop_early.set()
    go.set()
    for t in ths:
        t.join(60)
    for k in kids:
        k.join(60)
    alive = [k.pid for k in kids if k.is_alive()] + [1 for t in ths if t.is_alive()]
    for k in kids:
        if k.is_alive():
            k.kill()
    return {"stamps": list(arr), "alive": alive, "exit": [k.exitcode for k in kids],
            "ready": list(ready), "early_calls": early_calls[0], "lock_type": type(U._tty_lock).__module__ + "." + type(U._tty_lock).__name__}


if __name__ == "__main__":
    if len(sys.argv) > 2 and sys.argv[1] == "--mp":
        # run under a pty: case from argv, result to a file
        case = json.loads(sys.argv[2])
        res = run_mp(case)
        with open(sys.argv[3], "w") as f:
            json.dump(res, f)
        sys.exit(0)
    cases = json.loads(sys.stdin.read())
    sys.stdout.write(json.dumps([run_schedule(c) for c in cases]))
    sys.stdout.flush()
