"""C12 implementation driver.

Two modes.

  pty   `impl_c12.py pty <cmd_fd> <res_fd>` — started by harness/props/c12.py with
        stdin/stdout/stderr on a pty *slave*, so that term_image.utils opens that pty as
        the active terminal (`utils._tty_fd`).  Commands arrive as JSON lines on <cmd_fd>,
        results leave as JSON lines on <res_fd>.  The REAL query functions run against the
        pty in real time; the parent plays the terminal.  Nothing from the test-suite's
        `tests` package is imported (its stubs replace the very functions under test).
        REPLY PLACEMENT (cases with a "place" key): the moment a reply ARRIVES relative to the
        library's own steps is controlled without a clock: `termios.tcdrain`, `termios.tcsetattr`
        and `termios.tcflush` are pass-through wrappers (the real call is made first, with the
        caller's arguments) that, while a placed call runs, tell the terminal side that the
        library has reached "D" = the request has been fully transmitted (tcdrain returned; the
        library has made no further tty call yet) resp. "S" = the first attribute change after
        that (read_tty has switched the tty to its reading mode and is about to wait), and wait
        for its "go n" (n = bytes the terminal wrote at this point); the library goes on only
        when those n bytes have been COUNTED in the tty's input queue (FIONREAD) -- see `Gates`.

  fast  `impl_c12.py` (stdin: JSON list of cases, stdout: JSON list of results) — the
        parsing / decision half of the same public functions, with `query_terminal`
        and `read_tty` replaced by canned responses (what the read loop delivered is an
        input of the case), on an in-process pty whose window size is set per case so
        that `get_terminal_size()` and the TIOCGWINSZ ioctl are the real ones.
"""
import json
import os
import sys
import warnings

REPO = os.environ.get("VERIF_REPO", "/repo")
for p in (REPO, REPO + "/src"):
    while p in sys.path:
        sys.path.remove(p)
sys.path.insert(0, REPO + "/src")
warnings.simplefilter("ignore")

import array  # noqa: E402
import fcntl  # noqa: E402
import select  # noqa: E402
import termios  # noqa: E402
import time  # noqa: E402

MODE = sys.argv[1] if len(sys.argv) > 1 else "fast"
ENV_KEYS = ("TERM_PROGRAM", "TERM_PROGRAM_VERSION", "COLORTERM", "TERM", "SHELL")

if MODE == "fast":
    # an in-process pty becomes the "active terminal" (stdout of this process is a pipe)
    import pty

    _master, _slave = pty.openpty()
    _real_out = os.dup(1)
    os.dup2(_slave, 1)  # term_image.utils looks at sys.__stdout__ first
    import term_image  # noqa: E402
    from term_image import utils  # noqa: E402

    os.dup2(_real_out, 1)
else:
    import term_image  # noqa: E402
    from term_image import utils  # noqa: E402

from term_image import _ctlseqs as ctlseqs  # noqa: E402
from term_image.image import BlockImage, ITerm2Image, KittyImage, auto_image_class  # noqa: E402
from term_image.image import kitty as kitty_mod  # noqa: E402

assert term_image.__file__.startswith(REPO + "/src"), term_image.__file__
assert utils._tty_fd != -1, "no active terminal"


def reset_library(cmd):
    """Put every piece of library state a query function reads back to `just imported`."""
    utils._queries_enabled = True
    getattr(utils.get_fg_bg_colors, "_invalidate_cache")()
    getattr(utils.get_terminal_name_version, "_invalidate_cache")()
    utils._swap_win_size = False
    with utils._cell_size_lock:
        utils._cell_size_cache[:] = cmd.get("cache", (0, 0, 0, 0))
    for cls in (KittyImage, ITerm2Image, BlockImage):
        cls._supported = None
    for k in ENV_KEYS:
        os.environ.pop(k, None)
    for k, v in cmd.get("env", {}).items():
        if v is not None:
            os.environ[k] = v
    # public API for the settings
    term_image.set_query_timeout(cmd.get("timeout", 0.1))
    if cmd.get("swap"):
        term_image.enable_win_size_swap()
        with utils._cell_size_lock:
            utils._cell_size_cache[:] = cmd.get("cache", (0, 0, 0, 0))
    if not cmd.get("enabled", True):
        term_image.disable_queries()


def b2l(x):
    if x is None:
        return None
    if isinstance(x, str):
        x = x.encode()
    return list(x)


def canon_colour(c):
    """None | ["rgb", r, g, b] | ["hex", bytes of the string] | ["other", repr]"""
    if c is None:
        return None
    if isinstance(c, str):
        return ["hex"] + list(c.encode())
    if isinstance(c, tuple) and len(c) == 3 and all(isinstance(x, int) for x in c):
        return ["rgb"] + list(c)
    return ["other", repr(c)]


def call(op, cmd):
    """Calls the function under test; canonical JSON-able result."""
    try:
        if op == "fgbg":
            fg, bg = utils.get_fg_bg_colors()
            return {"ok": [None if fg is None else list(fg), None if bg is None else list(bg)]}
        if op == "fgbg_hex":
            fg, bg = utils.get_fg_bg_colors(hex=True)
            return {"ok": [b2l(fg), b2l(bg)]}
        if op == "namever":
            n, v = utils.get_terminal_name_version()
            return {"ok": [b2l(n), b2l(v)]}
        if op == "cellsize":
            r = utils.get_cell_size()
            return {"ok": None if r is None else [r[0], r[1]], "cache": list(utils._cell_size_cache)}
        if op == "kitty":
            return {"ok": bool(KittyImage.is_supported())}
        if op == "iterm2":
            return {"ok": bool(ITerm2Image.is_supported())}
        if op == "auto":
            cls = auto_image_class()
            return {"ok": {KittyImage: "kitty", ITerm2Image: "iterm2", BlockImage: "block"}[cls],
                    "sup": [KittyImage._supported, ITerm2Image._supported, BlockImage._supported]}
        if op == "session":
            # ONE cache epoch (reset_library has just invalidated the caches): the public
            # getters called in several argument forms, in the given order
            out = []
            for c in cmd["calls"]:
                try:
                    if c[0] == "fg":
                        fg, bg = (utils.get_fg_bg_colors() if c[1] is None
                                  else utils.get_fg_bg_colors(hex=bool(c[1])))
                        out.append({"ok": [canon_colour(fg), canon_colour(bg)]})
                    else:
                        n, v = utils.get_terminal_name_version()
                        out.append({"ok": [b2l(n), b2l(v)]})
                except Exception as e:
                    out.append({"exc": type(e).__name__})
            return {"ok": out}
        if op == "raw":
            # query_terminal itself, with one of the library's own `more` predicates
            term = {"csi": ctlseqs.CSI_b, "c": b"c"}[cmd["more"]]
            r = utils.query_terminal(bytes(cmd["request"]), lambda s: not s.endswith(term))
            return {"ok": b2l(r)}
        if op == "rawread":
            r = utils.read_tty()
            return {"ok": b2l(r)}
        raise AssertionError(op)
    except Exception as e:  # canonical: the exception class only
        return {"exc": type(e).__name__}


# ------------------------------------------------------------------------ pty mode


SENTINEL = b"~~C12-END-OF-CASE~~"


def leftover(fd, send):
    """Everything the call left unread on the terminal, read with our own code (not the
    library's) in non-canonical mode; the previous attributes are restored.

    Deterministic whatever the machine load: the terminal side is told when the tty is in
    raw mode ("ready"), then writes what it held back as LATE followed by a sentinel; the
    tty is FIFO, so once the sentinel has been read everything written before it has been
    read too."""
    old = termios.tcgetattr(fd)
    new = termios.tcgetattr(fd)
    new[3] &= ~(termios.ICANON | termios.ECHO)
    new[6][termios.VMIN] = 0
    new[6][termios.VTIME] = 0
    out = bytearray()
    try:
        termios.tcsetattr(fd, termios.TCSANOW, new)
        send({"ready": True})
        deadline = time.monotonic() + 15.0
        while not out.endswith(SENTINEL) and time.monotonic() < deadline:
            if select.select([fd], [], [], 0.5)[0]:
                out += os.read(fd, 4096)
    finally:
        termios.tcsetattr(fd, termios.TCSANOW, old)
    seen = out.endswith(SENTINEL)
    if seen:
        del out[-len(SENTINEL):]
    return list(out), seen


def apply_attrs(base, a):
    """the attribute vector `base` with the flags / control characters of the case's
    attribute set `a` (echo, icanon, isig, opost, vmin, vtime).  Without ISIG the input side is
    made raw the way tty.setraw / cfmakeraw does it (no CR/NL translation, no flow control,
    no IEXTEN)."""
    new = list(base)
    new[6] = list(base[6])

    def flag(idx, bit, on):
        new[idx] = (new[idx] | bit) if on else (new[idx] & ~bit)

    flag(3, termios.ECHO, a["echo"])
    flag(3, termios.ICANON, a["icanon"])
    flag(3, termios.ISIG, a["isig"])
    flag(1, termios.OPOST, a["opost"])
    if not a["isig"]:
        new[0] &= ~(termios.BRKINT | termios.ICRNL | termios.INPCK | termios.ISTRIP | termios.IXON)
        new[3] &= ~termios.IEXTEN
    new[6][termios.VMIN] = a["vmin"]
    new[6][termios.VTIME] = a["vtime"]
    return new


def unread_count(fd):
    buf = array.array("i", [0])
    fcntl.ioctl(fd, termios.FIONREAD, buf)
    return buf[0]


def enter_initial_state(fd, attr0, init, send):
    """Puts the terminal into the case's INITIAL STATE: attribute set `init["attrs"]` with the
    bytes `init["typeahead"]` sitting unread in its input queue.  -> (attributes met, ok)

    Deterministic: the type-ahead is written by the terminal side while the tty is in a
    staging mode (the target mode without ICANON / ECHO, so that nothing is echoed and the
    kernel counts every byte); only when FIONREAD says that every byte has reached the line
    discipline's queue is the target attribute set applied, with TCSANOW (which keeps the
    queue)."""
    target = apply_attrs(attr0, init["attrs"])
    data = bytes(init.get("typeahead", ()))
    ok = True
    if data:
        stage = list(target)
        stage[6] = list(target[6])
        stage[3] &= ~(termios.ICANON | termios.ECHO)
        stage[6][termios.VMIN] = 0
        stage[6][termios.VTIME] = 0
        termios.tcsetattr(fd, termios.TCSAFLUSH, stage)
        send({"staged": True})
        deadline = time.monotonic() + 15.0
        while unread_count(fd) < len(data) and time.monotonic() < deadline:
            time.sleep(0.0005)
        ok = unread_count(fd) == len(data)
        termios.tcsetattr(fd, termios.TCSANOW, target)
    else:
        termios.tcsetattr(fd, termios.TCSAFLUSH, target)
    return termios.tcgetattr(fd), ok


class Gates:
    """Pass-through wrappers around termios.tcdrain / tcsetattr / tcflush (installed once; inert
    unless `on`): after the real call they report the point reached to the terminal side and
    wait for its "go n".  Only two points are reported per request: "D" (tcdrain returned:
    request fully transmitted, nothing else done yet) and "S" (the first tcsetattr after that
    D).  Every other call passes through untouched.

    The kernel hands bytes written to the pty master over to the slave's line discipline in a
    worker, i.e. a moment after write() returned; so the library is let go on only when the n
    bytes the terminal wrote at this point have been counted in the input queue.  FIONREAD
    counts every byte only in non-canonical mode: if ICANON is set at that point it is cleared
    for the duration of the wait and set again (TCSANOW both ways: the queue is kept; the
    library itself reads in non-canonical mode only)."""

    def __init__(self, fd, send, cmd_f):
        self.fd, self.send, self.cmd_f = fd, send, cmd_f
        self.on = False
        self.armed = False
        self.ok = True
        self.log = []
        self.real = (termios.tcdrain, termios.tcsetattr, termios.tcflush)
        real_drain, real_setattr, real_flush = self.real

        def tcdrain(fd_):
            real_drain(fd_)
            if self.on and fd_ == self.fd:
                self.armed = True
                self.sync("D")

        def tcsetattr(fd_, when, attrs):
            real_setattr(fd_, when, attrs)
            if self.on and fd_ == self.fd:
                self.log.append("S%d" % when)
                if self.armed:
                    self.armed = False
                    self.sync("S")

        def tcflush(fd_, queue):
            real_flush(fd_, queue)
            if self.on and fd_ == self.fd:
                self.log.append("F%d" % queue)

        termios.tcdrain, termios.tcsetattr, termios.tcflush = tcdrain, tcsetattr, tcflush

    def sync(self, code):
        real_setattr = self.real[1]
        self.log.append(code)
        cur = termios.tcgetattr(self.fd)
        canon = bool(cur[3] & termios.ICANON)
        if canon:
            tmp = list(cur)
            tmp[6] = list(cur[6])
            tmp[3] &= ~termios.ICANON
            real_setattr(self.fd, termios.TCSANOW, tmp)
        try:
            base = unread_count(self.fd)
            self.send({"gate": code})
            msg = json.loads(self.cmd_f.readline() or "{}")
            n = int(msg.get("go", 0))
            if n:
                deadline = time.monotonic() + 15.0
                while unread_count(self.fd) < base + n and time.monotonic() < deadline:
                    time.sleep(0.0002)
                if unread_count(self.fd) < base + n:
                    self.ok = False
        finally:
            if canon:
                real_setattr(self.fd, termios.TCSANOW, cur)


def pty_main():
    cmd_f = os.fdopen(int(sys.argv[2]), "r")
    res_f = os.fdopen(int(sys.argv[3]), "w")
    fd = utils._tty_fd
    attr0 = termios.tcgetattr(fd)
    met = attr0  # the attribute set the current case's call met

    # pass-through time stamp of every request written (the reference point of the
    # terminal side's "was my reply really timely" check); nothing else is touched
    writes = []
    real_write = utils.write_tty

    def stamped_write(data):
        writes.append(time.monotonic())
        return real_write(data)

    utils.write_tty = stamped_write

    def send(obj):
        res_f.write(json.dumps(obj) + "\n")
        res_f.flush()

    gates = Gates(fd, send, cmd_f)
    send({"hello": os.ttyname(fd), "lflag_icanon_echo": bool(attr0[3] & termios.ICANON) and bool(attr0[3] & termios.ECHO)})
    for line in cmd_f:
        cmd = json.loads(line)
        if cmd["op"] == "quit":
            break
        if cmd["op"] == "leftover":
            attr = termios.tcgetattr(fd)
            lo, seen = leftover(fd, send)
            send({"leftover": lo, "sentinel_seen": seen, "attr_restored": attr == met})
            termios.tcsetattr(fd, termios.TCSANOW, attr0)
            termios.tcflush(fd, termios.TCIFLUSH)
            met = attr0
            continue
        reset_library(cmd)
        termios.tcsetattr(fd, termios.TCSAFLUSH, attr0)
        met, staged_ok = attr0, True
        if cmd.get("init"):
            met, staged_ok = enter_initial_state(fd, attr0, cmd["init"], send)
        size = list(os.get_terminal_size(fd))
        del writes[:]
        gates.on, gates.armed, gates.ok = bool(cmd.get("place")), False, True
        del gates.log[:]
        t0 = time.monotonic()
        try:
            res = call(cmd["op"], cmd)
        finally:
            gates.on = False
        t1 = time.monotonic()
        res.update(t0=t0, t1=t1, size=size, writes=list(writes), staged_ok=staged_ok and gates.ok,
                   tty_calls=list(gates.log))
        send(res)


# ----------------------------------------------------------------------- fast mode


def set_winsize(fd, rows, cols, xpix, ypix):
    fcntl.ioctl(fd, termios.TIOCSWINSZ, array.array("H", [rows, cols, xpix, ypix]))


def fast_main():
    cases = json.loads(sys.stdin.read())
    out = []
    state = {}

    def fake_query(request, more, timeout=None):
        if not utils._queries_enabled:
            return None
        state["requests"].append(list(request))
        for req, resp in state["responses"]:
            if bytes(req) == request:
                return bytes(resp)
        return b""

    def fake_read(*a, **k):
        state["drains"] += 1
        return b""

    real = (utils.query_terminal, utils.read_tty, kitty_mod.query_terminal)
    utils.query_terminal = fake_query
    utils.read_tty = fake_read
    kitty_mod.query_terminal = fake_query
    try:
        for c in cases:
            op = c["op"]
            if op == "xparse":
                try:
                    out.append({"ok": list(ctlseqs.x_parse_color(bytes(c["spec"]).decode()))})
                except Exception as e:
                    out.append({"exc": type(e).__name__})
                continue
            state.update(requests=[], drains=0, responses=c.get("responses", []))
            ws = c.get("winsize", [24, 80, 0, 0])
            set_winsize(_master, *ws)
            reset_library(c)
            res = call(op, c)
            res["requests"] = state["requests"]
            res["drains"] = state["drains"]
            out.append(res)
    finally:
        utils.query_terminal, utils.read_tty, kitty_mod.query_terminal = real
    sys.stdout.write(json.dumps(out))
    sys.stdout.flush()


if __name__ == "__main__":
    if MODE == "pty":
        pty_main()
    else:
        fast_main()
