"""C10 implementation driver, second part: the life of render data objects

  ctor : faults DURING THE CONSTRUCTION of a RenderIterator.  One construction by
         `RenderIterator(...)` ("init"), `_from_render_data_(finalize=False)` ("frd_keep") or
         `_from_render_data_(finalize=True)` ("frd_give") with a fault inside the constructor:
           pad0..pad3 : a client `Padding` class whose `_get_exact_dimensions_` / `get_padded_size`
                        raises PaddingError / RuntimeError / KeyboardInterrupt / MemoryError (it is
                        first consulted by the priming `next()` of the constructor),
           huge       : frame_count = sys.maxsize with the frame cache on (the cache cannot be allocated),
           size / data: `_get_render_size_` / `_get_render_data_` of the renderable raise,
           loops0 / cache0 / badargs : invalid arguments,
           async k    : a KeyboardInterrupt delivered at the k-th line executed inside the package
                        (harness/impl/asyncfault.py) while the constructor runs; with
                        "enumerate_async": step, a counting run and then every step-th k.
         The half-built object is fetched from the traceback of the exception and described
         (which attributes exist, generator state); then it is dropped and collected while the
         driver (like a caller) still holds the render data; then the owner of kept data finalizes
         it and every reference is released.  Reported: finalizer entries / `finalized` of the
         data at those two moments, entries of every other render data object created, exceptions
         the interpreter reported as unraisable.
  nest : SEVERAL render data objects alive at once.  A forest of composite renderables `NR`: the
         render data of a node holds RenderIterators over the node's children (mode own: made by
         `RenderIterator(child)`; give / keep_*: `_from_render_data_` with finalize=True / False) and
         the node's `_finalize_render_data_` closes them (keep_fin: and finalizes the child's data;
         keep_drop: and drops the last reference to it there and then, so that `RenderData.__del__`
         runs inside the finalizer; keep_leak: leaves the data to the collector).  A script of
         top-level operations (iter / next / close / drop / exhaust / ownerfin / render / str /
         draw) over several slots; optionally one `close()` performed by a second thread whose
         finalizer waits at an Event gate while the main thread goes on ("tclose" ... "trelease").
         After every step a snapshot of every render data object created so far: entries into its
         finalizer, `finalized` (None once collected).  Per step also the objects whose life the step
         ENDED, derived from public outcomes only (an owning iterator was closed / dropped / raised
         StopIteration or an error - including child iterators advanced inside `_render_`; the
         one-off operation a data object was created for returned or raised).
Everything reported is an integer / enum / list of those.
"""
import implenv  # noqa: F401

import contextlib
import gc
import inspect
import io
import sys
import threading
import time

from impl_c08 import VR

from term_image.geometry import Size
from term_image.padding import ExactPadding, Padding, PaddingError
from term_image.render import RenderIterator
from term_image.renderable import (
    DataNamespace,
    Frame,
    FrameCount,
    Renderable,
    RenderArgs,
    UninitializedDataFieldError,
)
import term_image.renderable._renderable as _renderable_mod

import asyncfault

_TRY_LINES = {}


def is_try_line(frame):
    key = (frame.f_code.co_filename, frame.f_lineno)
    v = _TRY_LINES.get(key)
    if v is None:
        import linecache
        v = _TRY_LINES[key] = linecache.getline(*key).strip() == "try:"
    return v


class AsyncFault(asyncfault.AsyncFault):
    """a bare `try:` line is not a fault position: CPython >= 3.11 compiles it to a NOP outside the exception
    table and never polls for signals there (see impl_c10.line_fault_class; same convention as C07 / C13)"""

    def _local(self, frame, event, arg):
        if event == "line" and is_try_line(frame):
            return self._local
        return super()._local(frame, event, arg)

UNRAISABLE = []


def _unraisable(u):
    UNRAISABLE.append(type(u.exc_value).__name__)


sys.unraisablehook = _unraisable

CLEANUP_FUNCS = ("close", "finalize", "__del__", "_finalize_render_data_")
TIMEOUT = 30  # seconds; only ever waited out when something is broken

# ================================================================= ctor

FIN = {}  # serial -> entries into _finalize_render_data_
DATAS = {}  # serial -> render data (strong: the driver holds the data like a caller would)
ORPHAN = {}  # id(render data without a serial) -> entries
SERIAL = [0]


class BadPad(Padding):
    """a client padding class whose methods fail"""

    __slots__ = ("how",)

    def __init__(self, how):
        super().__init__(" ")
        Padding.__setattr__(self, "how", how)

    def _get_exact_dimensions_(self, render_size):
        if self.how == 0:
            raise PaddingError("injected (_get_exact_dimensions_)")
        if self.how == 2:
            raise KeyboardInterrupt()
        if self.how == 3:
            raise MemoryError()
        return (1, 0, 1, 0)

    def get_padded_size(self, render_size):
        if self.how == 1:
            raise RuntimeError("injected (get_padded_size)")
        return super().get_padded_size(render_size)


class LR(VR):
    """VR + an identity for every render data object + faults in data creation"""

    def __init__(self, *a, size_fault=False, data_fault=False, **kw):
        super().__init__(*a, **kw)
        self._size_fault = size_fault
        self._data_fault = data_fault
        self.serials = []

    def _get_render_size_(self):
        if self._size_fault:
            raise RuntimeError("injected (_get_render_size_)")
        return super()._get_render_size_()

    def _get_render_data_(self, *, iteration):
        data = super()._get_render_data_(iteration=iteration)
        SERIAL[0] += 1
        data[LR].serial = SERIAL[0]
        FIN[SERIAL[0]] = 0
        DATAS[SERIAL[0]] = data
        self.serials.append(SERIAL[0])
        if self._data_fault:
            raise RuntimeError("injected (_get_render_data_)")
        return data

    @classmethod
    def _finalize_render_data_(cls, render_data):
        try:
            serial = render_data[LR].serial
        except UninitializedDataFieldError:
            ORPHAN[id(render_data)] = ORPHAN.get(id(render_data), 0) + 1
        else:
            FIN[serial] = FIN.get(serial, 0) + 1
        super()._finalize_render_data_(render_data)


class LRData(DataNamespace, render_cls=LR):
    serial: int


GEN_STATE = {"GEN_CREATED": 0, "GEN_RUNNING": 1, "GEN_SUSPENDED": 2, "GEN_CLOSED": 3}


def describe_obj(obj):
    if obj is None:
        return None
    d = obj.__dict__
    closed = d.get("_closed")
    g = d.get("_iterator")
    return [None if closed is None else int(closed),
            None if g is None else GEN_STATE[inspect.getgeneratorstate(g)],
            int("_render_data" in d),
            None if d.get("_finalize_data") is None else int(d["_finalize_data"])]


def find_half_built(tb):
    """the RenderIterator under construction, from the frames of the package in the traceback"""
    found = None
    while tb is not None:
        f = tb.tb_frame
        if asyncfault.in_package(f):
            loc = f.f_locals
            for name in ("self", "new"):
                v = loc.get(name)
                if found is None and isinstance(v, RenderIterator):
                    found = v
            del loc
        tb = tb.tb_next
    return found


def exc_code(e):
    names = ["PaddingError", "RuntimeError", "KeyboardInterrupt", "MemoryError", "ValueError",
             "IncompatibleRenderArgsError"]
    n = type(e).__name__
    return names.index(n) if n in names else 9


def run_ctor(case):
    FIN.clear()
    DATAS.clear()
    ORPHAN.clear()
    del UNRAISABLE[:]
    fault = case.get("fault") or "none"
    n = sys.maxsize if fault == "huge" else case["n"]
    r = LR(n, 1, Size(2, 1), case.get("total", 3), {}, False,
           size_fault=fault == "size", data_fault=fault == "data")
    kind = case["kind"]
    pad = BadPad(int(fault[3])) if fault.startswith("pad") else (
        BadPad(9) if case.get("custom_pad") else ExactPadding(*case.get("pad", [0, 0, 0, 0])))
    loops = 0 if fault == "loops0" else case.get("loops", 1)
    cache = 0 if fault == "cache0" else (True if fault == "huge" else case.get("cache", False))
    args = None
    if fault == "badargs":
        from impl_c08 import Other, OtherArgs
        args = RenderArgs(Other, OtherArgs(3))
    own = None
    if kind != "init":
        own = r._get_render_data_(iteration=True)
    ak = case.get("async")
    probe = AsyncFault(k=None if ak == -1 else ak, exclude_funcs=CLEANUP_FUNCS) if ak is not None else None
    it, completed, exc, obj = None, 0, None, None
    try:
        with (probe or contextlib.nullcontext()):
            if kind == "init":
                it = RenderIterator(r, args, pad, loops, cache)
            else:
                it = RenderIterator._from_render_data_(r, own, args, pad, loops, cache,
                                                       finalize=(kind == "frd_give"))
        completed = 1
        obj = describe_obj(it)
    except BaseException as e:  # noqa: BLE001
        exc = exc_code(e)
        half = find_half_built(e.__traceback__)
        obj = describe_obj(half)
        del half
    for _ in range(case.get("nexts", 0) if completed else 0):
        next(it)
    it = None
    gc.collect()
    main = r.serials[0] if r.serials else None
    data = DATAS.get(main)
    res = {"completed": completed, "exc": exc, "obj": obj, "data_exists": int(main is not None),
           "drop_calls": FIN.get(main, 0), "drop_fz": int(data.finalized) if data is not None else 0,
           "lines": probe.count if probe else 0, "fired": int(probe.fired) if probe else 0,
           "where": list(probe.where) if probe and probe.where else None}
    if kind == "frd_keep" and data is not None:
        data.finalize()  # the owner's own
    del data, own
    DATAS.clear()
    gc.collect()
    res["end_calls"] = FIN.get(main, 0)
    res["others"] = [FIN[s] for s in r.serials if s != main] + list(ORPHAN.values())
    res["unraisable"] = len(UNRAISABLE)
    res["bad_use"] = sum(1 for x in r.log if x[6])
    return res


def run_ctor_enumerated(case):
    plain = {k: v for k, v in case.items() if k != "enumerate_async"}
    plain["async"] = None
    out = [[plain, run_ctor(plain)]]
    count = run_ctor(dict(plain, **{"async": -1}))["lines"]
    step = case["enumerate_async"]
    for k in range(1 + case.get("async_offset", 0) % step, count + 1, step):
        v = dict(plain, **{"async": k})
        out.append([v, run_ctor(v)])
    return out


# ================================================================= nest

OBJ = []  # per render data object (creation order): {"fin", "node", "body", "root"}
REG = {}  # serial -> render data (strong; released at the end)
PATH = {}  # serial -> (parent serial, kid index): where a keep_drop object can be reached while alive
USES = []  # (serial, hook, finalized at entry); hook 0 _render_, 3 _finalize_render_data_
ENDED = []  # serials whose owning child iterator ended (StopIteration / error out of next()) during the step
NODES = []
GATES = {}  # node idx -> (entered, leave)
DEPTH = [0]
OWNING = ("own", "give")
IN_BODY = ("own", "give", "keep_fin", "keep_drop")


class NR(Renderable):
    def __init__(self, idx, n, total, kids, rfault):
        super().__init__(FrameCount.INDEFINITE if n is None else n, 1)
        self.idx, self.total, self.kids, self.rfault, self.calls = idx, total, kids, rfault, 0

    def _get_render_size_(self):
        return Size(2, 1)

    def _get_render_data_(self, *, iteration):
        data = super()._get_render_data_(iteration=iteration)
        serial = len(OBJ)
        ns = data[NR]
        ns.update(serial=serial, node=self, kids=[], pos=0)
        OBJ.append({"fin": 0, "node": self.idx, "body": [], "root": int(DEPTH[0] == 0)})
        REG[serial] = data
        DEPTH[0] += 1
        try:
            for child_idx, mode in self.kids:
                child = NODES[child_idx]
                child_serial = len(OBJ)
                if mode == "own":
                    it, d = RenderIterator(child), None
                else:
                    d = child._get_render_data_(iteration=True)
                    it = RenderIterator._from_render_data_(child, d, finalize=(mode == "give"))
                if mode in IN_BODY:
                    OBJ[serial]["body"].append(child_serial)
                if mode == "keep_drop":
                    del REG[child_serial]
                    PATH[child_serial] = (serial, len(ns.kids))
                ns.kids.append([mode, it, d, child_serial])
                del d
        finally:
            DEPTH[0] -= 1
        return data

    @classmethod
    def _finalize_render_data_(cls, render_data):
        ns = render_data[NR]
        serial = ns.serial
        USES.append((serial, 3, int(render_data.finalized)))
        OBJ[serial]["fin"] += 1
        gate = GATES.get(ns.node.idx)
        if gate:
            gate[0].set()
            gate[1].wait(TIMEOUT)
        for kid in ns.kids:
            kid[1].close()
            if kid[0] == "keep_fin":
                kid[2].finalize()
            elif kid[0] == "keep_drop":
                kid[2] = None  # the last reference: RenderData.__del__ runs here
        super()._finalize_render_data_(render_data)

    def _render_(self, render_data, render_args):
        ns = render_data[NR]
        USES.append((ns.serial, 0, int(render_data.finalized)))
        call = self.calls
        self.calls += 1
        if call == self.rfault:
            raise RuntimeError("injected (_render_)")
        d = render_data[Renderable]
        if self.frame_count is FrameCount.INDEFINITE and d.iteration:
            if ns.pos >= self.total:
                raise StopIteration("end of stream")
            ns.pos += 1
        for kid in ns.kids:
            try:
                next(kid[1])
            except BaseException:
                if kid[0] in OWNING:
                    ENDED.append(kid[3])
                raise
        return Frame(d.frame_offset if d.iteration else 0, 1, d.size, "ab")


class NRData(DataNamespace, render_cls=NR):
    serial: int
    node: object
    kids: list
    pos: int


def data_of(serial):
    """the render data object, while the driver can still reach it (None once it has been collected)"""
    data = REG.get(serial)
    if data is None and serial in PATH:
        parent, i = PATH[serial]
        pd = data_of(parent)
        if pd is not None:
            data = pd[NR].kids[i][2]
    return data


def flag_of(serial):
    data = data_of(serial)
    return None if data is None else int(data.finalized)


def snapshot():
    return [[o["fin"], flag_of(s)] for s, o in enumerate(OBJ)]


def run_nest(case):
    del OBJ[:], USES[:], ENDED[:], NODES[:], UNRAISABLE[:]
    REG.clear()
    PATH.clear()
    GATES.clear()
    DEPTH[0] = 0
    rf = {int(k): v for k, v in (case.get("rfaults") or {}).items()}
    for i, nd in enumerate(case["nodes"]):
        NODES.append(NR(i, nd["n"], nd.get("total", 2), [tuple(k) for k in nd.get("kids", [])], rf.get(i)))
    slots = {}  # slot -> [iterator, data serial, owns, kept data (keep ctor) or None]
    steps = []
    old_stdout, old_sleep = sys.stdout, _renderable_mod.sleep
    sys.stdout = io.StringIO()
    _renderable_mod.sleep = lambda *_: None
    pending = []  # the close() in progress in a second thread: [step index, thread, gate, errors]

    def ends(slot):
        s = slots[slot]
        return [s[1]] if s[2] else []

    def one_next(slot):
        if slots[slot][0] is None:
            return 4
        try:
            next(slots[slot][0])
            return 0
        except StopIteration:
            return 1
        except Exception:  # noqa: BLE001
            return 2

    def do_step(idx, st):
        del ENDED[:]
        before = len(OBJ)
        what = st[0]
        out, targets, sched = 0, [], [idx, None, 1]
        if what in ("next", "exhaust", "close", "drop", "ownerfin", "tclose") and st[1] not in slots:
            out = 4  # (a shrinking candidate) nothing to operate on
        elif what == "iter":
            _, slot, node, ctor = st
            old = slots.pop(slot, None)  # the previous iterator of the slot loses its last reference first
            targets = [old[1]] if old and old[2] and old[0] is not None else []
            del old
            gc.collect()
            before = len(OBJ)
            try:
                if ctor == "init":
                    it, kept = RenderIterator(NODES[node]), None
                else:
                    kept = NODES[node]._get_render_data_(iteration=True)
                    it = RenderIterator._from_render_data_(NODES[node], kept, finalize=(ctor == "give"))
                slots[slot] = [it, before, ctor != "keep", kept if ctor == "keep" else None]
                del it, kept
            except Exception:  # noqa: BLE001
                out = 2
        elif what == "next":
            out = one_next(st[1])
            targets = list(ENDED) + (ends(st[1]) if out in (1, 2) else [])
        elif what == "exhaust":
            for _ in range(40):
                out = one_next(st[1])
                if out:
                    break
            targets = list(ENDED) + (ends(st[1]) if out in (1, 2) else [])
        elif what == "close":
            if slots[st[1]][0] is None:
                out = 4
            else:
                slots[st[1]][0].close()
                targets = ends(st[1])
        elif what == "drop":
            s = slots[st[1]]
            s[0] = None
            gc.collect()
            targets = ends(st[1])
        elif what == "ownerfin":
            s = slots[st[1]]
            if s[3] is not None:
                s[3].finalize()
                targets = [s[1]]
        elif what in ("render", "str", "draw"):
            node = NODES[st[1]]
            try:
                if what == "render":
                    node.render()
                elif what == "str":
                    str(node)
                else:
                    node.draw(animate=bool(st[2]), loops=1, check_size=False)
            except StopIteration:
                out = 1
            except Exception:  # noqa: BLE001
                out = 2
            targets = list(ENDED) + [s for s in range(before, len(OBJ)) if OBJ[s]["root"]]
        elif what == "tclose":  # ["tclose", slot, gate node, moves until the gate]
            _, slot, gnode, moves = st
            gate = GATES[gnode] = (threading.Event(), threading.Event())
            err = []

            def work(it=slots[slot][0], err=err):
                try:
                    it.close()
                except BaseException as e:  # noqa: BLE001
                    err.append(type(e).__name__)

            th = threading.Thread(target=work, daemon=True)
            pending[:] = [idx, th, gate, err]
            th.start()
            deadline = time.monotonic() + TIMEOUT
            while not gate[0].wait(0.01):  # ... or its close() came back without ever reaching the gate
                if not th.is_alive() or time.monotonic() > deadline:
                    out = 3
                    break
            targets = ends(slot)
            sched = [idx, moves, 0]
        elif what == "trelease":  # the gate opens, the second thread finishes its close()
            if pending:
                tidx, th, gate, err = pending
                del pending[:]
                gate[1].set()
                th.join(TIMEOUT)
                out = 3 if th.is_alive() else (2 if err else 0)
                sched = [tidx, None, 1]
            else:
                out = 4
        else:
            raise AssertionError(what)
        return {"out": out, "targets": targets, "sched": sched}

    try:
        for idx, st in enumerate(case["script"]):
            res = do_step(idx, st)  # its locals (iterators, data) die with it
            res["snap"] = snapshot()
            steps.append(res)
    finally:
        sys.stdout = old_stdout
        _renderable_mod.sleep = old_sleep
        if pending:
            pending[2][1].set()
            pending[1].join(TIMEOUT)
    # everything is released and collected
    slots.clear()
    REG.clear()
    del NODES[:]
    GATES.clear()
    gc.collect()
    steps.append({"out": 0, "targets": list(range(len(OBJ))), "sched": [len(case["script"]), None, 1],
                  "snap": [[o["fin"], None] for o in OBJ]})
    return {"bodies": [o["body"] for o in OBJ], "nodes_of": [o["node"] for o in OBJ], "steps": steps,
            "bad_use": sum(1 for u in USES if u[2]), "unraisable": len(UNRAISABLE),
            "renders": sum(1 for u in USES if u[1] == 0)}


def run_case(case):
    mode = case["mode"]
    if mode == "ctor":
        if case.get("enumerate_async"):
            return run_ctor_enumerated(case)
        return [[case, run_ctor(case)]]
    if mode == "nest":
        return [[case, run_nest(case)]]
    raise AssertionError(mode)


if __name__ == "__main__":
    gc.collect()
    gc.freeze()
    implenv.write_results([run_case(c) for c in implenv.read_cases()])
