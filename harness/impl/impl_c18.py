"""C18 implementation driver: a real UrwidImageScreen writing to a buffer, driven by
scripted layout sequences.  stdin: JSON list of cases, stdout: JSON list of results.

case = {"term": "kitty"|"konsole"|"other", "ksup": bool, "size": [cols, rows], "z_start": int|None,
        "slots": {name: spec}, "steps": [step, ...]}
spec = {"kind": "kitty"|"iterm2"|"block", "img": int, "upscale": bool,
        "cls": 0 (UrwidImage) | 1 (a subclass) | 2 (a subclass of that subclass) | 3 (another subclass)}
step = {"op": "draw", "layout": L} | {"op": "redraw"} | {"op": "draw_bad", "layout": L}
     | {"op": "clear"} | {"op": "stop"}
     | {"op": "start", "alt": bool}       screen.start(alternate_buffer=alt) (default True); without the
                                          alternate buffer (urwid's inline mode) every canvas drawn carries a
                                          cursor at (0, 0): urwid's relative row addressing relies on it
     | {"op": "pre", "items": [P, ...]}   output of something else on the terminal while the screen is stopped
                                          (returned as the step's "out"; the screen is not involved)
     | {"op": "newscreen"}                the (stopped) screen object is replaced by a new UrwidImageScreen
     | {"op": "new", "slot": name, "spec": spec} | {"op": "del", "slot": name}
     | {"op": "api", "slots": [name, ...], "now": bool}     the PUBLIC screen.clear_images(*widgets, now=now);
                                                            no slots = all images
L    = ["img", slot] | ["text", str] | ["fill", ch] | ["divider"]
     | ["pile", [[opt, L], ...]]      opt = "pack" | ["given", n] | ["weight", n]
     | ["cols", [[opt, L], ...]]      opt = ["given", n] | ["weight", n]
     | ["overlay", top, bottom, align, width, valign, height, left, top_off]
     | ["listbox", [L, ...], focus, percent]
     | ["linebox", L] | ["filler", L, valign] | ["padding", L, left, right] | ["boxadapter", L, h]

P    = ["raw", row, col, w, h, z]          a kitty placement put at an absolute position
     | ["image", kind, img, width, spec]   format(KittyImage | ITerm2Image (img, width=width), spec), printed at the
                                           cursor as print() does through a tty (LF -> CR LF)
     | ["text", str] | ["alt", bool]       plain text / CSI ? 1049 h|l (another full-screen program)

Per step the result holds: the text written to the screen's buffer, the canvas' layout
(bands of cells obtained with urwid's OWN shard_body / shard_body_tail), _ti_image_cviews,
the disguise states, the rows of canvas.content() (ground truth), the z-indexes of the live
widgets, newly allocated / freed z-indexes, and the exception if one escaped."""
import gc
import io
import sys
import warnings
import weakref

warnings.simplefilter("ignore")

import implenv  # noqa: E402
from implenv import tests  # noqa: E402

import urwid  # noqa: E402
from PIL import Image  # noqa: E402
from urwid import canvas as ucanvas  # noqa: E402

from term_image.image import BlockImage, ITerm2Image, KittyImage  # noqa: E402
from term_image.widget import UrwidImage, UrwidImageCanvas, UrwidImageScreen  # noqa: E402
from term_image.widget import _urwid as _urwid_mod  # noqa: E402

# clear_images(now=True) writes straight to the terminal device (write_tty): captured here
TTY = io.BytesIO()
_urwid_mod.write_tty = TTY.write

urwid.set_encoding("utf-8")
tests.set_cell_size((2, 4))


class WithCursor(urwid.WidgetDecoration):
    """the top widget of an inline (no alternate buffer) session: its canvas carries a cursor at
    (0, 0).  urwid's partial-display mode addresses rows relative to the row it believes the
    cursor is on (Screen._cy), which it only learns from the canvas' cursor"""

    def selectable(self):
        return False

    def sizing(self):
        return self._original_widget.sizing()

    def rows(self, size, focus=False):
        return self._original_widget.rows(size, focus)

    def render(self, size, focus=False):
        canv = urwid.CompositeCanvas(self._original_widget.render(size, focus))
        canv.cursor = (0, 0)
        return canv


def make_image(i):
    """small deterministic images; 0/1 uniform (every line has the same bytes), 2.. textured"""
    i = int(i)
    if i == 0:
        return Image.new("RGB", (8, 8), (200, 30, 30))
    if i == 1:
        return Image.new("RGB", (12, 6), (30, 200, 30))
    w, h = [(8, 8), (12, 6), (6, 12), (16, 4)][i % 4]
    im = Image.new("RGB", (w, h))
    im.putdata([((x * 37 + y * 91 + i * 53) % 256, (x * 11 + y * 7 + i) % 256, (x * y + i * 17) % 256)
                for y in range(h) for x in range(w)])
    return im


class Case:
    def __init__(self, case):
        self.case = case
        self.term = case["term"]
        name = {"kitty": "kitty", "konsole": "konsole", "other": "wezterm"}[self.term]
        tests.set_terminal_name_version(name, "22.12.3" if name == "konsole" else "")
        KittyImage._supported = bool(case.get("ksup", True))
        KittyImage._forced_support = False
        ITerm2Image._supported = True
        # what ITerm2Image.is_supported() records on a real terminal
        ITerm2Image._TERM = name if name in ("konsole", "wezterm") else ""
        ITerm2Image._TERM_VERSION = "22.12.3" if name == "konsole" else ""
        UrwidImage._ti_free_z_indexes = set()
        UrwidImage._ti_next_z_index = case.get("z_start") or 1
        UrwidImageCanvas._ti_disguise_state = 0
        ucanvas.CanvasCache.clear()
        # the widget classes of the session: UrwidImage itself and (fresh for every session, so
        # that no class-level state survives) three members of its class tree
        Sub = type("Sub", (UrwidImage,), {})
        SubSub = type("SubSub", (Sub,), {})
        Other = type("Other", (UrwidImage,), {})
        self.classes = [UrwidImage, Sub, SubSub, Other]
        self.size = tuple(case["size"])
        self.buf = io.StringIO()
        self.screen = UrwidImageScreen(sys.__stdin__, self.buf)
        self.slots = {}
        self.serial = 0
        self.wids = {}      # id(widget) -> serial   (widgets kept alive only through self.slots / urwid)
        self.canv_ids = {}  # id(canvas) -> (number, weakref)
        self.canv_count = 0
        self.last_canvas = None
        self.known_live = {}   # serial -> z   as of the last step
        self.inline = False    # the current session was started without the alternate buffer

    def pre_output(self, items):
        """what another program (an earlier command, the application itself) writes to the terminal"""
        out = []
        for it in items:
            if it[0] == "raw":
                _, row, col, w, h, z = it
                out.append(f"\x1b[{row + 1};{col + 1}H\x1b_Ga=T,f=24,s=1,v=1,c={w},r={h},z={z},C=1;AAAA\x1b\\")
            elif it[0] == "image":
                _, kind, img, width, spec = it
                cls = {"kitty": KittyImage, "iterm2": ITerm2Image}[kind]
                out.append(format(cls(make_image(img), width=width), spec).replace("\n", "\r\n") + "\r\n")
            elif it[0] == "text":
                out.append(it[1].replace("\n", "\r\n"))
            elif it[0] == "alt":
                out.append("\x1b[?1049h" if it[1] else "\x1b[?1049l")
            else:
                raise ValueError(f"unknown pre-output item {it!r}")
        return "".join(out)

    # ---------------------------------------------------------------- widgets
    def new_widget(self, spec):
        img = make_image(spec.get("img", 0))
        cls = {"kitty": KittyImage, "iterm2": ITerm2Image, "block": BlockImage}[spec["kind"]]
        wcls = self.classes[int(spec.get("cls", 0)) % len(self.classes)]
        w = wcls(cls(img), spec.get("fmt", ""), upscale=bool(spec.get("upscale", True)))
        self.serial += 1
        w._verif_serial = self.serial
        w._verif_kind = spec["kind"]
        return w

    def build(self, L):
        k = L[0]
        if k == "img":
            return self.slots[L[1]]
        if k == "text":
            return urwid.Text(L[1])
        if k == "fill":
            return urwid.SolidFill(L[1])
        if k == "divider":
            return urwid.Divider("-")
        if k == "pile":
            items = []
            for opt, child in L[1]:
                w = self.build(child)
                items.append((opt, w) if opt == "pack" else (opt[0], opt[1], w))
            return urwid.Pile(items)
        if k == "cols":
            items = []
            for opt, child in L[1]:
                items.append((opt[0], opt[1], self.build(child)))
            return urwid.Columns(items, dividechars=int(L[2]) if len(L) > 2 else 0)
        if k == "overlay":
            _, top, bottom, align, width, valign, height, left, top_off = L
            return urwid.Overlay(self.build(top), self.build(bottom), align, width, valign, height,
                                 left=left, top=top_off)
        if k == "listbox":
            lb = urwid.ListBox(urwid.SimpleFocusListWalker([self.build(c) for c in L[1]]))
            if L[1]:
                lb.set_focus(min(int(L[2]), len(L[1]) - 1))
                lb.set_focus_valign(("relative", int(L[3])))
            return lb
        if k == "linebox":
            return urwid.LineBox(self.build(L[1]))
        if k == "filler":
            return urwid.Filler(self.build(L[1]), L[2])
        if k == "padding":
            return urwid.Padding(self.build(L[1]), left=L[2], right=L[3])
        if k == "boxadapter":
            return urwid.BoxAdapter(self.build(L[1]), L[2])
        raise ValueError(f"unknown layout node {k!r}")

    # ---------------------------------------------------------------- observation
    def canv_ref(self, canv):
        # identity numbers without keeping the canvas (and through it its widget) alive: the
        # entry disappears with the canvas, so that a recycled id() gets a new number
        key = id(canv)
        ent = self.canv_ids.get(key)
        if ent is None or ent[1]() is not canv:
            self.canv_count += 1
            ids = self.canv_ids
            self.canv_ids[key] = (self.canv_count, weakref.ref(canv, lambda _r, key=key, ids=ids: ids.pop(key, None)))
        ref = {"id": self.canv_ids[key][0], "kind": ["plain"]}
        if isinstance(canv, UrwidImageCanvas):
            try:
                widget = canv.widget_info[0]
            except TypeError:
                return ref
            img = getattr(widget, "_ti_image", None)
            serial = getattr(widget, "_verif_serial", 0)
            if isinstance(img, KittyImage):
                ref["kind"] = ["image", serial, "kitty", widget._ti_z_index]
            elif isinstance(img, ITerm2Image):
                ref["kind"] = ["image", serial, "iterm"]
            else:
                ref["kind"] = ["image", serial, "text"]
        return ref

    def layout_of(self, canv):
        """bands of cells, computed with urwid's own shard functions (the semantics that
        CompositeCanvas.content() itself uses)"""
        if not isinstance(canv, urwid.CompositeCanvas):
            return {"composite": False, "id": self.canv_ref(canv)["id"], "canv": self.canv_ref(canv),
                    "cols": canv.cols(), "rows": canv.rows()}
        bands, shards = [], []
        shard_tail = []
        for num_rows, cviews in canv.shards:
            sbody = ucanvas.shard_body(cviews, shard_tail, False)
            cells = []
            for done_rows, _it, cv in sbody:
                if done_rows == 0:
                    cells.append(["new", cv[0], cv[1], cv[2], cv[3], self.canv_ref(cv[5])])
                else:
                    cells.append(["cont", cv[2], cv[3] - done_rows])
            bands.append([num_rows, cells])
            shards.append([num_rows, [[cv[0], cv[1], cv[2], cv[3], self.canv_ref(cv[5])["id"]] for cv in cviews]])
            shard_tail = ucanvas.shard_body_tail(num_rows, sbody)
        return {"composite": True, "id": self.canv_ref(canv)["id"], "bands": bands, "shards": shards}

    def live_widgets(self):
        return [o for o in gc.get_objects() if isinstance(o, UrwidImage) and hasattr(o, "_verif_serial")]

    def observe(self, res):
        gc.collect()
        live = {w._verif_serial: w for w in self.live_widgets()}
        res["live_z"] = sorted([s, w._ti_z_index] for s, w in live.items() if hasattr(w, "_ti_z_index"))
        now = {s: w._ti_z_index for s, w in live.items() if hasattr(w, "_ti_z_index")}
        res["freed"] = sorted([s, z] for s, z in self.known_live.items() if s not in now)
        self.known_live = now
        res["free_set"] = sorted(UrwidImage._ti_free_z_indexes)
        res["next_z"] = UrwidImage._ti_next_z_index
        # the allocator must be ONE for the whole class tree: what each class sees
        res["class_state"] = [[c._ti_next_z_index, sorted(c._ti_free_z_indexes)] for c in self.classes]
        res["cviews"] = sorted(
            [self.canv_ref(cv[0])["id"], *cv[1:]] for cv in self.screen._ti_image_cviews
        )
        res["cdis"] = UrwidImageCanvas._ti_disguise_state
        res["wdis"] = sorted([s, w._ti_disguise_state] for s, w in live.items())

    def take_output(self):
        out = self.buf.getvalue()
        self.buf.seek(0)
        self.buf.truncate()
        return out

    # ---------------------------------------------------------------- steps
    def step(self, st):
        op = st["op"]
        res = {"op": op}
        try:
            if op == "start":
                alt = bool(st.get("alt", True))
                self.screen.start(alternate_buffer=alt)
                if self.inline != (not alt):
                    self.last_canvas = None   # rendered for the other mode (with / without the cursor)
                self.inline = not alt
            elif op == "pre":
                if self.screen._started:
                    raise ValueError("pre-output while the screen is started")
                res["pre"] = self.pre_output(st.get("items", []))
            elif op == "newscreen":
                if self.screen._started:
                    raise ValueError("new screen object while the old one is started")
                self.take_output()
                self.screen = UrwidImageScreen(sys.__stdin__, self.buf)
                self.last_canvas = None
            elif op == "stop":
                self.screen.stop()
            elif op == "clear":
                self.screen.clear()
            elif op == "new":
                self.slots.pop(st["slot"], None)
                gc.collect()
                try:
                    w = self.new_widget(st["spec"])
                except Exception as e:  # exhaustion raises UrwidImageError
                    res["alloc"] = ["raised", type(e).__name__]
                    # keep the layouts drawable: the slot gets a block image widget instead
                    self.slots[st["slot"]] = self.new_widget(dict(st["spec"], kind="block"))
                else:
                    self.slots[st["slot"]] = w
                    res["alloc"] = ["ok", w._verif_serial, st["spec"]["kind"],
                                    w._ti_z_index if hasattr(w, "_ti_z_index") else None,
                                    int(st["spec"].get("cls", 0))]
                    del w
            elif op == "del":
                self.slots.pop(st["slot"], None)
            elif op == "api":
                ws = [self.slots[n] for n in st.get("slots", []) if n in self.slots]
                res["api"] = [[w._verif_serial, w._verif_kind, getattr(w, "_ti_z_index", None)] for w in ws]
                res["api_all"] = not st.get("slots")
                if st.get("slots") and not ws:
                    res["api_skipped"] = True   # every named widget is gone: no arguments would mean "all"
                else:
                    self.screen.clear_images(*ws, now=bool(st.get("now")))
                del ws
            elif op in ("draw", "draw_bad", "redraw"):
                if op == "redraw":
                    canv = self.last_canvas
                    if canv is None:
                        raise ValueError("redraw without a canvas drawn in this mode")
                else:
                    widget = self.build(st["layout"])
                    if self.inline:
                        widget = WithCursor(widget)
                    canv = widget.render(self.size)
                    del widget
                self.last_canvas = canv
                res["layout"] = self.layout_of(canv)
                size = self.size if op != "draw_bad" else (self.size[0], self.size[1] + 1)
                try:
                    self.screen.draw_screen(size, canv)
                except Exception as e:
                    res["exc"] = type(e).__name__ + ": " + str(e)[:120]
                # ground truth: the rows of the canvas just drawn
                rows = []
                for row in canv.content():
                    rows.append(b"".join(seg[2] for seg in row).decode("utf-8", "replace"))
                res["rows"] = rows
                del canv
            else:
                raise ValueError(f"unknown op {op!r}")
        except Exception as e:
            import traceback
            res["abort"] = type(e).__name__ + ": " + str(e)[:200] + " | " + traceback.format_exc()[-600:]
        res["out"] = res.pop("pre", "") + self.take_output()
        res["tty"] = TTY.getvalue().decode("utf-8", "replace")
        TTY.seek(0)
        TTY.truncate()
        self.observe(res)
        return res

    def run(self):
        out = {"steps": []}
        try:
            for name, spec in self.case.get("slots", {}).items():
                r = self.step({"op": "new", "slot": name, "spec": spec})
                r["setup"] = True
                out["steps"].append(r)
            for st in self.case["steps"]:
                r = self.step(st)
                out["steps"].append(r)
                if "abort" in r:
                    break
        finally:
            try:
                if self.screen._started:
                    self.screen.stop()
            except Exception:
                pass
            self.slots.clear()
            self.last_canvas = None
            self.canv_ids.clear()
            self.screen = None
            self.classes = [UrwidImage]
            ucanvas.CanvasCache.clear()
            gc.collect()
        return out


def main():
    results = []
    for case in implenv.read_cases():
        try:
            results.append(Case(case).run())
        except Exception as e:
            import traceback
            results.append({"abort": type(e).__name__ + ": " + str(e) + traceback.format_exc()[-800:], "steps": []})
    implenv.write_results(results)


main()
