"""C18 implementation driver: a real UrwidImageScreen writing to a buffer, driven by
scripted layout sequences.  stdin: JSON list of cases, stdout: JSON list of results.

case = {"term": "kitty"|"konsole"|"other", "ksup": bool, "size": [cols, rows], "z_start": int|None,
        "ident": ["kitty", version] | ["konsole", version] | ["forced", name]   the terminal's identity (default by
                 `term`: kitty 0.32.2 / konsole 22.12.3 / forced support on "wezterm"); the library identifies
                 the terminal itself (KittyImage.is_supported() on the stubbed name/version and an OK reply to
                 the graphics query); "forced": it is not identified and KittyImage.forced_support = True,
        "slots": {name: spec}, "steps": [step, ...]}
spec = {"kind": "kitty"|"iterm2"|"block", "img": int, "upscale": bool,
        "cls": 0 (UrwidImage) | 1 (a subclass) | 2 (a subclass of that subclass) | 3 (another subclass),
        "fmt": str}       the widget's format specifier (default ""): alignments, alpha, and the style-specific
                          fields of the image's render style (kitty: L|W, z<n>, m0|1, c<0-9>; iterm2: L|W, m0|1, c<0-9>)
step = {"op": "draw", "layout": L [, "save": name]}      the canvas OBJECT drawn is kept under `name`
     | {"op": "redraw" [, "use": name]}                  draw_screen() of a canvas object drawn before: the one kept
                                                         under `name`, or the one handed to draw_screen() last
     | {"op": "draw_bad", "layout": L [, "how": H]}      a redraw in which the base class' draw_screen raises:
                                                         H = "size" (default: wrong number of rows, raises at once)
                                                           | ["content", k] (the canvas' content() raises at row k:
                                                             nothing is written)
                                                           | ["write", k] (the k-th write() of the BASE class'
                                                             draw_screen raises OSError: part of its output is
                                                             written)
     | {"op": "winch"}                                   a real SIGWINCH (signal.raise_signal) while the screen is
                                                         started: urwid does not draw until the resize is handled
     | {"op": "resize"}                                  the main loop handles the resize: screen.get_input()
                                                         reports 'window resize' (the size is unchanged)
     | {"op": "clear"} | {"op": "stop"}
     | {"op": "start", "alt": bool}       screen.start(alternate_buffer=alt) (default True); without the
                                          alternate buffer (urwid's inline mode) every canvas drawn carries a
                                          cursor at (0, 0): urwid's relative row addressing relies on it
     | {"op": "pre", "items": [P, ...]}   output of something else on the terminal while the screen is stopped
                                          (returned as the step's "out"; the screen is not involved)
     | {"op": "newscreen"}                the (stopped) screen object is replaced by a new UrwidImageScreen
     | {"op": "new", "slot": name, "spec": spec} | {"op": "del", "slot": name}
     | {"op": "api", "slots": [name, ...], "now": bool}     the PUBLIC screen.clear_images(*widgets, now=now);
                                                            no slots = all images
L    = ["img", slot] | ["text", str] | ["fill", ch] | ["divider"]
     | ["pile", [[opt, L], ...]]      opt = "pack" | ["given", n] | ["weight", n]
     | ["cols", [[opt, L], ...]]      opt = ["given", n] | ["weight", n]
     | ["overlay", top, bottom, align, width, valign, height, left, top_off]
     | ["listbox", [L, ...], focus, percent]
     | ["linebox", L] | ["filler", L, valign] | ["padding", L, left, right] | ["boxadapter", L, h]

P    = ["raw", row, col, w, h, z]          a kitty placement put at an absolute position
     | ["image", kind, img, width, spec]   format(KittyImage | ITerm2Image (img, width=width), spec), printed at the
                                           cursor as print() does through a tty (LF -> CR LF)
     | ["text", str] | ["alt", bool]       plain text / CSI ? 1049 h|l (another full-screen program)

Per step the result holds: the text written to the screen's buffer, the canvas' layout
(bands of cells obtained with urwid's OWN shard_body / shard_body_tail), _ti_image_cviews,
the disguise states, the rows of canvas.content() (ground truth), the z-indexes of the live
widgets, newly allocated / freed z-indexes, and the exception if one escaped."""
import gc
import io
import os
import pty
import signal
import sys
import warnings
import weakref

warnings.simplefilter("ignore")

import implenv  # noqa: E402
from implenv import tests  # noqa: E402

import urwid  # noqa: E402
from PIL import Image  # noqa: E402
from urwid import canvas as ucanvas  # noqa: E402

from term_image.image import BlockImage, ITerm2Image, KittyImage  # noqa: E402
from term_image.image import kitty as _kitty_mod  # noqa: E402
from term_image.widget import UrwidImage, UrwidImageCanvas, UrwidImageScreen  # noqa: E402
from term_image.widget import _urwid as _urwid_mod  # noqa: E402

# clear_images(now=True) writes straight to the terminal device (write_tty): captured here
TTY = io.BytesIO()
_urwid_mod.write_tty = TTY.write

urwid.set_encoding("utf-8")
tests.set_cell_size((2, 4))

# the screen's input: a pty on which no key ever arrives, so that get_input() can be used to handle a
# resize the way urwid.MainLoop does
_PTY_MASTER, _PTY_SLAVE = pty.openpty()
TTY_IN = os.fdopen(_PTY_SLAVE, "r")


class FailingIO(io.StringIO):
    """the screen's output buffer; the `fail_at`-th write() from now on raises OSError (once).
    `arm`: the count to start when the BASE class' draw_screen is entered (see _armed_draw)"""

    fail_at = None
    arm = None

    def write(self, data):
        if self.fail_at is not None:
            self.fail_at -= 1
            if self.fail_at <= 0:
                self.fail_at = None
                raise OSError(5, "Input/output error")
        return super().write(data)


class RaisingCanvas(urwid.CompositeCanvas):
    """a canvas whose content() raises when it reaches row `_verif_fail_row` (a widget whose canvas
    fails part-way); `_verif_fail_row = None`: behaves normally"""

    _verif_fail_row = None

    def content(self, *args, **kwargs):
        for i, row in enumerate(super().content(*args, **kwargs)):
            if self._verif_fail_row is not None and i >= self._verif_fail_row:
                raise RuntimeError("content() failed")
            yield row


_base_draw_screen = urwid.raw_display.Screen.draw_screen


def _armed_draw(self, size, canvas):
    """the base class' draw_screen; a write failure that was asked for strikes one of ITS writes"""
    buf = self._term_output_file
    if getattr(buf, "arm", None) is not None:
        buf.fail_at, buf.arm = buf.arm, None
    try:
        return _base_draw_screen(self, size, canvas)
    finally:
        if hasattr(buf, "fail_at"):
            buf.fail_at = None      # it made fewer writes: no failure


urwid.raw_display.Screen.draw_screen = _armed_draw


def new_screen(buf):
    screen = UrwidImageScreen(TTY_IN, buf)
    screen.set_input_timeouts(max_wait=0)
    return screen


class WithCursor(urwid.WidgetDecoration):
    """the top widget of an inline (no alternate buffer) session: its canvas carries a cursor at
    (0, 0).  urwid's partial-display mode addresses rows relative to the row it believes the
    cursor is on (Screen._cy), which it only learns from the canvas' cursor"""

    def selectable(self):
        return False

    def sizing(self):
        return self._original_widget.sizing()

    def rows(self, size, focus=False):
        return self._original_widget.rows(size, focus)

    def render(self, size, focus=False):
        canv = urwid.CompositeCanvas(self._original_widget.render(size, focus))
        canv.cursor = (0, 0)
        return canv


def make_image(i):
    """small deterministic images; 0/1 uniform (every line has the same bytes), 2.. textured"""
    i = int(i)
    if i == 0:
        return Image.new("RGB", (8, 8), (200, 30, 30))
    if i == 1:
        return Image.new("RGB", (12, 6), (30, 200, 30))
    w, h = [(8, 8), (12, 6), (6, 12), (16, 4)][i % 4]
    im = Image.new("RGB", (w, h))
    im.putdata([((x * 37 + y * 91 + i * 53) % 256, (x * 11 + y * 7 + i) % 256, (x * y + i * 17) % 256)
                for y in range(h) for x in range(w)])
    return im


class Case:
    def __init__(self, case):
        self.case = case
        self.term = case["term"]
        name = {"kitty": "kitty", "konsole": "konsole", "other": "wezterm"}[self.term]
        # the IDENTITY of the terminal: ["kitty", version] | ["konsole", version] | ["forced", name]
        # (an unidentified terminal implementing the kitty protocol; the application forces support)
        ident = case.get("ident") or {"kitty": ["kitty", "0.32.2"], "konsole": ["konsole", "22.12.3"],
                                      "other": ["forced", "wezterm"]}[self.term]
        if (ident[0] == "forced") != (self.term == "other") or (ident[0] != "forced" and ident[0] != self.term):
            raise ValueError(f"identity {ident!r} on terminal {self.term!r}")
        version = ident[1] if ident[0] != "forced" else ""
        name = ident[1] if ident[0] == "forced" else name
        tests.set_terminal_name_version(name, version)
        KittyImage._forced_support = False
        KittyImage._KITTY_VERSION = ()
        KittyImage._TERM = KittyImage._TERM_VERSION = ""
        if not case.get("ksup", True):
            KittyImage._supported = False
        else:
            # the library identifies the terminal ITSELF: KittyImage.is_supported() with the terminal's
            # reply to the graphics query (kitty, Konsole and WezTerm answer OK) and its name / version;
            # what it records (_KITTY_VERSION, ...) is its own doing
            KittyImage._supported = None
            saved_query = _kitty_mod.query_terminal
            _kitty_mod.query_terminal = lambda *a, **k: b"\x1b_Gi=31;OK\x1b\\\x1b[?62;c"
            try:
                identified = KittyImage.is_supported()
            finally:
                _kitty_mod.query_terminal = saved_query
            if identified != (ident[0] != "forced"):
                raise ValueError(f"identity {ident!r}: KittyImage.is_supported() = {identified}")
            if not identified:
                KittyImage.forced_support = True      # the documented way for other kitty-protocol terminals
        ITerm2Image._supported = True
        # what ITerm2Image.is_supported() records on a real terminal
        ITerm2Image._TERM = name if name in ("konsole", "wezterm") else ""
        ITerm2Image._TERM_VERSION = "22.12.3" if name == "konsole" else ""
        UrwidImage._ti_free_z_indexes = set()
        UrwidImage._ti_next_z_index = case.get("z_start") or 1
        UrwidImageCanvas._ti_disguise_state = 0
        ucanvas.CanvasCache.clear()
        # the widget classes of the session: UrwidImage itself and (fresh for every session, so
        # that no class-level state survives) three members of its class tree
        Sub = type("Sub", (UrwidImage,), {})
        SubSub = type("SubSub", (Sub,), {})
        Other = type("Other", (UrwidImage,), {})
        self.classes = [UrwidImage, Sub, SubSub, Other]
        self.size = tuple(case["size"])
        self.buf = FailingIO()
        self.screen = new_screen(self.buf)
        self.slots = {}
        self.widgets = weakref.WeakSet()
        self.serial = 0
        self.wids = {}      # id(widget) -> serial   (widgets kept alive only through self.slots / urwid)
        self.canv_ids = {}  # id(canvas) -> (number, weakref)
        self.canv_count = 0
        self.last_canvas = None
        self.kept = {}         # name -> (canvas object, rendered for the inline mode)
        self.known_live = {}   # serial -> z   as of the last step
        self.inline = False    # the current session was started without the alternate buffer

    def pre_output(self, items):
        """what another program (an earlier command, the application itself) writes to the terminal"""
        out = []
        for it in items:
            if it[0] == "raw":
                _, row, col, w, h, z = it
                out.append(f"\x1b[{row + 1};{col + 1}H\x1b_Ga=T,f=24,s=1,v=1,c={w},r={h},z={z},C=1;AAAA\x1b\\")
            elif it[0] == "image":
                _, kind, img, width, spec = it
                cls = {"kitty": KittyImage, "iterm2": ITerm2Image}[kind]
                out.append(format(cls(make_image(img), width=width), spec).replace("\n", "\r\n") + "\r\n")
            elif it[0] == "text":
                out.append(it[1].replace("\n", "\r\n"))
            elif it[0] == "alt":
                out.append("\x1b[?1049h" if it[1] else "\x1b[?1049l")
            else:
                raise ValueError(f"unknown pre-output item {it!r}")
        return "".join(out)

    # ---------------------------------------------------------------- widgets
    def new_widget(self, spec):
        img = make_image(spec.get("img", 0))
        cls = {"kitty": KittyImage, "iterm2": ITerm2Image, "block": BlockImage}[spec["kind"]]
        wcls = self.classes[int(spec.get("cls", 0)) % len(self.classes)]
        w = wcls(cls(img), spec.get("fmt", ""), upscale=bool(spec.get("upscale", True)))
        self.serial += 1
        w._verif_serial = self.serial
        self.widgets.add(w)
        w._verif_kind = spec["kind"]
        # the WHOLE render method: one placement for the whole image on its first line
        w._verif_whole = spec["kind"] != "block" and "W" in spec.get("fmt", "").partition("+")[2]
        return w

    def build(self, L):
        k = L[0]
        if k == "img":
            return self.slots[L[1]]
        if k == "text":
            return urwid.Text(L[1])
        if k == "fill":
            return urwid.SolidFill(L[1])
        if k == "divider":
            return urwid.Divider("-")
        if k == "pile":
            items = []
            for opt, child in L[1]:
                w = self.build(child)
                items.append((opt, w) if opt == "pack" else (opt[0], opt[1], w))
            return urwid.Pile(items)
        if k == "cols":
            items = []
            for opt, child in L[1]:
                items.append((opt[0], opt[1], self.build(child)))
            return urwid.Columns(items, dividechars=int(L[2]) if len(L) > 2 else 0)
        if k == "overlay":
            _, top, bottom, align, width, valign, height, left, top_off = L
            return urwid.Overlay(self.build(top), self.build(bottom), align, width, valign, height,
                                 left=left, top=top_off)
        if k == "listbox":
            lb = urwid.ListBox(urwid.SimpleFocusListWalker([self.build(c) for c in L[1]]))
            if L[1]:
                lb.set_focus(min(int(L[2]), len(L[1]) - 1))
                lb.set_focus_valign(("relative", int(L[3])))
            return lb
        if k == "linebox":
            return urwid.LineBox(self.build(L[1]))
        if k == "filler":
            return urwid.Filler(self.build(L[1]), L[2])
        if k == "padding":
            return urwid.Padding(self.build(L[1]), left=L[2], right=L[3])
        if k == "boxadapter":
            return urwid.BoxAdapter(self.build(L[1]), L[2])
        raise ValueError(f"unknown layout node {k!r}")

    # ---------------------------------------------------------------- observation
    def canv_ref(self, canv):
        # identity numbers without keeping the canvas (and through it its widget) alive: the
        # entry disappears with the canvas, so that a recycled id() gets a new number
        key = id(canv)
        ent = self.canv_ids.get(key)
        if ent is None or ent[1]() is not canv:
            self.canv_count += 1
            ids = self.canv_ids
            self.canv_ids[key] = (self.canv_count, weakref.ref(canv, lambda _r, key=key, ids=ids: ids.pop(key, None)))
        ref = {"id": self.canv_ids[key][0], "kind": ["plain"]}
        if isinstance(canv, UrwidImageCanvas):
            try:
                widget = canv.widget_info[0]
            except TypeError:
                return ref
            img = getattr(widget, "_ti_image", None)
            serial = getattr(widget, "_verif_serial", 0)
            if isinstance(img, KittyImage):
                ref["kind"] = ["image", serial, "kitty", widget._ti_z_index]
            elif isinstance(img, ITerm2Image):
                ref["kind"] = ["image", serial, "iterm"]
            else:
                ref["kind"] = ["image", serial, "text"]
        return ref

    def layout_of(self, canv):
        """bands of cells, computed with urwid's own shard functions (the semantics that
        CompositeCanvas.content() itself uses)"""
        if not isinstance(canv, urwid.CompositeCanvas):
            return {"composite": False, "id": self.canv_ref(canv)["id"], "canv": self.canv_ref(canv),
                    "cols": canv.cols(), "rows": canv.rows()}
        bands, shards = [], []
        shard_tail = []
        for _n, cviews in canv.shards:
            for cv in cviews:
                if isinstance(cv[5], UrwidImageCanvas) and isinstance(cv[5].widget_info, tuple):
                    if getattr(cv[5].widget_info[0], "_verif_whole", False) and (
                            cv[0] or cv[1] or cv[2] != cv[5].cols() or cv[3] != cv[5].rows()):
                        self.whole_trimmed = True
        for num_rows, cviews in canv.shards:
            sbody = ucanvas.shard_body(cviews, shard_tail, False)
            cells = []
            for done_rows, _it, cv in sbody:
                if done_rows == 0:
                    cells.append(["new", cv[0], cv[1], cv[2], cv[3], self.canv_ref(cv[5])])
                else:
                    cells.append(["cont", cv[2], cv[3] - done_rows])
            bands.append([num_rows, cells])
            shards.append([num_rows, [[cv[0], cv[1], cv[2], cv[3], self.canv_ref(cv[5])["id"]] for cv in cviews]])
            shard_tail = ucanvas.shard_body_tail(num_rows, sbody)
        return {"composite": True, "id": self.canv_ref(canv)["id"], "bands": bands, "shards": shards}

    def live_widgets(self):
        # every widget of the session was registered at construction (weakly: the set does not keep it alive)
        return [o for o in list(self.widgets) if hasattr(o, "_verif_serial")]

    def observe(self, res):
        gc.collect()
        live = {w._verif_serial: w for w in self.live_widgets()}
        res["live_z"] = sorted([s, w._ti_z_index] for s, w in live.items() if hasattr(w, "_ti_z_index"))
        now = {s: w._ti_z_index for s, w in live.items() if hasattr(w, "_ti_z_index")}
        res["freed"] = sorted([s, z] for s, z in self.known_live.items() if s not in now)
        self.known_live = now
        res["free_set"] = sorted(UrwidImage._ti_free_z_indexes)
        res["next_z"] = UrwidImage._ti_next_z_index
        # the allocator must be ONE for the whole class tree: what each class sees
        res["class_state"] = [[c._ti_next_z_index, sorted(c._ti_free_z_indexes)] for c in self.classes]
        res["cviews"] = sorted(
            [self.canv_ref(cv[0])["id"], *cv[1:]] for cv in self.screen._ti_image_cviews
        )
        res["resized"] = bool(self.screen._resized)
        res["cdis"] = UrwidImageCanvas._ti_disguise_state
        res["wdis"] = sorted([s, w._ti_disguise_state] for s, w in live.items())

    def take_output(self):
        out = self.buf.getvalue()
        self.buf.seek(0)
        self.buf.truncate()
        return out

    # ---------------------------------------------------------------- steps
    def step(self, st):
        op = st["op"]
        res = {"op": op}
        try:
            if op == "start":
                alt = bool(st.get("alt", True))
                self.screen.start(alternate_buffer=alt)
                if self.inline != (not alt):
                    self.last_canvas = None   # rendered for the other mode (with / without the cursor)
                    self.kept.clear()
                self.inline = not alt
            elif op == "pre":
                if self.screen._started:
                    raise ValueError("pre-output while the screen is started")
                res["pre"] = self.pre_output(st.get("items", []))
            elif op == "newscreen":
                if self.screen._started:
                    raise ValueError("new screen object while the old one is started")
                self.take_output()
                self.screen = new_screen(self.buf)
                self.last_canvas = None
            elif op == "stop":
                self.screen.stop()
            elif op == "clear":
                self.screen.clear()
            elif op == "new":
                self.slots.pop(st["slot"], None)
                gc.collect()
                try:
                    w = self.new_widget(st["spec"])
                except Exception as e:  # exhaustion raises UrwidImageError
                    res["alloc"] = ["raised", type(e).__name__]
                    # keep the layouts drawable: the slot gets a block image widget instead
                    self.slots[st["slot"]] = self.new_widget(dict(st["spec"], kind="block"))
                else:
                    self.slots[st["slot"]] = w
                    res["alloc"] = ["ok", w._verif_serial, st["spec"]["kind"],
                                    w._ti_z_index if hasattr(w, "_ti_z_index") else None,
                                    int(st["spec"].get("cls", 0))]
                    del w
            elif op == "del":
                self.slots.pop(st["slot"], None)
            elif op == "api":
                ws = [self.slots[n] for n in st.get("slots", []) if n in self.slots]
                res["api"] = [[w._verif_serial, w._verif_kind, getattr(w, "_ti_z_index", None)] for w in ws]
                res["api_all"] = not st.get("slots")
                if st.get("slots") and not ws:
                    res["api_skipped"] = True   # every named widget is gone: no arguments would mean "all"
                else:
                    self.screen.clear_images(*ws, now=bool(st.get("now")))
                del ws
            elif op == "winch":
                if not self.screen._started or signal.getsignal(signal.SIGWINCH) != self.screen._sigwinch_handler:
                    raise ValueError("SIGWINCH while the screen's handler is not installed")
                signal.raise_signal(signal.SIGWINCH)
            elif op == "resize":
                if not self.screen._started:
                    raise ValueError("resize handled while the screen is stopped")
                # what urwid.MainLoop does on input: only when a resize is pending (otherwise no input
                # is available and there is nothing to handle)
                res["keys"] = self.screen.get_input() if self.screen._resized else []
            elif op in ("draw", "draw_bad", "redraw"):
                how = st.get("how", "size") if op == "draw_bad" else None
                if op == "redraw":
                    if st.get("use") is not None:
                        canv, inl = self.kept.get(st["use"], (None, None))
                        if canv is None or inl != self.inline:
                            raise ValueError("redraw of a canvas that was not kept in this mode")
                    else:
                        canv = self.last_canvas
                    if canv is None:
                        raise ValueError("redraw without a canvas drawn in this mode")
                else:
                    widget = self.build(st["layout"])
                    if self.inline:
                        widget = WithCursor(widget)
                    canv = widget.render(self.size)
                    del widget
                    if how is not None and how != "size" and how[0] == "content":
                        canv = RaisingCanvas(canv)
                        if self.inline:
                            canv.cursor = (0, 0)
                    if st.get("save") is not None:
                        self.kept[st["save"]] = (canv, self.inline)
                self.last_canvas = canv
                self.whole_trimmed = False
                res["layout"] = self.layout_of(canv)
                if self.whole_trimmed:
                    res["whole_trimmed"] = True
                size = self.size if how != "size" else (self.size[0], self.size[1] + 1)
                if how is not None and how != "size":
                    if how[0] == "content":
                        canv._verif_fail_row = int(how[1])
                    else:
                        self.buf.arm = int(how[1])
                try:
                    self.screen.draw_screen(size, canv)
                except Exception as e:
                    res["exc"] = type(e).__name__ + ": " + str(e)[:120]
                self.buf.fail_at = self.buf.arm = None
                if isinstance(canv, RaisingCanvas):
                    canv._verif_fail_row = None
                # urwid's own record: this canvas is the one its screen buffer holds
                res["reached"] = self.screen.screen_buf is not None and self.screen._screen_buf_canvas is canv
                # ground truth: the rows of the canvas just drawn
                rows = []
                for row in canv.content():
                    rows.append(b"".join(seg[2] for seg in row).decode("utf-8", "replace"))
                res["rows"] = rows
                del canv
            else:
                raise ValueError(f"unknown op {op!r}")
        except Exception as e:
            import traceback
            res["abort"] = type(e).__name__ + ": " + str(e)[:200] + " | " + traceback.format_exc()[-600:]
        res["out"] = res.pop("pre", "") + self.take_output()
        res["tty"] = TTY.getvalue().decode("utf-8", "replace")
        TTY.seek(0)
        TTY.truncate()
        self.observe(res)
        return res

    def run(self):
        out = {"steps": []}
        try:
            for name, spec in self.case.get("slots", {}).items():
                r = self.step({"op": "new", "slot": name, "spec": spec})
                r["setup"] = True
                out["steps"].append(r)
            for st in self.case["steps"]:
                r = self.step(st)
                out["steps"].append(r)
                if "abort" in r:
                    break
        finally:
            try:
                if self.screen._started:
                    self.screen.stop()
            except Exception:
                pass
            self.slots.clear()
            self.last_canvas = None
            self.kept.clear()
            self.canv_ids.clear()
            self.screen = None
            self.classes = [UrwidImage]
            ucanvas.CanvasCache.clear()
            gc.collect()
        return out


def main():
    # everything imported so far lives for the whole run: keep it out of the collections made at every step
    gc.collect()
    gc.freeze()
    results = []
    for case in implenv.read_cases():
        try:
            results.append(Case(case).run())
        except Exception as e:
            import traceback
            results.append({"abort": type(e).__name__ + ": " + str(e) + traceback.format_exc()[-800:], "steps": []})
    implenv.write_results(results)


main()
