"""C11 implementation driver.

part "iter"  : ImageIterator histories (next / seek / close / drop / image size change) on
               animated sources; every yielded frame is identified with the frame obtained
               by formatting that frame directly (image.seek(k); format(image, spec)) on a
               second instance of the same source; image.tell() and loop_no after every op.
               Round 4: an "env" op changes the ENVIRONMENT (terminal size as seen by every
               module of the library, global cell ratio, cell size) between two yields; the
               reference table has one row per (size setting, environment) configuration
               visited, obtained under that environment; and right after every yield the
               same frame is formatted directly on the second instance (same size setting,
               same specifier, the environment in force at that moment): "direct".
part "reent" : the same histories (no environments) with the op ["nextcd", m, how]: a next() during whose
               first render m calls of it.close() arrive — re-entrantly, from a second thread, or from a
               signal handler (class CloseDuring); per op additionally [calls made, refused by
               ValueError("generator already executing"), ended otherwise].
part "fault" : a scenario (format / str / draw / animated draw / iteration / n_frames) run
               once without fault (counting the library's calls to PIL convert / resize /
               alpha_composite / save / tobytes) and then once per call index k with a
               failure injected at the k-th call; observed: Image.open / Image.close pairing
               (both wrapped; every opened image is kept referenced, so that nothing is closed
               by the garbage collector), /proc/self/fd count against its baseline, the
               caller's PIL image still usable, image.size and image.tell() unchanged.
               "draw_bad": draw() with an invalid repeat / cached / style argument.
part "url"   : images built by from_url from a local http.server thread on 127.0.0.1
               (200 image, 404, non-image body, bad constructor argument); listing of the
               library's temp dir before / while open / after close / after failure.

part "corder": (round 9) histories of ImageIterator(image) / next() / iterator.close() / image.close() with
               the image's close() at any position (file, PIL, URL sources; several iterators over one
               image); after EVERY operation, nothing dropped or collected: descriptors held on behalf
               of the library, the temp-dir listing, the caller's PIL image still usable; at the end
               the balance after drop + collection.

Everything reported is an integer, a bool or a list of those."""
import implenv
from implenv import tests
import gc
import io
import os
import random
import shutil
import signal
import sys
import tempfile
import threading
import time
import warnings

warnings.simplefilter("ignore")
os.environ["NO_PROXY"] = "127.0.0.1,localhost"
os.environ["no_proxy"] = "127.0.0.1,localhost"

from PIL import Image

import term_image.image.common as common
from term_image.image import BlockImage, ImageIterator, ITerm2Image, KittyImage, Size



class _NoSleepTime:  # animated draw: no waiting (only the library's view of `time` is replaced)
    time = staticmethod(time.time)
    sleep = staticmethod(lambda *_: None)


common.time = _NoSleepTime
TMP = tempfile.mkdtemp(prefix="c11-")
REAL_STDOUT = sys.stdout
REAL_OPEN = Image.open
FAULT_METHODS = ("convert", "resize", "alpha_composite", "save", "tobytes")
REAL = {m: getattr(Image.Image, m) for m in FAULT_METHODS}


def fd_count():
    return len(os.listdir("/proc/self/fd"))


import term_image as _ti

DEFAULT_ENV = {"term": [80, 30], "ratio": 0.5}


def set_env(env, case):
    """The environment is `env` from now on, for every module of the library: terminal size,
    global cell ratio (text-based styles), cell size (graphics-based styles)."""
    ts = os.terminal_size(tuple(env.get("term") or (80, 30)))
    for name, mod in list(sys.modules.items()):
        if name.startswith("term_image") and hasattr(mod, "get_terminal_size"):
            mod.get_terminal_size = lambda ts=ts: ts
    tests.set_cell_size(tuple(env.get("cell") or case.get("cell", (10, 20))))
    _ti.set_cell_ratio(float(env.get("ratio") or 0.5))


def setup_style(style, term=None):
    if style == "block":
        return BlockImage
    if style == "kitty":
        KittyImage._supported = True
        KittyImage._TERM, KittyImage._TERM_VERSION, KittyImage._KITTY_VERSION = "kitty", "0.30.0", (0, 30, 0)
        return KittyImage
    ITerm2Image._supported = True
    ITerm2Image._TERM, ITerm2Image._TERM_VERSION = term or "wezterm", "1"
    return ITerm2Image


def make_frames(src):
    rnd = random.Random(src["seed"])
    w, h, mode = src["w"], src["h"], src["mode"]
    frames = []
    for i in range(src.get("frames", 1)):
        bands = {"L": 1, "P": 1, "RGB": 3, "RGBA": 4}[mode]
        chans = [Image.frombytes("L", (w, h), rnd.randbytes(w * h)) for _ in range(bands)]
        im = chans[0] if bands == 1 else Image.merge(mode, chans)
        if mode == "P":
            im = im.convert("P")
        frames.append(im)
    return frames


def source_path(src, idx):
    if src["kind"] == "fixture":
        return os.path.join(implenv.REPO, "tests", "images", src["name"])
    path = os.path.join(TMP, f"s{idx}_{src['seed']}.{src['fmt'].lower()}")
    if not os.path.exists(path):
        frames = make_frames(src)
        kw = {}
        if len(frames) > 1:
            kw = dict(save_all=True, append_images=frames[1:], duration=100, loop=0)
        if src["fmt"] == "WEBP":
            kw["lossless"] = True
        frames[0].save(path, src["fmt"], **kw)
    return path


def construct(cls, kind, path, size=None):
    """-> (image, caller's PIL image or None)"""
    keep = None
    if kind == "file":
        image = cls.from_file(path)
    elif kind == "pil_file":
        keep = REAL_OPEN(path)
        image = cls(keep)
    else:  # PIL image decoded from bytes (no file name, no descriptor)
        keep = REAL_OPEN(io.BytesIO(open(path, "rb").read()))
        image = cls(keep)
    if size is not None:
        apply_size(image, size)
    return image, keep


def apply_size(image, size):
    if isinstance(size, str):
        image.size = Size[size]
    else:
        image.set_size(size[0], size[1])


def ref_spec(spec):
    """The specifier used for the direct rendering of a frame: a native-animation request
    (+A...) stands for a whole-image frame (+W...)."""
    if "+" in spec:
        head, style = spec.split("+", 1)
        if style.startswith("A"):
            return head + "+W" + style[1:]
    return spec


class FailFrame:
    """Make rendering of frame number k fail (deterministically in the frame number)."""

    def __init__(self, cls, k):
        self.cls, self.k = cls, k

    def __enter__(self):
        if self.k is None:
            return
        real = self.real = self.cls._render_image
        k = self.k

        def _render_image(self_, img, alpha, **kw):
            if self_._seek_position == k:
                if kw.get("frame"):
                    pass
                raise RuntimeError("injected render failure")
            return real(self_, img, alpha, **kw)

        self.cls._render_image = _render_image

    def __exit__(self, *a):
        if self.k is not None:
            self.cls._render_image = self.real


class OpenTracker:
    """Records every image returned by Image.open (strong references: no help from the
    garbage collector) and every image on which Image.close() is called."""

    def __init__(self):
        self.opened, self.closed = [], set()
        self.paused = False  # the oracle's own direct formatting is not the library under observation

    def __enter__(self):
        tr = self
        real_close = self.real_close = Image.Image.close

        def opener(*a, **kw):
            im = REAL_OPEN(*a, **kw)
            if not tr.paused:
                tr.opened.append(im)
            return im

        def close(self_):
            tr.closed.add(id(self_))
            return real_close(self_)

        Image.open = opener
        common.Image.open = opener
        Image.Image.close = close
        return self

    def __exit__(self, *a):
        Image.open = REAL_OPEN
        Image.Image.close = self.real_close

    def unclosed(self):
        return sum(1 for im in self.opened if id(im) not in self.closed)


class CloseDuring:
    """Round 7: for the duration of ONE next(), the first `_render_image` call on `image` (made by
    the iterator's frame generator, which is therefore EXECUTING) makes `m` calls of `it.close()`
    arrive: re-entrantly from the render ("reent"), from a second thread while the rendering thread
    waits behind Event gates ("thread"), or from a real signal handler (signal.raise_signal inside
    the render: "signal").  Counts the calls made, those answered by ValueError("generator already
    executing") and those that ended in any other way."""

    def __init__(self, cls, image, it, m, how):
        self.cls, self.image, self.it, self.m, self.how = cls, image, it, m, how
        self.fired = False
        self.made = self.refused = self.other = 0

    def attempts(self):
        for _ in range(self.m):
            self.made += 1
            try:
                self.it.close()
                self.other += 1
            except ValueError as e:
                if "already executing" in str(e):
                    self.refused += 1
                else:
                    self.other += 1
            except BaseException:  # noqa: BLE001
                self.other += 1

    def deliver(self):
        if self.how == "thread":
            go, done = threading.Event(), threading.Event()

            def worker():
                go.wait(30)
                try:
                    self.attempts()
                finally:
                    done.set()

            t = threading.Thread(target=worker, daemon=True)
            t.start()
            go.set()
            done.wait(30)
            t.join(30)
        elif self.how == "signal":
            handled = threading.Event()

            def handler(signum, frame):
                try:
                    self.attempts()
                finally:
                    handled.set()

            prev = signal.signal(signal.SIGUSR1, handler)
            try:
                signal.raise_signal(signal.SIGUSR1)
                handled.wait(30)
            finally:
                signal.signal(signal.SIGUSR1, prev)
        else:
            self.attempts()

    def __enter__(self):
        real = self.real = self.cls._render_image
        me = self

        def _render_image(self_, img, alpha, **kw):
            if self_ is me.image and not me.fired:
                me.fired = True
                me.deliver()
            return real(self_, img, alpha, **kw)

        self.cls._render_image = _render_image
        return self

    def __exit__(self, *a):
        self.cls._render_image = self.real
        self.it = self.image = None


# ----------------------------------------------------------------- part: iter


def run_iter(case, idx):
    try:
        return run_iter_(case, idx)
    finally:
        set_env(DEFAULT_ENV, {})


def run_iter_(case, idx):
    envs = case.get("envs") or [{"term": [80, 30]}]
    nenv = len(envs)
    set_env(envs[0], case)
    cls = setup_style(case["style"], case.get("term"))
    path = source_path(case["src"], idx)
    sizes = case["sizes"]
    ids = {}

    def fid(s):
        return ids.setdefault(s, len(ids))

    # the (size setting, environment) configurations the history visits
    visited, cs, ce = {(0, 0)}, 0, 0
    for op in case["ops"]:
        if op[0] == "size":
            cs = op[1]
        elif op[0] == "env":
            ce = op[1]
        visited.add((cs, ce))

    res = {"nenv": nenv}
    with FailFrame(cls, case.get("fail_frame")):
        # reference: direct formatting of every frame under every configuration visited, on a
        # second instance
        ref, ref_keep = construct(cls, case["source"], path)
        N = ref.n_frames
        res["N"] = N
        table = [[] for _ in range(len(sizes) * nenv)]
        hashes = [0] * (len(sizes) * nenv)
        rspec = ref_spec(case["spec"])
        for (i, j) in sorted(visited):
            set_env(envs[j], case)
            apply_size(ref, sizes[i])
            hashes[i * nenv + j] = hash(ref.rendered_size)
            row = []
            for k in range(N):
                ref.seek(k)
                try:
                    row.append(fid(format(ref, rspec)))
                except Exception:
                    row.append(-1)
            table[i * nenv + j] = row
        res["table"], res["hashes"] = table, hashes
        set_env(envs[0], case)
        apply_size(ref, sizes[0])
        ref.seek(0)
        gc.collect()

        fd0 = fd_count()
        image, keep = construct(cls, case["source"], path, sizes[0])
        if case.get("pos0"):
            image.seek(case["pos0"] % N)
        size_setting = image.size
        tracker = OpenTracker()
        tracker.__enter__()
        it = ImageIterator(image, case["repeat"], case["spec"], case["cached"])
        res["cache_on"] = bool(it._cached)
        rows, direct, cdrows = [], [], []
        cur_size = 0
        last_ln = None
        for op in case["ops"]:
            code, y, d = -1, -1, -1
            cdrow = [0, 0, 0]
            try:
                if op[0] == "nextcd":  # ["nextcd", m, how]: next() with m close() calls arriving meanwhile
                    if it is None:
                        code = 1
                    else:
                        with CloseDuring(cls, image, it, op[1], op[2]) as cd:
                            try:
                                y = fid(next(it))
                                code = 0
                            except StopIteration:
                                code = 1
                            finally:
                                cdrow = [cd.made, cd.refused, cd.other]
                        del cd
                elif op[0] == "next":
                    if it is None:
                        code = 1
                    else:
                        try:
                            y = fid(next(it))
                            code = 0
                        except StopIteration:
                            code = 1
                elif op[0] == "seek":
                    if it is None:
                        code = 7
                    else:
                        it.seek(op[1])
                        code = 4
                elif op[0] == "close":
                    if it is not None:
                        it.close()
                    code = 8
                elif op[0] == "drop":
                    it = None
                    gc.collect()
                    code = 8
                elif op[0] == "size":
                    cur_size = op[1]
                    apply_size(image, sizes[cur_size])
                    size_setting = image.size
                    code = 9
                elif op[0] == "env":
                    set_env(envs[op[1]], case)
                    code = 9
            except ValueError:
                code = 5
            except common.TermImageError as e:
                code = 6 if "not yet started" in str(e) else 7
            except RuntimeError:
                code = 2
            except Exception as e:  # noqa: BLE001
                code = 20
                res.setdefault("odd", repr(e)[:200])
            if it is not None:
                last_ln = it.loop_no
            ln = last_ln  # after a drop: the last value seen (the object is gone)
            rows.append([code, y, image.tell(), -99 if ln is None else ln, tracker.unclosed()])
            if code == 0:
                # the oracle, at the time of the yield: the frame just yielded (image.tell()),
                # formatted directly with the same specifier and size setting under the
                # environment in force now
                tracker.paused = True
                try:
                    apply_size(ref, sizes[cur_size])
                    ref.seek(image.tell())
                    d = fid(format(ref, rspec))
                except Exception:  # noqa: BLE001
                    d = -2
                finally:
                    tracker.paused = False
            direct.append(d)
            cdrows.append(cdrow)
        res["cd"] = cdrows
        tracker.__exit__()
        res["opened"] = len(tracker.opened)
        tracker.opened.clear()
        res["rows"] = rows
        res["direct"] = direct
        res["size_kept"] = image.size == size_setting
        res["pil_tell"] = keep.tell() if keep is not None else -1
        alive = True
        if keep is not None:
            try:
                keep.seek(0)
                keep.load()
            except Exception:
                alive = False
        res["pil_alive"] = alive
        it = None
        image.close()
        del image
        keep = None
        gc.collect()
        res["fd_delta"] = fd_count() - fd0
        ref.close()
        if ref_keep is not None:
            ref_keep.close()
    return res


# ---------------------------------------------------------------- part: fault


class Observer:
    """Counts the library's outermost calls to the PIL methods of FAULT_METHODS, raises at
    the k-th one, and records every image returned by Image.open during the action."""

    def __init__(self, k, exc):
        self.k, self.exc = k, exc
        self.calls = 0
        self.depth = 0
        self.opened = []  # strong references: nothing is closed by the garbage collector
        self.closed = set()
        self.hit = None

    def __enter__(self):
        obs = self

        def wrap(name):
            real = REAL[name]

            def method(self_, *a, **kw):
                if obs.depth:
                    return real(self_, *a, **kw)
                i = obs.calls
                obs.calls += 1
                if i == obs.k:
                    obs.hit = name
                    raise obs.exc("injected failure")
                obs.depth += 1
                try:
                    return real(self_, *a, **kw)
                finally:
                    obs.depth -= 1

            return method

        for m in FAULT_METHODS:
            setattr(Image.Image, m, wrap(m))

        def opener(*a, **kw):
            im = REAL_OPEN(*a, **kw)
            obs.opened.append(im)
            return im

        real_close = self.real_close = Image.Image.close

        def close(self_):
            obs.closed.add(id(self_))
            return real_close(self_)

        Image.open = opener
        common.Image.open = opener
        Image.Image.close = close
        return self

    def __exit__(self, *a):
        for m in FAULT_METHODS:
            setattr(Image.Image, m, REAL[m])
        Image.open = REAL_OPEN
        Image.Image.close = self.real_close

    def not_explicitly_closed(self):
        """images opened by the library on which Image.close() has not been called"""
        return sum(1 for im in self.opened if id(im) not in self.closed)


def do_action(case, image):
    a = case["action"]
    buf = io.StringIO()
    sys.stdout = buf
    try:
        if a == "format":
            format(image, case["spec"])
        elif a == "str":
            str(image)
        elif a == "draw":
            image.draw(animate=False)
        elif a == "draw_anim":
            image.draw(repeat=case.get("repeat", 1), cached=case.get("cached", False), **case.get("style_args", {}))
        elif a == "draw_bad":
            # the argument is rejected after draw() has opened the image
            image.draw(**{"repeat0": {"repeat": 0}, "cached0": {"cached": 0}, "style": {"no_such_style_arg": 1},
                          "cachedstr": {"cached": "x"}, "repeatstr": {"repeat": "x"}}[case["bad"]])
        elif a == "n_frames":
            image._n_frames = None
            image.n_frames
        elif a == "iter":
            it = ImageIterator(image, case.get("repeat", 1), case["spec"], case.get("cached", False))
            try:
                for _ in range(case.get("take", 2)):
                    try:
                        next(it)
                    except StopIteration:  # fewer frames than asked for: exhausted
                        break
                end = case.get("end", "close")
                if end == "close":
                    it.close()
                elif end == "exhaust":
                    for _ in it:
                        pass
                # "drop": just let it go
            finally:
                if case.get("end", "close") != "drop":
                    it.close()
                del it
                gc.collect()  # iterator <-> generator is a reference cycle: __del__ runs here
    finally:
        sys.stdout = REAL_STDOUT


def own_fd(keep):
    """Number of descriptors currently held by the CALLER's PIL image (Pillow closes / drops them
    by itself, e.g. once a single-frame image has been loaded, and keeps the file of a
    multi-frame image in `_fp` while `fp` is None between loads — none of that is the
    library's doing)."""
    nos = set()
    for attr in ("fp", "_fp"):
        f = getattr(keep, attr, None)
        try:
            if f is not None and not f.closed and f.fileno() >= 0:
                nos.add(f.fileno())
        except Exception:
            pass
    return len(nos)


def one_fault_run(case, idx, k, exc):
    cls = setup_style(case["style"], case.get("term"))
    path = source_path(case["src"], idx)
    gc.collect()
    fd0 = fd_count()
    image, keep = construct(cls, case["source"], path, case.get("size"))
    if image.is_animated and case.get("pos0"):
        image.seek(case["pos0"] % image.n_frames)
    size0, tell0 = image.size, image.tell()
    fd1 = fd_count() - own_fd(keep)
    out = {"k": -1 if k is None else k}
    raised = ""
    with Observer(k, exc) as obs:
        try:
            do_action(case, image)
        except BaseException as e:  # noqa: BLE001
            raised = type(e).__name__
            del e
        out["calls"] = obs.calls
        out["hit"] = obs.hit or ""
        out["opened"] = len(obs.opened)
        out["unclosed"] = obs.not_explicitly_closed()
        # descriptors held by library-opened images, every one of them still referenced
        out["fd_after_action"] = fd_count() - own_fd(keep) - fd1
    obs.opened.clear()
    gc.collect()
    out["raised"] = raised
    out["size_kept"] = image.size == size0
    out["tell_kept"] = image.tell() == tell0
    alive = True
    if keep is not None:
        try:
            if getattr(keep, "is_animated", False):
                keep.seek(0)
            keep.load()
            keep.getpixel((0, 0))
        except Exception:
            alive = False
    out["pil_alive"] = alive
    image.close()
    del image
    if keep is not None:
        keep.close()
    keep = None
    gc.collect()
    out["fd_end"] = fd_count() - fd0
    return out


def run_fault(case, idx):
    tests.set_cell_size(tuple(case.get("cell", (10, 20))))
    # warm up (lazy imports, plugin initialisation) so that the baseline is stable
    one_fault_run(case, idx, None, RuntimeError)
    base = one_fault_run(case, idx, None, RuntimeError)
    runs = []
    total = base["calls"]
    ks = range(total) if case.get("max_k") is None else range(min(total, case["max_k"]))
    for k in ks:
        exc = KeyboardInterrupt if case.get("kbd") and k % 2 else RuntimeError
        runs.append(one_fault_run(case, idx, k, exc))
    return {"base": base, "runs": runs}


# ------------------------------------------------------------------ part: sfault (round 8)
# Faults of the OUTPUT STREAM: an animated draw() into a stream that stops accepting data at
# its k-th write()/flush() call (every k of the fault-free run, those of the clean-up included).


class BreakingStream(io.TextIOBase):
    """A text stream whose write()/flush() calls succeed `good` times and raise for ever after
    (a closed pipe, a vanished pty, a closed file); good=None never breaks.  Every call is
    counted, whether it succeeds or not."""

    def __init__(self, good, exc, tty):
        self.good, self.exc, self.tty = good, exc, tty
        self.calls = 0
        self.failed = 0
        self.chars = 0

    def _gate(self):
        i = self.calls
        self.calls += 1
        if self.good is not None and i >= self.good:
            self.failed += 1
            if self.exc == "broken_pipe":
                raise BrokenPipeError(32, "Broken pipe")
            if self.exc == "oserror":
                raise OSError(5, "Input/output error")
            raise ValueError("I/O operation on closed file.")

    def isatty(self):
        return self.tty

    def writable(self):
        return True

    def write(self, s):
        self._gate()
        self.chars += len(s)
        return len(s)

    def flush(self):
        self._gate()


def one_sfault_run(case, idx, k):
    cls = setup_style(case["style"], case.get("term"))
    path = source_path(case["src"], idx)
    gc.collect()
    fd0 = fd_count()
    image, keep = construct(cls, case["source"], path, case.get("size"))
    n = image.n_frames
    if case.get("pos0"):
        image.seek(case["pos0"] % n)
    size0, tell0 = image.size, image.tell()
    fd1 = fd_count() - own_fd(keep)
    stream = BreakingStream(k, case.get("exc", "broken_pipe"), bool(case.get("tty")))
    raised = ""
    opened, closed = [], set()
    real_close = Image.Image.close

    def opener(*a, **kw):
        im = REAL_OPEN(*a, **kw)
        opened.append(im)
        return im

    def close(self_):
        closed.add(id(self_))
        return real_close(self_)

    Image.open = common.Image.open = opener
    Image.Image.close = close
    sys.stdout = stream
    try:
        try:
            image.draw(repeat=case.get("repeat", 1), cached=case.get("cached", False), **case.get("style_args", {}))
        except BaseException as e:  # noqa: BLE001
            raised = type(e).__name__
            del e
    finally:
        sys.stdout = REAL_STDOUT
        Image.open = common.Image.open = REAL_OPEN
        Image.Image.close = real_close
    out = {"k": -1 if k is None else k, "calls": stream.calls, "failed": stream.failed, "raised": raised,
           "tell0": tell0, "tell": image.tell(), "nframes": n,
           "unclosed": sum(1 for im in opened if id(im) not in closed),
           # descriptors held by library-opened images, every one of them still referenced
           "fd_after": fd_count() - own_fd(keep) - fd1}
    opened.clear()
    gc.collect()
    out["size_kept"] = image.size == size0
    alive = True
    if keep is not None:
        try:
            keep.seek(0)
            keep.load()
            keep.getpixel((0, 0))
        except Exception:
            alive = False
    out["pil_alive"] = alive
    image.close()
    del image
    if keep is not None:
        keep.close()
    keep = None
    gc.collect()
    out["fd_end"] = fd_count() - fd0
    return out


def run_sfault(case, idx):
    tests.set_cell_size(tuple(case.get("cell", (10, 20))))
    one_sfault_run(case, idx, None)  # warm up
    base = one_sfault_run(case, idx, None)
    total = base["calls"]
    ks = case.get("ks")
    if ks is None:
        ks = list(range(total))
    else:  # positions given from the start (>= 0) or from the END of the run (< 0: the clean-up)
        ks = sorted({x if x >= 0 else total + x for x in ks if -total <= x < total})
    return {"base": base, "runs": [one_sfault_run(case, idx, k) for k in ks]}


# ------------------------------------------------------------------ part: url


def start_server(root):
    import http.server
    import socketserver

    class H(http.server.SimpleHTTPRequestHandler):
        def __init__(self, *a, **kw):
            super().__init__(*a, directory=root, **kw)

        def log_message(self, *a):
            pass

    class S(socketserver.ThreadingMixIn, http.server.HTTPServer):
        daemon_threads = True

    srv = S(("127.0.0.1", 0), H)
    t = threading.Thread(target=srv.serve_forever, daemon=True)
    t.start()
    return srv


SERVER = None


def ensure_server():
    """-> (root directory served, port) of the local HTTP server (started on first use)"""
    global SERVER
    root = os.path.join(TMP, "www")
    if SERVER is None:
        os.makedirs(root, exist_ok=True)
        Image.new("RGB", (12, 9), (10, 200, 30)).save(os.path.join(root, "img.png"))
        fr = make_frames({"seed": 5, "w": 8, "h": 6, "mode": "P", "frames": 3})
        fr[0].save(os.path.join(root, "anim.gif"), "GIF", save_all=True, append_images=fr[1:], duration=100, loop=0)
        open(os.path.join(root, "text.txt"), "w").write("this is not an image\n" * 20)
        open(os.path.join(root, "empty.png"), "w").close()
        SERVER = start_server(root)
        # warm-up: first request initialises urllib3 / requests state
        try:
            KittyImage._supported = True
            KittyImage.from_url(f"http://127.0.0.1:{SERVER.server_address[1]}/img.png").close()
        except Exception:
            pass
    return root, SERVER.server_address[1]


def run_url(case, idx):
    tests.set_cell_size((10, 20))
    root, port = ensure_server()
    cls = setup_style(case["style"])
    tdir = common._TEMP_DIR
    gc.collect()
    time.sleep(0.05)
    fd0 = fd_count()
    base = len(os.listdir(tdir))
    live = {}
    rows = []
    for op in case["ops"]:
        before = set(os.listdir(tdir))
        code, extra = 0, 0
        try:
            if op[0] == "open":
                name, kwargs = op[2], dict(op[3]) if len(op) > 3 else {}
                url = f"http://127.0.0.1:{port}/{name}"
                im = cls.from_url(url, **kwargs)
                live[op[1]] = im
                now = set(os.listdir(tdir))
                new = now - before
                # exactly one new file holding the served bytes, and it is the image's source
                ok = (len(new) == 1 and open(os.path.join(tdir, next(iter(new))), "rb").read()
                      == open(os.path.join(root, name), "rb").read()
                      and im.source == url and im.source_type.name == "URL" and not im.closed)
                extra = int(ok)
            elif op[0] == "use":
                im = live[op[1]]
                if im.is_animated:
                    for _ in ImageIterator(im, 1, "1.1"):
                        pass
                else:
                    format(im, "1.1")
                extra = 1
            elif op[0] == "close":
                live[op[1]].close()
                extra = int(live[op[1]].closed)
            elif op[0] == "with":
                with live[op[1]] as im:
                    format(im, "1.1") if not im.is_animated else im.n_frames
                extra = int(live[op[1]].closed)
            elif op[0] == "del":
                del live[op[1]]
                im = None
                gc.collect()
                extra = 1
        except Exception as e:  # noqa: BLE001
            code = {"URLNotFoundError": 1, "UnidentifiedImageError": 2, "ValueError": 3, "TypeError": 3,
                    "TermImageError": 4}.get(type(e).__name__, 9)
            if code == 9:
                extra = 0
                rows.append([code, 0, len(os.listdir(tdir)), repr(e)[:120]])
                continue
            del e
        im = None
        gc.collect()
        rows.append([code, extra, len(set(os.listdir(tdir)))])
    live.clear()
    gc.collect()
    time.sleep(0.05)
    gc.collect()
    return {"rows": rows, "base": base, "files_end": len(os.listdir(tdir)), "fd_delta": fd_count() - fd0}


# ------------------------------------------------------------------ part: corder (round 9)
# image.close() at ANY position of a history of iterators over that image; one observation row
# after every operation, with every object still referenced (nothing dropped, nothing collected).


def settle(url):
    """URL sources: the local HTTP server's handler thread closes its side of a connection a little
    after the client is done; wait until this process's descriptor count has stopped moving."""
    gc.collect()
    if not url:
        return
    last, same = fd_count(), 0
    for _ in range(100):
        time.sleep(0.01)
        now = fd_count()
        same = same + 1 if now == last else 0
        last = now
        if same >= 3:
            break


def corder_once(case, idx):
    cls = setup_style(case["style"], case.get("term"))
    tdir = common._TEMP_DIR
    url = case["source"] == "url"
    if url:
        root, port = ensure_server()
    else:
        path = source_path(case["src"], idx)
    settle(url)
    fd0 = fd_count()
    t0 = len(os.listdir(tdir))
    keep = None
    if url:
        image = cls.from_url(f"http://127.0.0.1:{port}/anim.gif")
        if case.get("size") is not None:
            apply_size(image, case["size"])
    else:
        image, keep = construct(cls, case["source"], path, case.get("size"))
    N = image.n_frames
    settle(url)
    fd1 = fd_count() - own_fd(keep)
    its, rows = [], []
    odd = None
    for op in case["ops"]:
        code = -1
        it = its[op[1]] if op[0] in ("next", "iclose") and op[1] < len(its) else None
        try:
            if op[0] == "new":
                its.append(None)
                its[-1] = ImageIterator(image, op[1], case.get("spec", "1.1"), op[2])
                code = 9
            elif op[0] == "next":
                if it is None:
                    code = 1
                else:
                    try:
                        next(it)
                        code = 0
                    except StopIteration:
                        code = 1
            elif op[0] == "iclose":
                if it is not None:
                    it.close()
                code = 8
            elif op[0] == "imgclose":
                image.close()
                code = 8
        except common.TermImageError as e:
            code = 3 if op[0] == "new" else 2
            del e
        except Exception as e:  # noqa: BLE001
            code = 2
            odd = odd or repr(e)[:160]
            del e
        it = None
        alive = True
        if keep is not None:
            try:
                keep.load()
                keep.getpixel((0, 0))
            except Exception:
                alive = False
        rows.append([code, fd_count() - own_fd(keep) - fd1, len(os.listdir(tdir)) - t0, alive])
    # the existing end-of-history judgement: everything dropped and collected
    its.clear()
    image.close()
    del image
    if keep is not None:
        keep.close()
    keep = None
    settle(url)
    return {"N": N, "rows": rows, "fd_end": fd_count() - fd0, "tmp_end": len(os.listdir(tdir)) - t0, "odd": odd}


def run_corder(case, idx):
    tests.set_cell_size(tuple(case.get("cell", (10, 20))))
    corder_once(case, idx)  # warm up (lazy imports), so that the descriptor baseline is stable
    return corder_once(case, idx)


def main():
    cases = implenv.read_cases()
    out = []
    try:
        for i, c in enumerate(cases):
            try:
                out.append({"iter": run_iter, "reent": run_iter, "fault": run_fault, "sfault": run_sfault, "url": run_url, "corder": run_corder}[c["part"]](c, i))
            except Exception:  # noqa: BLE001
                import traceback
                sys.stdout = REAL_STDOUT
                out.append({"driver_error": traceback.format_exc()[-1500:]})
    finally:
        if SERVER is not None:
            SERVER.shutdown()
        shutil.rmtree(TMP, ignore_errors=True)
    implenv.write_results(out)


main()
