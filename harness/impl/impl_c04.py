"""C04 implementation driver: sizing on the real classes.

Two kinds of case (see harness/props/c04.py for the generators):

* kind "v": one call environment (family, original size, terminal size, cell size,
  cell ratio, frame) and a list of (width, height) argument pairs; every pair is passed
  to the real ``_valid_size`` of an instance made with ``object.__new__`` (no PIL image
  needed, so original sizes up to 2**30 are possible).
* kind "h": a history of operations on a real image object, through the public API:
  ``set_size`` / ``width=`` / ``height=`` / ``size=`` assignments, renders (``str(image)``
  with the style's ``_render_image`` replaced by a recorder that may raise), terminal
  resizes (``get_terminal_size`` / ``get_cell_size`` stubs) and ``set_cell_ratio``.
  After every operation ``size``, ``rendered_size``, ``rendered_width`` and
  ``rendered_height`` are read.

* round 6: an operation ``["conc", [raises per thread], schedule]`` inside a history: the image
  is rendered (``str(image)``) by SEVERAL THREADS AT ONCE, under a deterministic scheduler
  (``parksched.ParkSched``, no sleeps): a render parks (a) after ``_renderer`` read the size
  setting, at the entry of the ``set_size`` call that fixes a dynamic size, (b) with the size
  fixed, at the entry of ``_get_image``, (c) when the renderer callback (a recorder of
  ``image.size``) has run, before ``_renderer``'s ``finally``.  The schedule is a list of
  ``["t", i]`` (thread i runs to its next park point, or to its end) and
  ``["resize", cols, lines, cell]`` (the terminal changes between two steps); threads that
  have not ended when the schedule is used up then run to their end, in order.  Reported:
  per thread [outcome, size seen by the callback], then the usual observation.

* round 8: a history starts with the CREATION of the image: ``case["route"]`` in
  ``ctor`` (the class constructor on a PIL image; the default), ``file`` (``cls.from_file`` on a
  temporary PNG file), ``url`` (``cls.from_url``; the name ``requests`` of the library module is
  bound to a stub whose ``get`` answers with the bytes of the generated PNG: no network), and
  ``case["args"]``: the keyword arguments ``width`` / ``height`` that are PASSED (a key that is
  absent is not passed; a value may be ``None``).  Reported besides the trace: ``made`` (an
  image came into being) and ``init`` (outcome of the creation, the reads right after it).

Floats cross the boundary as ``float.hex()`` strings only.  Results are integers."""
import implenv
from implenv import tests
import io
import os
import shutil
import tempfile
import types

import term_image
import parksched
from PIL import Image
from term_image import AutoCellRatio, set_cell_ratio
from term_image.exceptions import TermImageError
from term_image.image import BlockImage, ITerm2Image, KittyImage, Size
import term_image.image.common as common
import term_image.utils as utils

CLASSES = {"block": BlockImage, "kitty": KittyImage, "iterm2": ITerm2Image}
for _cls in (KittyImage, ITerm2Image):
    _cls._supported = False  # no terminal to ask; instantiation goes through forced support
    _cls.forced_support = True

TERM = [80, 30]


def _get_terminal_size():
    return os.terminal_size(tuple(TERM))


# the name is imported into common.py (`from ..utils import get_terminal_size`)
utils.get_terminal_size = _get_terminal_size
common.get_terminal_size = _get_terminal_size
assert common.get_cell_size is tests.get_cell_size and term_image.get_cell_size is tests.get_cell_size


# ---- construction routes (round 8)
URL_CONTENT = {}


class _Response:
    status_code = 200

    def __init__(self, content):
        self.content = content


def _fake_get(url, **kw):
    return _Response(URL_CONTENT[url])


# the library module's own name `requests` (common.py: `import requests`): in THIS process only
common.requests = types.SimpleNamespace(get=_fake_get)


def create(cls, route, kwargs, ow, oh):
    """-> (image, scratch directory or None)"""
    if route == "ctor":
        return cls(Image.new("L", (ow, oh)), **kwargs), None
    buf = io.BytesIO()
    Image.new("L", (ow, oh)).save(buf, "PNG")
    if route == "file":
        tmp = tempfile.mkdtemp(prefix="c04route-")
        try:
            path = os.path.join(tmp, "source.png")
            with open(path, "wb") as f:
                f.write(buf.getvalue())
            return cls.from_file(path, **kwargs), tmp
        except BaseException:
            shutil.rmtree(tmp, ignore_errors=True)
            raise
    url = "http://c04.invalid/source.png"
    URL_CONTENT[url] = buf.getvalue()
    try:
        return cls.from_url(url, **kwargs), None
    finally:
        del URL_CONTENT[url]


def set_env(term, cell):
    TERM[:] = term
    tests.cell_size = tuple(cell) if cell else None  # AutoCellRatio.is_supported is NOT reset (as in the library)


def dim(x):
    if x is None or isinstance(x, int):
        return x
    if x == "bad":
        return 1.5
    if x == "bad2":
        return "3"
    return Size[x]


class RendererError(Exception):
    pass


def code_of(exc):
    if isinstance(exc, RendererError):
        return 4
    if isinstance(exc, TermImageError):
        return 3
    if isinstance(exc, TypeError):
        return 2
    if isinstance(exc, ValueError):
        return 1
    return 9


def pair(t):
    if (isinstance(t, tuple) and len(t) == 2 and all(type(x) is int for x in t)):
        return [t[0], t[1]]
    return [-7, -7]


def run_v(case):
    cls = CLASSES[case["fam"]]
    set_env(case["term"], case["cell"])
    term_image._cell_ratio = None if case["ratio"] is None else float.fromhex(case["ratio"])
    obj = object.__new__(cls)
    obj._closed = False
    obj._original_size = (case["ow"], case["oh"])
    frame = tuple(case["frame"])
    out = []
    for w, h in case["calls"]:
        try:
            out.append(pair(obj._valid_size(dim(w), dim(h), frame)))
        except Exception as e:  # outside the domain (e.g. OverflowError)
            out.append([-9, code_of(e)])
    return {"out": out}


def size_obs(img):
    s = img.size
    if isinstance(s, Size):
        return [1 + ["AUTO", "FIT", "FIT_TO_WIDTH", "ORIGINAL"].index(s.name), 0, 0]
    return [0] + pair(s)


def observe(img, outcome, during):
    return {"c": outcome, "size": size_obs(img), "rs": pair(img.rendered_size),
            "rw": img.rendered_width, "rh": img.rendered_height, "during": during}


def run_conc(img, raises, sched):
    """-> per thread [outcome, size seen by the renderer callback or None]"""
    n = len(raises)
    seen = [[] for _ in range(n)]
    ps = None

    def recorder(*a, **k):
        i = ps.current()
        seen[i].append(size_obs(img))
        ps.gate("ran")
        if raises[i]:
            raise RendererError()
        return ""

    bound_set_size, bound_get_image = img.set_size, img._get_image

    def set_size(*a, **k):
        ps.gate("set_size")
        return bound_set_size(*a, **k)

    def get_image(*a, **k):
        ps.gate("get_image")
        return bound_get_image(*a, **k)

    ps = parksched.ParkSched([(lambda: str(img)) for _ in range(n)])
    img._render_image, img.set_size, img._get_image = recorder, set_size, get_image
    try:
        for g in sched:
            if g[0] == "t":
                ps.grant(g[1], "*")
            else:
                set_env(g[1:3], g[3])
        for i in range(n):  # bounded: a render has three park points (a few more if it is changed)
            for _ in range(16):
                if ps.grant(i, "*") == "end":
                    break
        ps.finish()
    finally:
        del img._render_image, img.set_size, img._get_image
    out = []
    for i in range(n):
        kind, val = ps.results[i] or ("exc", RuntimeError("thread did not end"))
        outcome = 0 if kind == "ok" else code_of(val)
        out.append([outcome, seen[i][0] if len(seen[i]) == 1 else [-8, len(seen[i]), 0]])
    return out


def run_h(case):
    cls = CLASSES[case["fam"]]
    set_env(case["term"], case["cell"])
    term_image._cell_ratio = 0.5
    AutoCellRatio.is_supported = None
    ow, oh = case["ow"], case["oh"]
    route = case.get("route", "ctor")
    kwargs = {k: dim(v) for k, v in (case.get("args") or {}).items()}
    scratch = None
    try:
        if ow * oh <= 65536 or route != "ctor" or kwargs:
            img, scratch = create(cls, route, kwargs, ow, oh)
        else:
            img = cls(Image.new("L", (1, 1)))
            img._original_size = (ow, oh)
    except Exception as e:
        return {"made": False, "init": {"c": code_of(e), "size": [0, 0, 0], "rs": [0, 0], "rw": 0, "rh": 0, "during": None},
                "trace": []}
    try:
        return run_ops(case, img)
    finally:
        img.close()  # from_url: removes the library's temporary file
        if scratch:
            shutil.rmtree(scratch, ignore_errors=True)


def run_ops(case, img):
    init = observe(img, 0, None)
    seen = []

    def make_recorder(raises):
        def recorder(*a, **k):
            seen.append(size_obs(img))
            if raises:
                raise RendererError()
            return ""
        return recorder

    trace = []
    for o in case["ops"]:
        outcome, during, thr = 0, None, None
        try:
            if o[0] == "set_size":
                _, w, h, frame, via = o
                if via == "width":
                    img.width = dim(w)
                elif via == "height":
                    img.height = dim(h)
                elif via == "kw":
                    img.set_size(height=dim(h), frame_size=tuple(frame), width=dim(w))
                else:
                    img.set_size(dim(w), dim(h), tuple(frame))
            elif o[0] == "assign":
                if o[1] == "size":
                    img.size = Size[o[2]]
                elif o[1] == "tuple":
                    img.size = (dim(o[2]), dim(o[3]))
                elif o[1] == "badlen":
                    img.size = (3, 4, 5)
                else:
                    img.size = [3, 4]
            elif o[0] == "render":
                del seen[:]
                img._render_image = make_recorder(o[1])
                try:
                    if o[2] == "format":
                        format(img, "")
                    else:
                        str(img)
                finally:
                    del img._render_image
                    during = seen[0] if len(seen) == 1 else [-8, len(seen), 0]
            elif o[0] == "resize":
                set_env(o[1:3], o[3])
            elif o[0] == "conc":
                thr = run_conc(img, o[1], o[2])
            elif o[0] == "ratio":
                if o[1] in ("FIXED", "DYNAMIC"):
                    set_cell_ratio(AutoCellRatio[o[1]])
                else:
                    set_cell_ratio(float.fromhex(o[1]))
        except Exception as e:
            outcome = code_of(e)
        trace.append(observe(img, outcome, during))
        if thr is not None:
            trace[-1]["thr"] = thr
    return {"made": True, "init": init, "trace": trace}


if __name__ == "__main__":
    res = []
    for c in implenv.read_cases():
        try:
            res.append(run_v(c) if c["kind"] == "v" else run_h(c))
        finally:
            term_image._cell_ratio = 0.5
            AutoCellRatio.is_supported = None
    implenv.write_results(res)
