"""asyncfault — deliver an ASYNCHRONOUS exception (KeyboardInterrupt by default) at the k-th
'line' event executed inside code of the package under test, the way a real Ctrl-C (or any
signal handler that raises) is delivered between two bytecodes of whatever happens to be running.

Usage (implementation drivers, after `import implenv`):

    from asyncfault import AsyncFault
    with AsyncFault(k=None) as probe:          # counting run: nothing is raised
        operation()
    n = probe.count                            # number of line events inside the package
    with AsyncFault(k=17) as f:                # the 17th line event raises KeyboardInterrupt
        try: operation()
        except KeyboardInterrupt: ...
    f.fired, f.where                           # (True, ("block.py", 123, "_render_image"))

`scope(frame) -> bool` restricts which frames count (default: every frame whose file lies below
`<repo>/src/term_image`); `funcs` restricts to code objects with those names *and everything they
call* (dynamic extent is not tracked: a callee counts if its own frame is in scope).
Only frames ENTERED while the context is active are traced (enter it before calling the operation).
CPython removes the trace function when it raises, so exactly one fault is delivered.
Deterministic for a deterministic operation: the k-th line event is the same on every run.
"""
import os
import sys

import implenv  # noqa: F401  (sys.path / VERIF_REPO)

_PKG = os.path.join(os.path.realpath(os.environ.get("VERIF_REPO", "/repo")), "src", "term_image") + os.sep


def in_package(frame):
    return os.path.realpath(frame.f_code.co_filename).startswith(_PKG)


class AsyncFault:
    def __init__(self, k=None, exc=KeyboardInterrupt, scope=None, exclude_funcs=()):
        self.k = k
        self.exc = exc
        self.scope = scope or in_package
        self.exclude = set(exclude_funcs)
        self.count = 0
        self.fired = False
        self.where = None
        self._cache = {}

    def _global(self, frame, event, arg):
        if event != "call":
            return None
        code = frame.f_code
        ok = self._cache.get(code)
        if ok is None:
            ok = self._cache[code] = bool(self.scope(frame)) and code.co_name not in self.exclude
        return self._local if ok else None

    def _local(self, frame, event, arg):
        if event == "line":
            self.count += 1
            if self.k is not None and self.count == self.k and not self.fired:
                self.fired = True
                self.where = (os.path.basename(frame.f_code.co_filename), frame.f_lineno, frame.f_code.co_name)
                raise self.exc()
        return self._local

    def __enter__(self):
        self._old = sys.gettrace()
        sys.settrace(self._global)
        return self

    def __exit__(self, *a):
        sys.settrace(self._old)
        return False
