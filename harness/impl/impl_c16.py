"""C16 implementation driver.

prog cases: builds a render-class forest with type(Renderable)(...), associates Args
namespace classes (before subclassing), creates RenderArgs subclasses ("kinds"), runs a
program of constructor / update / convert / | / + / to_render_args operations whose
operands are earlier results, and after EVERY operation dumps every live RenderArgs object
(type, render class, namespaces in iteration order, hash), the identity of the result
(driver index = order of first appearance), `result == obj` for every object, `probe in
result`, and the interning tables.  Namespace operands may be instances of SUBCLASSES of the
associated namespace class (tag > 0); every namespace instance (operands, constituents of
the live sets) is reported when first seen (render class, fields, tag of its class, hash)
with `==` against every known instance, and again after the last operation together with
the full `==` matrices of the namespace instances and of the sets.

stmt / ctor / rend cases: one namespace class statement, one namespace constructor call,
one render class statement; the outcome as an enum.

nsprog cases (namespace programs over a universe of field VALUES: None, Ellipsis, ints,
bools, integral floats, strings, (), NaN-like objects): namespace classes associated with a
chain of render classes, then constructor calls (positional + keyword), ``update(**fields)``,
``RenderArgs(R_m, ns).update(R_c, **fields)[R_c]`` and attribute reads; after EVERY operation a
dump of every live namespace instance (``as_dict()`` values, the values read attribute by
attribute, hash), ``==`` of the result with every instance, ``get_fields()`` of every class.
Values are reported by exact type (False is not 0) and NaN-like objects by identity."""
import implenv  # noqa: F401

from term_image.renderable import (
    ArgsNamespace,
    DataNamespace,
    IncompatibleArgsNamespaceError,
    IncompatibleRenderArgsError,
    NoArgsNamespaceError,
    Renderable,
    RenderableError,
    RenderArgs,
    RenderArgsDataError,
    RenderArgsError,
    RenderDataError,
    UnknownArgsFieldError,
)

RMeta = type(Renderable)
AMeta = type(ArgsNamespace)
DMeta = type(DataNamespace)
ABSENT = 2999
SERIAL = [0]

ERR = [
    (IncompatibleRenderArgsError, 0),
    (IncompatibleArgsNamespaceError, 1),
    (NoArgsNamespaceError, 2),
    (ValueError, 3),
    (UnknownArgsFieldError, 4),
    (TypeError, 5),
]


def err_code(e):
    for t, c in ERR:
        if type(e) is t:
            return c
    return 90


def uniq(prefix):
    SERIAL[0] += 1
    return f"{prefix}_{SERIAL[0]}"


def make_args_cls(render_cls, defaults, name=None):
    ns = {"__annotations__": {f"f{j}": int for j in range(len(defaults))}}
    for j, v in enumerate(defaults):
        ns[f"f{j}"] = v
    return AMeta(name or uniq("Args"), (ArgsNamespace,), ns, render_cls=render_cls)


class BadOperand(Exception):
    pass


# namespace-class subclasses: tag 0 = the associated class itself (``C.Args``); tag t > 0 = a
# subclass whose base is tag SUB_BASE[t] (a child, a grandchild, a second child)
SUB_BASE = [None, 0, 1, 0]
BAD_TAG = 99


def make_render_cls(prefix, c, classes, par, mix, mixins=None):
    """``class C(before..., classes[par[c]], [mid..., classes[g],] after...)`` where the mix-ins are fresh
    plain classes (``mix[c] = [n_before, n_after, n_mid, g]``; no ``mix``: the render base alone)."""
    if not mix or not any(mix[c][:3]):
        return RMeta(uniq(f"{prefix}{c}"), (classes[par[c]],), {})
    nb, na, nm, g = mix[c]
    made = [type(uniq(f"Mixin{c}x{j}"), (), {"helper": lambda self: 42}) for j in range(nb + na + nm)]
    if mixins is not None:
        for j, m in enumerate(made):
            mixins[m] = (c, j)
    bases = made[:nb] + [classes[par[c]]] + ((made[nb + na:] + [classes[g]]) if nm else []) + made[nb:nb + na]
    return RMeta(uniq(f"{prefix}{c}"), tuple(bases), {})


def run_prog(case):
    par, nsd = case["par"], case["nsd"]
    classes = [Renderable]
    for c in range(1, len(par)):
        cls = make_render_cls("C", c, classes, par, case.get("mix"))
        if nsd[c] is not None:
            make_args_cls(cls, nsd[c])  # associated before any subclass / use
        classes.append(cls)
    clsidx = {cls: i for i, cls in enumerate(classes)}
    kinds = [RenderArgs] + [type(uniq(f"K{k}"), (RenderArgs,), {}) for k in range(1, case["nk"])]
    objs = []     # live RenderArgs objects in order of first appearance
    results = []  # per op: the object or None
    pool = {}     # namespace instances already made, by (class, tag, value)
    nscls = {}    # (class, tag) -> namespace class
    nstag = {}    # namespace class -> tag
    nsobjs = []   # live namespace instances in order of first appearance

    def ns_class(c, tag):
        """``classes[c].Args`` or one of its subclasses (fields and association inherited);
        created with a plain class statement equivalent, through the metaclass"""
        if (c, tag) not in nscls:
            if tag == 0:
                k = classes[c].Args
            else:
                base = ns_class(c, SUB_BASE[tag])
                body = {"describe": lambda self: repr(self)} if tag % 2 else {}
                k = AMeta(uniq(f"Sub{tag}Args"), (base,), body)
                assert k.get_render_cls() is classes[c] and classes[c].Args is ns_class(c, 0)
            nscls[(c, tag)] = k
            nstag[k] = tag
        return nscls[(c, tag)]

    for c in range(len(par)):
        if nsd[c] is not None:
            ns_class(c, 0)

    def mkns(n, pres=0):
        c, fields = n[0], n[1]
        tag = n[2] if len(n) > 2 else 0
        key = (c, tag, tuple(fields))
        if pres % 3 == 1 and key in pool:
            return pool[key]
        if pres % 3 == 2 and tag == 0 and list(fields) == list(nsd[c]):
            return classes[c]._ALL_DEFAULT_ARGS[classes[c]] if pres % 2 else classes[c].Args()
        K = ns_class(c, tag)
        if pres % 3 == 2 and list(fields) == list(nsd[c]):
            inst = K()
        elif pres % 2 and fields:
            inst = K(*fields[:-1], **{f"f{len(fields) - 1}": fields[-1]})
        else:
            inst = K(*fields)
        pool.setdefault(key, inst)
        return inst

    def var(v):
        if v >= len(results) or results[v] is None:
            raise BadOperand
        return results[v]

    def ns_entry(ns):
        return [clsidx[ns.get_render_cls()], list(ns.as_dict().values()), nstag.get(type(ns), BAD_TAG)]

    def dump():
        out = []
        for o in objs:
            nss = [ns_entry(ns) for ns in o]
            # the public item access must agree with iteration
            for (c, vals, _), ns in zip(nss, o):
                assert o[classes[c]] is ns
            out.append([kinds.index(type(o)), clsidx[o.render_cls], nss, hash(o)])
        return out

    def interned():
        out = []
        for k, K in enumerate(kinds):
            for rc, ob in K._interned.items():
                if rc in clsidx:
                    j = next((i for i, x in enumerate(objs) if x is ob), ABSENT)
                    if j != ABSENT:
                        out.append([k, clsidx[rc], j])
        return sorted(out)

    seen_ns = set()

    def note_ns(ns, new):
        if id(ns) not in seen_ns:
            seen_ns.add(id(ns))
            nsobjs.append(ns)   # kept alive: ids stay unique
            new.append(ns)

    def ns_rows(new):
        """(instances first seen now, their == rows against every known instance)"""
        for o in objs:
            for ns in o:
                note_ns(ns, new)
        rows = []
        for x in new:
            row = []
            for y in nsobjs:
                e = x == y
                assert (x != y) == (not e)
                row.append(bool(e))
            rows.append(row)
        return [ns_entry(x) + [hash(x)] for x in new], rows

    def execute(o, new):
        p = o.get("pres", 0)
        kind = o["op"]

        def mk(n, pres):
            inst = mkns(n, pres)
            note_ns(inst, new)
            return inst
        if kind == "new":
            K, cls = kinds[o["k"]], classes[o["cls"]]
            nss = [mk(n, p + i) for i, n in enumerate(o["nss"])]
            if o["init"] is None:
                return K(cls, None, *nss) if p % 2 else K(cls, *nss)
            return K(cls, var(o["init"]), *nss)
        if kind == "upd":
            x = var(o["x"])
            return x.update(*[mk(n, p + i) for i, n in enumerate(o["nss"])])
        if kind == "updf":
            x = var(o["x"])
            return x.update(classes[o["rc"]], **{f"f{j}": v for j, v in o["fields"]})
        if kind == "conv":
            return var(o["x"]).convert(classes[o["rc"]])
        if kind in ("or", "ror"):
            a = mk(o["a"], p)
            b = mk(o["b"]["ns"], p + 1) if "ns" in o["b"] else var(o["b"]["ra"])
            if kind == "or":
                return a | b
            if "ra" in o["b"] and p % 2 == 0:
                return b | a          # RenderArgs has no __or__: resolved by a.__ror__(b)
            return a.__ror__(b)
        if kind == "pos":
            return +mk(o["a"], p)
        if kind == "to":
            return mk(o["a"], p).to_render_args(classes[o["rc"]])
        raise AssertionError(kind)

    obs = []
    for o, probes in zip(case["ops"], case["probes"]):
        new = []
        try:
            res = execute(o, new)
            code = None
        except BadOperand:
            res, code = None, 6
        except Exception as e:  # noqa: BLE001
            res, code = None, err_code(e)
        if res is not None and not isinstance(res, RenderArgs):
            res, code = None, 91
        results.append(res)
        if res is None:
            nsnew, nseq = ns_rows(new)
            obs.append({"res": -1 - code, "dump": dump(), "eq": [], "in": [], "itn": interned(),
                        "nsnew": nsnew, "nseq": nseq})
            continue
        j = next((i for i, x in enumerate(objs) if x is res), None)
        if j is None:
            objs.append(res)
            j = len(objs) - 1
        eq = []
        for x in objs:
            e1 = res == x
            assert (res != x) == (not e1)
            eq.append(bool(e1))
        inn = [mkns(n) in res for n in probes]
        nsnew, nseq = ns_rows(new)
        obs.append({"res": j, "dump": dump(), "eq": eq, "in": inn, "itn": interned(),
                    "nsnew": nsnew, "nseq": nseq})
    # the end: every namespace instance again, both full == matrices; a namespace is never
    # equal to a set of render arguments
    for x in nsobjs:
        for y in objs:
            assert not (x == y) and not (y == x)
    fin = {"ns": [ns_entry(x) + [hash(x)] for x in nsobjs],
           "nseq": [[bool(x == y) for y in nsobjs] for x in nsobjs],
           "eq": [[bool(x == y) for y in objs] for x in objs]}
    return {"obs": obs, "fin": fin}


# ------------------------------------------------------------ class statements


def stmt_code(e, kind):
    msg = str(e)
    t = type(e)
    table = [
        ("has no default value", RenderArgsError, 1),
        ("Multiple base classes", RenderArgsDataError, 2),
        ("inherit and define", RenderArgsDataError, 3),
        ("Cannot reassociate", RenderArgsDataError, 4),
        ("has no fields", RenderArgsDataError, 5),
        ("'render_cls'", TypeError, 6),
        ("Unassociated namespace class with fields", RenderArgsDataError, 7),
        ("required parameter", TypeError, 8),
        ("already has an associated", RenderArgsError if kind == "args" else RenderDataError, 9),
    ]
    for pat, typ, code in table:
        if pat in msg:
            return code if t is typ else 90 + code
    return 89


def run_stmt(case):
    kind = case["kind"]
    root, meta = (ArgsNamespace, AMeta) if kind == "args" else (DataNamespace, DMeta)

    def fresh_render_cls(taken):
        R = RMeta(uniq("R"), (Renderable,), {})
        if taken:
            meta(uniq("Taken"), (root,), {"__annotations__": {"g": int}, "g": 0}, render_cls=R)
        return R

    if case["base"] == "root":
        base = root
    elif case["base"] == "plain":
        base = meta(uniq("Plain"), (root,), {})
    else:  # "assoc": has fields and is associated
        base = meta(uniq("Assoc"), (root,), {"__annotations__": {"b0": int}, "b0": 0},
                    render_cls=fresh_render_cls(False))
    bases = [base]
    for i in range(case["extra_bases"]):
        if case.get("extra_kind", 0) % 2:
            bases.append(meta(uniq("Other"), (root,), {}))
        else:
            bases.append(type(uniq("Obj"), (), {}))
    if case.get("extra_first") and len(bases) > 1:
        bases = bases[1:] + bases[:1]
    ns = {}
    if case["fields"]:
        ns["__annotations__"] = {f"f{j}": int for j in range(len(case["fields"]))}
        for j, has_default in enumerate(case["fields"]):
            if has_default:
                ns[f"f{j}"] = j
    if case["required"]:
        if case.get("required_in_new"):
            ns["__new__"] = lambda cls, foo: None
        else:
            ns["__init__"] = lambda self, foo: None
    kw = {}
    rc = case["rc"]
    if rc == "none":
        kw["render_cls"] = None
    elif rc == "bad":
        kw["render_cls"] = [2, "x", base][case.get("bad_kind", 0) % 3]
    elif rc in ("free", "taken"):
        kw["render_cls"] = fresh_render_cls(rc == "taken")
    try:
        new = meta(uniq("N"), tuple(bases), ns, **kw)
    except Exception as e:  # noqa: BLE001
        return {"code": stmt_code(e, kind)}
    # accepted: sanity of the association
    if rc in ("free", "taken"):
        R = kw["render_cls"]
        ok = (R.Args is new) if kind == "args" else (R._Data_ is new)
        if not ok or new.get_render_cls() is not R:
            return {"code": 88}
    return {"code": 0}


def run_ctor(case):
    R = RMeta(uniq("R"), (Renderable,), {})
    A = make_args_cls(R, case["dfl"])
    try:
        inst = A(*case["vals"], **{f"f{j}": v for j, v in case["kw"]})
    except UnknownArgsFieldError:
        return {"code": 2, "value": []}
    except TypeError as e:
        if "values were given" in str(e):
            return {"code": 1, "value": []}
        if "multiple values" in str(e):
            return {"code": 3, "value": []}
        return {"code": 90, "value": []}
    except Exception:  # noqa: BLE001
        return {"code": 91, "value": []}
    return {"code": 0, "value": list(inst.as_dict().values())}


def run_rend(case):
    bases = []
    for b in case["bases"]:
        bases.append(RMeta(uniq("B"), (Renderable,), {}) if b else type(uniq("Obj"), (), {}))
    try:
        RMeta(uniq("X"), tuple(bases), {})
    except RenderableError:
        return {"accepted": False}
    return {"accepted": True}


# ------------------------------------------------------------ namespace programs over values

STRS = ["", "x", "0", "None", "f0"]
UNKNOWN_NAMES = ["bogus", None, "F0", "f0_", "fields", "as_dict"]   # None: f"f{nf}"
NAN_UNKNOWN = 9999


class SelfUnequal:
    """a NaN-like object: unequal to everything, itself included; hashable"""

    __slots__ = ("n",)

    def __init__(self, n):
        self.n = n

    def __eq__(self, other):
        return False

    def __hash__(self):
        return id(self) >> 4

    def __repr__(self):
        return f"SelfUnequal({self.n})"


def field_name(j, nf):
    if j < nf:
        return f"f{j}"
    k = j - nf
    if k < len(UNKNOWN_NAMES):
        return UNKNOWN_NAMES[k] or f"f{nf}"
    return f"x{k}"


def run_nsprog(case):
    nans = {}

    def dec(v):
        t = v[0]
        if t == "i":
            return int(v[1])
        if t == "b":
            return bool(v[1])
        if t == "f":
            return float(v[1])
        if t == "n":
            return None
        if t == "e":
            return Ellipsis
        if t == "s":
            return STRS[v[1]]
        if t == "t":
            return ()
        if t == "nan":
            if v[1] not in nans:
                nans[v[1]] = SelfUnequal(v[1]) if v[1] % 2 else float("nan")
            return nans[v[1]]
        raise AssertionError(v)

    def enc(x):
        for k, o in nans.items():
            if o is x:
                return ["nan", k]
        if x is None:
            return ["n"]
        if x is Ellipsis:
            return ["e"]
        if type(x) is bool:
            return ["b", int(x)]
        if type(x) is int:
            return ["i", x]
        if type(x) is float and x == x and x == int(x) and abs(x) < 10**6:
            return ["f", int(x)]
        if type(x) is str and x in STRS:
            return ["s", STRS.index(x)]
        if type(x) is tuple and not x:
            return ["t"]
        return ["nan", NAN_UNKNOWN]

    cl = case["cl"]
    rcls, ncls_ = [], []
    base = Renderable
    for c, dfl in enumerate(cl):
        R = RMeta(uniq(f"R{c}"), (base,), {})
        ncls_.append(make_args_cls(R, [dec(v) for v in dfl]))   # associated before subclassing
        rcls.append(R)
        base = R
    nfs = [len(d) for d in cl]
    # the shared default instances, through the public API
    objs = [RenderArgs(R)[R] for R in rcls]
    ok0 = all(type(o) is K for o, K in zip(objs, ncls_))
    results = list(objs)          # the environment: defaults first, then one entry per operation

    def entry(ns):
        K = type(ns)
        c = ncls_.index(K) if K in ncls_ else 99
        names = list(K.get_fields())
        d = ns.as_dict()
        dvals = [enc(x) for x in d.values()] if list(d) == names else [["nan", NAN_UNKNOWN]]
        return [c, dvals, [enc(getattr(ns, name)) for name in names], hash(ns)]

    def dump():
        return [entry(o) for o in objs]

    def class_fields():
        return [[enc(x) for x in K.get_fields().values()] for K in ncls_]

    def var(x):
        if x >= len(results) or not isinstance(results[x], ArgsNamespace):
            raise BadOperand
        return results[x]

    def kwargs(c, kw):
        return {field_name(j, nfs[c]): dec(v) for j, v in kw}

    def execute(o, flags):
        kind = o["op"]
        if kind == "ctor":
            if o["c"] >= len(ncls_):
                raise BadOperand
            return ncls_[o["c"]](*[dec(v) for v in o["pos"]], **kwargs(o["c"], o["kw"]))
        x = var(o["x"])
        c = ncls_.index(type(x))
        if kind == "upd":
            return x.update(**kwargs(c, o["kw"]))
        if kind == "raupd":
            if o["m"] >= len(rcls):
                raise BadOperand
            ra = RenderArgs(rcls[o["m"]], x)
            before = list(ra)
            try:
                new = ra.update(rcls[c], **kwargs(c, o["kw"]))
            finally:
                flags.append(len(list(ra)) == len(before) and all(a is b for a, b in zip(ra, before))
                             and ra[rcls[c]] is x and ra.render_cls is rcls[o["m"]])
            flags.append(isinstance(new, RenderArgs) and new.render_cls is rcls[o["m"]]
                         and all(new[rcls[k]] is ra[rcls[k]] for k in range(o["m"] + 1) if k != c))
            return new[rcls[c]]
        if kind == "get":
            return ("value", getattr(x, field_name(o["j"], nfs[c])))
        raise AssertionError(kind)

    init = dump()
    obs = []
    for o in case["ops"]:
        flags = [ok0]
        val = ["n"]
        try:
            res = execute(o, flags)
            code = None
        except BadOperand:
            res, code = None, 6
        except Exception as e:  # noqa: BLE001
            res, code = None, err_code(e)
        if isinstance(res, tuple) and len(res) == 2 and res[0] == "value":
            val = enc(res[1])
            results.append(None)
            obs.append({"res": -100, "val": val, "dump": dump(), "eq": [], "dfl": class_fields(),
                        "flags": all(flags)})
            continue
        if res is not None and not isinstance(res, ArgsNamespace):
            res, code = None, 91
        results.append(res)
        if res is None:
            obs.append({"res": -1 - code, "val": val, "dump": dump(), "eq": [], "dfl": class_fields(),
                        "flags": all(flags)})
            continue
        j = next((i for i, y in enumerate(objs) if y is res), None)
        if j is None:
            objs.append(res)
            j = len(objs) - 1
        eq = []
        for y in objs:
            e = res == y
            flags.append((res != y) == (not e) and (y == res) == e)
            eq.append(bool(e))
        obs.append({"res": j, "val": val, "dump": dump(), "eq": eq, "dfl": class_fields(),
                    "flags": all(flags)})
    fin = [[bool(x == y) for y in objs] for x in objs]
    return {"init": init, "obs": obs, "fin": fin}


# ---------------------------------------------------------------- nssub cases
# Namespace SUBCLASSES with their own constructor (model/RArgsSub.v).  Class table: the
# associated classes first (index c), then the subclasses [base, desc] with desc one of
# ["plain"], ["preset", kw], ["renamed", perm], ["force", kw].
MISSING = object()


class ValCodec:
    """the value universe of the nsprog cases (same encoding as run_nsprog)"""

    def __init__(self):
        self.nans = {}

    def dec(self, v):
        t = v[0]
        if t == "i":
            return int(v[1])
        if t == "b":
            return bool(v[1])
        if t == "f":
            return float(v[1])
        if t == "n":
            return None
        if t == "e":
            return Ellipsis
        if t == "s":
            return STRS[v[1]]
        if t == "t":
            return ()
        if t == "nan":
            if v[1] not in self.nans:
                self.nans[v[1]] = SelfUnequal(v[1]) if v[1] % 2 else float("nan")
            return self.nans[v[1]]
        raise AssertionError(v)

    def enc(self, x):
        for k, o in self.nans.items():
            if o is x:
                return ["nan", k]
        if x is None:
            return ["n"]
        if x is Ellipsis:
            return ["e"]
        if type(x) is bool:
            return ["b", int(x)]
        if type(x) is int:
            return ["i", x]
        if type(x) is float and x == x and x == int(x) and abs(x) < 10**6:
            return ["f", int(x)]
        if type(x) is str and x in STRS:
            return ["s", STRS.index(x)]
        if type(x) is tuple and not x:
            return ["t"]
        return ["nan", NAN_UNKNOWN]


def make_sub_cls(K, desc, nf, codec):
    """a subclass of the namespace class K with the constructor described by desc"""
    kind = desc[0]
    if kind == "plain":
        body = {}
    elif kind == "preset":
        pk = {field_name(j, nf): codec.dec(v) for j, v in desc[1]}

        def __init__(self):
            K.__init__(self, **pk)                      # super().__init__(quality=9, ...)
        body = {"__init__": __init__}
    elif kind == "force":
        pk = {field_name(j, nf): codec.dec(v) for j, v in desc[1]}

        def __init__(self, **fields):
            K.__init__(self, **{**fields, **pk})
        body = {"__init__": __init__}
    elif kind == "renamed":
        perm = desc[1]
        names = [field_name(j, nf) for j in perm]
        params = "".join(f", p{j}=MISSING" for j in range(len(perm)))
        given = ", ".join(f"p{j}" for j in range(len(perm)))
        src = (f"def __init__(self{params}):\n"
               f"    given = [{given}]\n"
               f"    K.__init__(self, **{{NAMES[j]: v for j, v in enumerate(given) if v is not MISSING}})\n")
        env = {"K": K, "NAMES": names, "MISSING": MISSING}
        exec(src, env)
        body = {"__init__": env["__init__"]}
    else:
        raise AssertionError(kind)
    return type(K)(uniq("Sub"), (K,), body)


def run_nssub(case):
    codec = ValCodec()
    dec, enc = codec.dec, codec.enc
    cl = case["cl"]
    rcls, classes = [], []
    base = Renderable
    for c, dfl in enumerate(cl):
        R = RMeta(uniq(f"R{c}"), (base,), {})
        classes.append(make_args_cls(R, [dec(v) for v in dfl]))   # associated before subclassing
        rcls.append(R)
        base = R
    ncl = len(cl)
    nfs = [len(d) for d in cl]
    base_of = list(range(ncl))
    descs = [["plain"]] * ncl
    for b, desc in case["subs"]:
        classes.append(make_sub_cls(classes[b], desc, nfs[b], codec))
        base_of.append(b)
        descs.append(desc)
    objs = [RenderArgs(R)[R] for R in rcls]
    ok0 = all(type(o) is K for o, K in zip(objs, classes))
    results = list(objs)

    def entry(ns):
        K = type(ns)
        s = classes.index(K) if K in classes else 99
        names = list(K.get_fields())
        d = ns.as_dict()
        dvals = [enc(x) for x in d.values()] if list(d) == names else [["nan", NAN_UNKNOWN]]
        return [s, dvals, [enc(getattr(ns, name)) for name in names], hash(ns)]

    def dump():
        return [entry(o) for o in objs]

    def class_fields():
        return [[enc(x) for x in K.get_fields().values()] for K in classes[:ncl]]

    def var(x):
        if x >= len(results) or not isinstance(results[x], ArgsNamespace):
            raise BadOperand
        return results[x]

    def kwargs(c, kw):
        return {field_name(j, nfs[c]): dec(v) for j, v in kw}

    def rc(m):
        if m >= ncl:
            raise BadOperand
        return rcls[m]

    def execute(o, flags):
        kind = o["op"]
        if kind == "new":
            s = o["s"]
            if s >= len(classes):
                raise BadOperand
            c = base_of[s]
            if descs[s][0] == "renamed":
                kw = {f"p{j}": dec(v) for j, v in o["kw"]}
            else:
                kw = kwargs(c, o["kw"])
            return classes[s](*[dec(v) for v in o["pos"]], **kw)
        x = var(o["x"])
        s = classes.index(type(x))
        c = base_of[s]
        if kind == "upd":
            return x.update(**kwargs(c, o["kw"]))
        if kind == "raupd":
            ra = RenderArgs(rc(o["m"]), x)
            before = list(ra)
            try:
                new = ra.update(rcls[c], **kwargs(c, o["kw"]))
            finally:
                flags.append(len(list(ra)) == len(before) and all(a is b for a, b in zip(ra, before))
                             and ra[rcls[c]] is x and ra.render_cls is rcls[o["m"]])
            flags.append(isinstance(new, RenderArgs) and new.render_cls is rcls[o["m"]]
                         and all(new[rcls[k]] is ra[rcls[k]] for k in range(o["m"] + 1) if k != c))
            return new[rcls[c]]
        if kind == "hold":
            r = o["r"]
            if r[0] == "pos":
                ra = +x
            elif r[0] == "or":
                ra = x | RenderArgs(rc(r[1]))
            elif r[0] == "ror":
                ra = RenderArgs(rc(r[1])) | x
            elif r[0] == "tora":
                ra = x.to_render_args(rc(r[1]))
            elif r[0] == "conv":
                rc(r[2])
                ra = RenderArgs(rc(r[1]), x).convert(rc(r[2]))
                if r[2] < c:
                    raise BadOperand
            else:
                raise AssertionError(r)
            flags.append(isinstance(ra, RenderArgs))
            return ra[rcls[c]]
        raise AssertionError(kind)

    init = dump()
    obs = []
    for o in case["ops"]:
        flags = [ok0]
        try:
            res = execute(o, flags)
            code = None
        except BadOperand:
            res, code = None, 6
        except Exception as e:  # noqa: BLE001
            res, code = None, err_code(e)
        if res is not None and not isinstance(res, ArgsNamespace):
            res, code = None, 91
        results.append(res)
        if res is None:
            obs.append({"res": -1 - code, "val": ["n"], "dump": dump(), "eq": [], "dfl": class_fields(),
                        "flags": all(flags)})
            continue
        j = next((i for i, y in enumerate(objs) if y is res), None)
        if j is None:
            objs.append(res)
            j = len(objs) - 1
        obs.append({"res": j, "val": ["n"], "dump": dump(), "eq": [], "dfl": class_fields(),
                    "flags": all(flags)})
    return {"init": init, "obs": obs}


# ---------------------------------------------------------------- intern cases
# Interleaved first-time requests for the default set of one class (model/RArgsIntern.v).
# Thread 0's request is parked at the k-th 'line' event it executes inside term_image code
# (sys.settrace in that thread only; a counting run gives the number of positions); the main
# thread performs a complete request in that window, releases thread 0, and asks once more
# afterwards.  Every position gets a fresh class chain, so the class has no default set yet.
import os as _os
import sys as _sys
import threading as _threading

import term_image as _ti

_TI_DIR = _os.path.dirname(_os.path.abspath(_ti.__file__)) + _os.sep
INTERN_TIMEOUT = 120


def _intern_chain(case):
    classes = [Renderable]
    nsc = {}
    for i, has in enumerate(case["ns"], 1):
        body = {}
        if i == len(case["ns"]) and case.get("renderable"):
            from term_image.geometry import Size
            from term_image.renderable import Frame

            seen = body["_seen"] = []

            def _render_(self, render_data, render_args, seen=seen):
                seen.append(render_args)
                return Frame(0, None, Size(1, 1), " ")

            body["_render_"] = _render_
            body["_get_render_size_"] = lambda self: Size(1, 1)
        cls = RMeta(uniq(f"I{i}"), (classes[-1],), body)
        if has:
            nsc[i] = make_args_cls(cls, [i, 10 + i][: 1 + i % 2])
        classes.append(cls)
    return classes, nsc


def _intern_request(kind, classes):
    cls = classes[-1]
    if kind == 0:
        return lambda: RenderArgs(cls)
    if kind == 1:
        return lambda: RenderArgs(cls, None)
    if kind == 2:
        init = RenderArgs(classes[-2])      # built outside the window: another class's default
        return lambda: RenderArgs(cls, init)
    if kind == 3:
        inst = cls(1, 1)

        def req():
            del cls._seen[:]
            inst.render()
            return cls._seen[0]

        return req
    raise AssertionError(kind)


def _intern_once(case, k):
    """k None: counting run (returns the number of positions); else the observation"""
    classes, nsc = _intern_chain(case)
    cls = classes[-1]
    clsidx = {c: i for i, c in enumerate(classes)}
    req0 = _intern_request(case["req0"], classes)
    req1 = _intern_request(case["req1"], classes)
    reached, resume = _threading.Event(), _threading.Event()
    st = {"n": 0, "parked": False, "pub": False, "built": False, "where": None}
    out = {}

    def local(frame, event, arg):
        if event == "line":
            if k is not None and st["n"] == k and not st["parked"]:
                st["parked"] = True
                f, obj = frame, None
                while f is not None and obj is None:
                    cand = f.f_locals.get("self")
                    if isinstance(cand, RenderArgs):
                        obj = cand
                    f = f.f_back
                st["pub"] = cls in RenderArgs._interned
                st["built"] = obj is not None and hasattr(obj, "render_cls") and hasattr(obj, "_namespaces")
                st["where"] = f"{frame.f_code.co_name}:{frame.f_lineno}"
                reached.set()
                resume.wait(INTERN_TIMEOUT)
            st["n"] += 1
        return local

    def tracer(frame, event, arg):
        return local if frame.f_code.co_filename.startswith(_TI_DIR) else None

    def body():
        _sys.settrace(tracer)
        try:
            out["r0"] = req0()
        except Exception as e:  # noqa: BLE001
            out["e0"] = f"{type(e).__name__}: {e}"
        finally:
            _sys.settrace(None)
            reached.set()

    def look(j):
        ra = out.get(f"r{j}")
        if ra is None:
            return None, out.get(f"e{j}", "no result")
        try:
            if not isinstance(ra, RenderArgs) or ra.render_cls is not cls:
                return [98], "render_cls is not the class asked for"
            held = []
            for ns in ra:
                i = clsidx.get(ns._RENDER_CLS, 97)
                same = i in nsc and type(ns) is nsc[i] and ra[classes[i]] is ns and ns == nsc[i]() \
                    and ns.as_dict() == nsc[i]().as_dict()
                held.append(i if same else 50 + i)
            return sorted(held), None
        except Exception as e:  # noqa: BLE001
            return None, f"{type(e).__name__}: {e}"

    th = _threading.Thread(target=body, daemon=True)
    th.start()
    try:
        if not reached.wait(INTERN_TIMEOUT):
            raise RuntimeError("thread 0 neither parked nor ended")
        if k is None:
            th.join(INTERN_TIMEOUT)
            return st["n"]
        if st["parked"]:
            try:
                out["r1"] = req1()
            except Exception as e:  # noqa: BLE001
                out["e1"] = f"{type(e).__name__}: {e}"
            # the caller of the second request uses its set at once, while thread 0 is still parked
            out["look1"] = look(1)
    finally:
        resume.set()
        th.join(INTERN_TIMEOUT)
    if not st["parked"]:
        return None
    try:
        out["r2"] = RenderArgs(cls)
    except Exception as e:  # noqa: BLE001
        out["e2"] = f"{type(e).__name__}: {e}"

    res, why = zip(*(out["look1"] if j == 1 else look(j) for j in range(3)))
    objs = [out.get(f"r{j}") for j in range(3)]
    same = [objs[a] is not None and objs[a] is objs[b] for a, b in ((0, 1), (0, 2), (1, 2))]
    eq = True
    for a in range(3):
        for b in range(3):
            if res[a] is not None and res[b] is not None:
                try:
                    eq = eq and objs[a] == objs[b] and hash(objs[a]) == hash(objs[b])
                except Exception:  # noqa: BLE001
                    eq = False
    return {"k": k, "where": st["where"], "pub": st["pub"], "built": st["built"], "res": list(res),
            "why": list(why), "same": same, "eq": bool(eq)}


def run_intern(case):
    """case["k"]: an int (one park position) or "all" (every position, counted first)"""
    n = _intern_once(case, None)
    ks = range(n) if case["k"] == "all" else [case["k"]]
    obs = [o for o in (_intern_once(case, k) for k in ks) if o is not None]
    return {"n": n, "obs": obs}

# ------------------------------------------------------------------ nsexp / nsvirt (model/RArgsRel.v)


def make_export_cls(K, desc, codec):
    """a subclass of the namespace class K overriding documented public methods other than
    the constructor: as_dict() (entries added / reordered; every field stays exported under
    its name with its value), or get_fields() + __repr__"""
    kind = desc[0]
    if kind == "plain":
        return K
    if kind == "other":
        def get_fields(cls):
            return dict(reversed(list(K.get_fields().items())))

        def __repr__(self):
            return "<namespace>"
        body = {"get_fields": classmethod(get_fields), "__repr__": __repr__}
    else:
        extra = codec.dec(desc[1]) if len(desc) > 1 else None

        def as_dict(self):
            d = K.as_dict(self)                                   # super().as_dict()
            if kind in ("rev", "addrev"):
                d = dict(reversed(list(d.items())))
            if kind in ("addfirst", "addrev"):
                d = {"extra": extra, **d}
            elif kind == "addlast":
                d = {**d, "extra": extra}
            return d
        body = {"as_dict": as_dict}
    return type(K)(uniq("Exp"), (K,), body)


def _tables(objs):
    return {"eq": [[bool(a == b) for b in objs] for a in objs],
            "hash": [hash(a) for a in objs],
            "find": [[{a: 1}.get(b) == 1 and b in {a} and b in [a] for b in objs] for a in objs]}


def run_nsexp(case):
    codec = ValCodec()
    dec, enc = codec.dec, codec.enc
    rcls, classes = [Renderable], [None]
    for c, dfl in enumerate(case["cl"], 1):
        R = RMeta(uniq(f"R{c}"), (rcls[-1],), {})
        classes.append(make_args_cls(R, [dec(v) for v in dfl]))   # associated before subclassing
        rcls.append(R)
    made = {}
    inst = []
    for c, desc, vals in case["inst"]:
        key = (c, repr(desc))
        if key not in made:
            made[key] = make_export_cls(classes[c], desc, codec)
        inst.append(made[key](*[dec(v) for v in vals]))
    routes = [
        lambda R, P, x: RenderArgs(R, x),
        lambda R, P, x: +x,
        lambda R, P, x: RenderArgs(R) | x,
        lambda R, P, x: RenderArgs(R).update(x),
        lambda R, P, x: RenderArgs(P).convert(R).update(x),
    ]
    sets = []
    for f in routes:
        objs = [f(rcls[c], rcls[c - 1], x) for (c, _, _), x in zip(case["inst"], inst)]
        ok = all(isinstance(o, RenderArgs) and o.render_cls is rcls[c] and o[rcls[c]] is x
                 for (c, _, _), x, o in zip(case["inst"], inst, objs))
        sets.append({**_tables(objs), "ok": ok})
    return {"exports": [[enc(v) for v in x.as_dict().values()] for x in inst],
            "fields": [[enc(getattr(x, f"f{j}")) for j in range(len(vals))] for (_, _, vals), x in zip(case["inst"], inst)],
            "ns": _tables(inst), "sets": sets}


def run_nsvirt(case):
    par, own = case["par"], case["own"]
    classes = [Renderable]
    for c in range(1, len(par)):
        R = RMeta(uniq(f"V{c}"), (classes[par[c]],), {})
        if own[c]:
            make_args_cls(R, [0])                                 # associated before subclassing
        classes.append(R)
    for b, k in case["reg"]:
        classes[b].register(classes[k])                           # abc: a VIRTUAL subclass
    index = {R: c for c, R in enumerate(classes)}

    def keys_of(r):
        return sorted((index.get(ns.get_render_cls(), 99) for ns in r), reverse=True)

    def snapshot():
        return [(id(RenderArgs(R)), [(id(ns), ns.as_dict()) for ns in RenderArgs(R)]) for R in classes]
    before = snapshot()
    keep = [RenderArgs(R) for R in classes]                       # keeps the ids meaningful
    init_family = case.get("family") == "init"
    probes = []
    for route, t, c in case["probes"]:
        T, C = classes[t], classes[c]
        ns = C.Args(7)
        base = RenderArgs(T)
        try:
            if init_family:
                init = RenderArgs(C, ns)
                own_t = next((K for K in T.__mro__ if K in index and own[index[K]]), None)
                base = init
                if route == 1 and own_t is not None:
                    given = own_t.Args(5)
                    r = RenderArgs(T, init, given)
                else:
                    r = RenderArgs(T, init)
            elif route == 0:
                r = RenderArgs(T, ns)
            elif route == 1:
                r = RenderArgs(T, None, ns)
            elif route == 2:
                own_t = next((K for K in T.__mro__ if K in index and own[index[K]]), None)
                base = RenderArgs(T, own_t.Args(5)) if own_t is not None else RenderArgs(T)
                r = RenderArgs(T, base, ns)
            elif route == 3:
                r = ns.to_render_args(T)
            else:
                r = RenderArgs(T).update(ns)
        except Exception as e:  # noqa: BLE001
            probes.append({"res": 1 + err_code(e), "keys": [], "val": False, "issub": issubclass(T, C)})
            continue
        dflt = RenderArgs(T)
        held = list(r)
        if init_family:
            val = all(x is (given if route == 1 and own_t is not None and x.get_render_cls() is own_t
                            else base[x.get_render_cls()] if x.get_render_cls() in [y.get_render_cls() for y in base]
                            else dflt[x.get_render_cls()]) for x in held)
        else:
            val = all((x is ns) if x.get_render_cls() is C else (x is base[x.get_render_cls()]) for x in held) and any(x is ns for x in held)
        probes.append({"res": 0, "keys": keys_of(r), "val": bool(val), "issub": issubclass(T, C)})
    after = snapshot()
    del keep
    return {"probes": probes, "keys0": [keys_of(RenderArgs(R)) for R in classes], "unchanged": before == after}


def run_nsmix(case):
    """render class statements listing plain mix-in classes: the MRO of every class, the owner classes of the
    namespaces its default set holds, and the outcome of RenderArgs(T, A.Args(7)) for every owner class A"""
    par, own, mix = case["par"], case["own"], case["mix"]
    classes, mixins = [Renderable], {}
    for c in range(1, len(par)):
        R = make_render_cls("X", c, classes, par, mix, mixins)
        if own[c]:
            make_args_cls(R, [0])                                 # associated before subclassing
        classes.append(R)
    index = {R: c for c, R in enumerate(classes)}

    def item(K):
        if K in index:
            return [index[K], 0]
        if K in mixins:
            return [mixins[K][0], mixins[K][1] + 1]
        return [999, 999]
    mros = [[item(K) for K in R.__mro__ if K is not object] for R in classes]
    held, acc = [], []
    for T in classes:
        held.append([index.get(ns.get_render_cls(), 999) for ns in RenderArgs(T)])
        row = []
        for a, A in enumerate(classes):
            if not own[a]:
                row.append(9)
                continue
            ns = A.Args(7)
            try:
                r = RenderArgs(T, ns)
            except Exception as e:  # noqa: BLE001
                row.append(1 + err_code(e))
                continue
            ok = r[A] is ns and all(x is ns or x is RenderArgs(T)[x.get_render_cls()] for x in r)
            row.append(0 if ok else 98)
        acc.append(row)
    return {"mro": mros, "held": held, "acc": acc}


def run_case(case):
    return {"prog": run_prog, "nsmix": run_nsmix, "stmt": run_stmt, "ctor": run_ctor, "rend": run_rend,
            "nsprog": run_nsprog, "nssub": run_nssub, "intern": run_intern,
            "nsexp": run_nsexp, "nsvirt": run_nsvirt}[case["type"]](case)


if __name__ == "__main__":
    implenv.write_results([run_case(c) for c in implenv.read_cases()])
