"""A small DETERMINISTIC scheduler for a few threads (no sleeps, no timing).

Every thread it manages runs only while it holds the (single) grant; code the thread
executes calls ``gate(point)`` at chosen places (through pass-through wrappers installed by
the driver around functions the library calls) and parks there if that is where its current
grant ends.  Exactly one managed thread runs at any time, the main thread waits for it to
park or to end, so an execution is a function of the schedule alone.

    ps = ParkSched([fn0, fn1])          # one thread per function, all parked before their start
    ps.grant(0, "save", 2)              # thread 0 runs until it reaches gate "save" the 2nd time
    ps.grant(1, "*")                    # thread 1 runs to its next gate, whatever its name
    ps.grant(0, None)                   # thread 0 runs to its end
    ps.finish()                         # every thread that has not ended runs to its end, in order
    ps.results                          # per thread: ("ok", value) | ("exc", exception)

``grant`` returns the name of the gate the thread parked at, or "end".  A grant to a thread
that has ended is a no-op ("end").  A thread that does not come back within `timeout`
seconds (it would be blocked on something a parked thread holds) raises ``Stuck`` in the
main thread; the timeout is an upper bound only and never reached in a correct run.

Code running outside a managed thread (the main thread) passes through every gate."""
import threading


class Stuck(Exception):
    pass


class ParkSched:
    def __init__(self, fns, timeout=120):
        self.n = len(fns)
        self.timeout = timeout
        self.go = [threading.Semaphore(0) for _ in fns]
        self.back = threading.Semaphore(0)
        self.ended = [False] * self.n
        self.at = ["start"] * self.n
        self.target = [None] * self.n       # [name, remaining occurrences] of the current grant
        self.results = [None] * self.n
        self.ident = {}
        self.log = []                       # (thread, gate reached) in execution order, passes included
        self.threads = [threading.Thread(target=self._body, args=(i, f), daemon=True) for i, f in enumerate(fns)]
        for t in self.threads:
            t.start()

    def _body(self, i, fn):
        self.ident[threading.get_ident()] = i
        self.go[i].acquire()
        try:
            self.results[i] = ("ok", fn())
        except BaseException as e:  # noqa: BLE001 - reported to the driver
            self.results[i] = ("exc", e)
        finally:
            self.ended[i] = True
            self.at[i] = "end"
            self.back.release()

    def current(self):
        """index of the managed thread executing this call, None in any other thread"""
        return self.ident.get(threading.get_ident())

    def gate(self, point):
        i = self.current()
        if i is None:
            return
        self.log.append((i, point))
        tgt = self.target[i]
        if tgt is None or (tgt[0] != "*" and tgt[0] != point):
            return
        tgt[1] -= 1
        if tgt[1] > 0:
            return
        self.at[i] = point
        self.back.release()
        self.go[i].acquire()

    def grant(self, i, point=None, nth=1):
        if not 0 <= i < self.n or self.ended[i]:
            return "end"
        self.target[i] = None if point is None else [point, max(1, nth)]
        self.go[i].release()
        if not self.back.acquire(timeout=self.timeout):
            raise Stuck(f"thread {i} neither parked nor ended (last seen at {self.at[i]!r})")
        return self.at[i]

    def finish(self):
        for i in range(self.n):
            self.grant(i, None)
        for t in self.threads:
            t.join(self.timeout)
