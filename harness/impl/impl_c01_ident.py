"""C01 implementation driver, terminal identity: the quirk mode a graphics-based style renders in
is DETECTED by the library from what the terminal reports; nothing here assigns `_TERM` /
`_KITTY_VERSION`.

A case:
  style      "iterm2" | "kitty"
  ident      {"name": str | None, "version": str | None, "reply": "ok" | "error" | "none"}
             what the TERMINAL reports: name / version as returned by
             `get_terminal_name_version()` (the stub of the test-suite, tests/__init__.py), and --
             consulted by the kitty style only -- its reply to the kitty graphics query + DA1
  route      [{"op": "check" | "force" | "clear", "cls": k, "val": bool}, ...] then the construction of
             an instance of class `cls`;  class 0 = GraphicsImage, 1 = the style class, 2 = a
             subclass of it, 3 = a subclass of that (fresh classes per case).
             check: cls.is_supported();  force: cls.forced_support = val;  clear: cls._supported = None
  cls        k: the class that is instantiated
  cells, img, cell_size, alpha, args, via ("renderer" | "str" | "format"), spec
  frame      (kitty) the style arguments are the ones `_display_animated` picks (captured from the
             call it makes to the base implementation), as for the frames of an animation

Result: {"built": False} when the constructor raises StyleError, otherwise {"built": True, "out",
"rendered_size", "recorded": what the instance sees recorded (for reports only)}."""
import implenv
from implenv import tests

import impl_render as IR

from term_image.exceptions import StyleError
from term_image.image import GraphicsImage, ITerm2Image, KittyImage
from term_image.image import common as _common
from term_image.image import kitty as _kitty

REPLIES = {
    "ok": b"\x1b_Gi=31;OK\x1b\\\x1b[?62;c",
    "error": b"\x1b_Gi=31;ENOTSUPPORTED:unknown command\x1b\\\x1b[?62;c",
    "da1": b"\x1b[?62;c",  # answers DA1 only: no kitty graphics
    "none": None,
}


def reset():
    """The state of a fresh process -- except for what tests/__init__.py did: it declares every
    graphics-based style supported without any detection; undone here so that the library's own
    detection runs (against the stubbed terminal name / version / query reply)."""
    for cls in (GraphicsImage, ITerm2Image, KittyImage):
        for attr in ("_supported", "_forced_support"):
            if attr in vars(cls):
                delattr(cls, attr)
    ITerm2Image._TERM = ITerm2Image._TERM_VERSION = ""
    KittyImage._TERM = KittyImage._TERM_VERSION = ""
    KittyImage._KITTY_VERSION = ()


def run_case(case):
    style = case["style"]
    base = {"iterm2": ITerm2Image, "kitty": KittyImage}[style]
    ident = case["ident"]
    tests.set_cell_size(tuple(case.get("cell_size", (10, 20))))
    tests.set_fg_bg_colors(None, None)
    saved_nv = tests.get_terminal_name_version()
    saved_query = _kitty.query_terminal
    saved_anim = _common.BaseImage._display_animated
    reset()
    try:
        # ---- the terminal
        tests.terminal_name_version = (ident.get("name"), ident.get("version"))
        reply = REPLIES[ident.get("reply", "none")]
        _kitty.query_terminal = lambda request, more, timeout=None: reply
        # ---- the chain of classes
        sub = type("Sub" + base.__name__, (base,), {})
        subsub = type("SubSub" + base.__name__, (sub,), {})
        chain = [GraphicsImage, base, sub, subsub]
        # ---- the application's route
        for op in case.get("route", []):
            cls = chain[op["cls"]]
            if op["op"] == "check":
                cls.is_supported()
            elif op["op"] == "force":
                cls.forced_support = bool(op["val"])
            elif op["op"] == "clear":
                cls._supported = None
        cls = chain[case["cls"]]
        img = IR.make_image(case["img"])
        w, h = case["cells"]
        try:
            image = cls(img, width=w, height=h)
        except StyleError:
            return {"built": False}
        alpha = IR.parse_alpha(case.get("alpha"))
        args = dict(case.get("args", {}))
        res = {"built": True}
        if case.get("frame"):
            captured = {}

            def capture(self, img_, alpha_, fmt_, repeat_, cached_, **style_args):
                captured.update(style_args)

            _common.BaseImage._display_animated = capture
            image._display_animated(img, alpha, (None, 1, None, 1), 1, False, **args)
            _common.BaseImage._display_animated = saved_anim
            args = captured
            res["anim_args"] = {k: v for k, v in captured.items() if k in ("z_index", "blend", "mix", "method")}
        via = case.get("via", "renderer")
        if via == "str":
            out = str(image)
        elif via == "format":
            out = format(image, case.get("spec", ""))
        else:
            out = image._renderer(image._render_image, alpha, **args)
        res["out"] = out
        res["rendered_size"] = list(image.rendered_size)
        res["recorded"] = [str(getattr(image, "_TERM", "")), str(getattr(image, "_TERM_VERSION", "")),
                           list(getattr(image, "_KITTY_VERSION", ()))]
        return res
    except Exception as e:  # noqa: BLE001
        return {"error": f"{type(e).__name__}: {e}"}
    finally:
        _common.BaseImage._display_animated = saved_anim
        _kitty.query_terminal = saved_query
        tests.terminal_name_version = saved_nv
        reset()
        GraphicsImage._supported = True  # what tests/__init__.py had set


if __name__ == "__main__":
    implenv.write_results([run_case(c) for c in implenv.read_cases()])
