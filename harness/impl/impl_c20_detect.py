"""C20 implementation driver, SUPPORT DETECTION inside settings histories (round 7).

The histories of impl_c20.py run with `GraphicsImage._supported = True` preset (what
tests/__init__.py does), so the library's own support detection never runs.  Here a history of
set / unset operations of ONE setting on a forest of style subclasses is interleaved with

  {"op": "det", "t": c, "fresh": bool}   classes[c].is_supported()  (fresh: `_supported` is first
                                         removed from the class and its ancestors up to the style
                                         class, so that the detection body runs again)
  {"op": "new", "t": c}                  classes[c](image, ...): instance creation, which checks
                                         support first (GraphicsImage.__new__)

and the process starts in the state of a FRESH process (no class has `_supported` recorded; the
preset of the test-suite is removed), for a TERMINAL IDENTITY ("ident") that only fixes what the
terminal reports: the name / version returned by `get_terminal_name_version()` (the stub of the
test-suite) and the reply to the kitty graphics query + DA1 (`query_terminal` as looked up by
term_image.image.kitty).  The detection itself is the library's own code; nothing here assigns
`_supported` / `_TERM`.

Result rows, one per op: [answer, value a new instance reads (-1: none), every class's value ...,
every pre-existing instance's value ...]; answer = outcome of a set / unset (0 accepted, 1
rejected), the support check's result, or whether the instance was created.  "confirm_bad": a
render's framing (LINES vs WHOLE) disagrees with the render method read; "others": another
inheritable setting changed during the history (there are no operations on them).

All library classes are process-global: the COMPLETE own dictionaries of the library's image
classes are put back to their import-time state after every case and the restoration is verified
("restored"; "clean_start")."""
import implenv
from implenv import tests

import impl_c20 as B  # read / apply / decode / framing helpers (no side effects beyond the cell size)

from term_image.exceptions import StyleError
from term_image.image import BaseImage, BlockImage, GraphicsImage, ITerm2Image, KittyImage, TextImage
from term_image.image import kitty as _kitty
from term_image.image.iterm2 import ITerm2ImageMeta

LIB = (BaseImage, GraphicsImage, TextImage, BlockImage, KittyImage, ITerm2Image)
OK = b"\x1b_Gi=31;OK\x1b\\\x1b[?62;c"
IDENTS = {
    "kitty30": (("kitty", "0.30.0"), OK),
    "kitty19": (("kitty", "0.19.0"), OK),
    "konsole": (("konsole", "22.04.0"), OK),
    "wezterm": (("wezterm", "20230712"), OK),
    "iterm2": (("iterm2", "3.4.19"), None),  # never queried by the kitty style
    "unknown": ((None, None), None),  # no name, no answer
}


def lib_dicts():
    return {c.__name__: dict(vars(c)) for c in LIB}, ITerm2ImageMeta._native_anim_max_bytes


PRISTINE = lib_dicts()


def same(a, b):
    return a[1] == b[1] and all(
        a[0][n].keys() == b[0][n].keys() and all(a[0][n][k] is b[0][n][k] for k in a[0][n]) for n in a[0])


def restore_lib():
    for c in LIB:
        want = PRISTINE[0][c.__name__]
        for k in list(vars(c)):
            if k not in want:
                type.__delattr__(c, k)
        for k, v in want.items():
            if vars(c).get(k, B._MISSING) is not v:
                type.__setattr__(c, k, v)
    ITerm2ImageMeta._native_anim_max_bytes = PRISTINE[1]
    return int(same(lib_dicts(), PRISTINE))


def run_case(case):
    root, s = case["root"], case["s"]
    Root = {"kitty": KittyImage, "iterm2": ITerm2Image}[root]
    clean_start = int(same(lib_dicts(), PRISTINE))
    restore_lib()
    saved_nv = tests.terminal_name_version
    saved_query = _kitty.query_terminal
    queries = []
    try:
        classes = [Root]
        for c, p in enumerate(case["par"]):
            if c:
                classes.append(type(classes[p])(f"C{c}", (classes[p],), {}))
        # instances that exist from the start (made while the test-suite's preset is in place)
        insts = [classes[c](B.IMG, width=2, height=2) for c in case["icls"]]
        # ---- a fresh process: nothing recorded about support anywhere
        type.__delattr__(GraphicsImage, "_supported")
        assert Root._supported is None
        # ---- the terminal
        nv, reply = IDENTS[case["ident"]]
        tests.terminal_name_version = nv

        def query(request, more, timeout=None):
            queries.append(1)
            return reply

        _kitty.query_terminal = query
        others = [x for x in B.SETTINGS[root] if x != s]

        def snap_others():
            return [B.read(x, o) for x in others for o in classes + insts]

        def confirm(inst, val):
            """the framing of an actual render agrees with the render method read"""
            if s != "rm" or val < 0:
                return True
            return B.framing(str(inst), root) == (0 if val == 0 else 1)

        before = snap_others()
        rows, confirm_bad, others_bad = [], [], []
        for n, o in enumerate(case["ops"]):
            a, b = 9, -1
            if o["op"] == "det":
                cls = classes[o["t"]]
                if o.get("fresh"):
                    for k in cls.__mro__:
                        if "_supported" in vars(k):
                            type.__delattr__(k, "_supported")
                        if k is Root:
                            break
                a = int(bool(cls.is_supported()))
            elif o["op"] == "new":
                try:
                    inst = classes[o["t"]](B.IMG, width=2, height=2)
                except StyleError:
                    a = 0
                else:
                    a, b = 1, B.read(s, inst)
                    if not confirm(inst, b):
                        confirm_bad.append([n, "new"])
            else:
                target = (classes if o["op"] in ("cs", "cu") else insts)[o["t"]]
                val = B.decode(s, o["v"], o.get("pres", 0)) if o["op"] in ("cs", "is") else o.get("pres", 0) % 2
                a = int(B.apply(s, o["op"], target, val) != 0)
            vals = [B.read(s, c) for c in classes] + [B.read(s, i) for i in insts]
            rows.append([a, b] + vals)
            if o["op"] in ("det", "new") or n == len(case["ops"]) - 1:
                for j, inst in enumerate(insts):
                    if not confirm(inst, vals[len(classes) + j]):
                        confirm_bad.append([n, j])
                if snap_others() != before:
                    others_bad.append(n)
                    before = snap_others()
        return {"rows": rows, "confirm_bad": confirm_bad, "others": others_bad, "queries": len(queries),
                "recorded": [str(getattr(Root, "_TERM", "")), str(getattr(Root, "_TERM_VERSION", ""))],
                "clean_start": clean_start}
    except Exception as e:  # noqa: BLE001
        import traceback
        return {"error": f"{type(e).__name__}: {e}", "tb": traceback.format_exc()[-600:], "clean_start": clean_start}
    finally:
        _kitty.query_terminal = saved_query
        tests.terminal_name_version = saved_nv
        RESTORED.append(restore_lib())


RESTORED = []


def run_checked(case):
    del RESTORED[:]
    r = run_case(case)
    r["restored"] = int(RESTORED == [1])
    return r


if __name__ == "__main__":
    implenv.write_results([run_checked(c) for c in implenv.read_cases()])
