"""C06 implementation driver: real draw() — Renderable.draw (new API) on an instrumented
multi-frame renderable, BaseImage.draw (old API) on Block/Kitty/ITerm2 images built from
in-memory multi-frame GIFs — with sys.stdout connected to a pty slave (isatty() holds: the
cursor is hidden/shown, echo is switched off) or to a StringIO; `sleep` patched to zero.
Returns the bytes that arrived on the master side, the frames' own render outputs and
whether the documented size error was raised.

Round 4 additions (optional case keys; absent = the behaviour above):

"real_term": {"window": [W, H], "env": {"COLUMNS": str | null, "LINES": str | null}}
    the library's REAL `get_terminal_size()` runs (the function of $VERIF_REPO's utils.py, not a
    stub, bound in every module that imported it by name); the active terminal (`_tty_fd`) is a
    pty whose window size is set to W x H with TIOCSWINSZ, the process environment holds (or does
    not hold) COLUMNS / LINES, and -- tty cases -- standard output (and sys.__stdout__) is that
    same pty.  Result key "seen": what get_terminal_size() returned in that environment.
"interrupt": {"sel": int, "frac": [num, den] | absent, "j": int | absent, "between": bool}
    an animation ENDED BY Ctrl-C: a fault-free run first records the non-empty stream writes made
    inside the animation (Renderable._animate_ / BaseImage._display_animated, clean-up excluded);
    then, in a second run on a fresh object, write number k = sel mod (number of such writes)
    delivers its first j characters (frac of its length, or the explicit j) and raises
    KeyboardInterrupt ("between": the (sel mod number-of-sleeps)-th sleep() raises it instead:
    an interrupt between two frames).  Result key "cut": {"k", "j", "len", "part" (the delivered
    part of the cut write), "nwrites", "delivered" (characters that reached the terminal before the
    exception), "between", "sleep"}.
"""
import importlib.util
import io
import os
import pty
import re
import signal
import struct
import sys
import fcntl
import termios
import threading
import traceback
import warnings

import implenv
from implenv import tests
import impl_render

import term_image
from PIL import Image
from term_image.exceptions import InvalidSizeError
from term_image.geometry import Size
from term_image.image import BlockImage, ITerm2Image, KittyImage
from term_image.image import common as _common
from term_image.image import kitty as _kitty
from term_image.padding import AlignedPadding, ExactPadding, HAlign, VAlign
from term_image.render import _iterator as _itmod
from term_image.renderable import Frame, Renderable, RenderArgs
from term_image.renderable import _renderable as _rmod
from term_image.renderable import RenderSizeOutofRangeError

FILLS = {"space": " ", "star": "*", "empty": ""}
REAL_STDOUT = sys.stdout

# `_stdout_write = sys.stdout.write` is bound at import time; follow the current sys.stdout
_kitty._stdout_write = lambda s: sys.stdout.write(s)


class CutOut:
    """sys.stdout wrapper: counts the non-empty writes made while an animation is running
    (between enter() and leave()); when armed, write number k delivers j characters and
    raises KeyboardInterrupt."""

    encoding = "utf-8"

    def __init__(self, inner, k=None, j=None):
        self.inner, self.k, self.j = inner, k, j
        self.in_anim = False
        self.writes = []        # the animation's non-empty writes
        self.total = 0          # characters delivered so far (all writes)
        self.delivered = None   # ... at the moment of the exception
        self.armed = k is not None

    def enter(self):
        self.in_anim = True

    def leave(self):
        self.in_anim = False

    def write(self, s):
        if s and self.in_anim:
            idx = len(self.writes)
            self.writes.append(s)
            if self.armed and idx == self.k:
                self.armed = False
                j = max(0, min(self.j, len(s)))
                self.inner.write(s[:j])
                self.inner.flush()
                self.total += j
                self.delivered = self.total
                raise KeyboardInterrupt
        self.total += len(s)
        return self.inner.write(s)

    def flush(self):
        return self.inner.flush()

    def isatty(self):
        return self.inner.isatty()

    def fileno(self):
        return self.inner.fileno()


class Sleeper:
    """sleep() replacement: the n-th call (1-based) raises KeyboardInterrupt when armed."""

    def __init__(self):
        self.calls, self.n = 0, None

    def __call__(self, seconds):
        self.calls += 1
        if self.n is not None and self.calls == self.n:
            self.n = None
            out = sys.stdout
            if isinstance(out, CutOut):
                out.delivered = out.total
            raise KeyboardInterrupt


SLEEPER = Sleeper()
WRAP = None      # factory of the CutOut for the current run (None: plain stream)
LAST_OUT = None  # the CutOut of the last run


def capture(fn, tty, pair=None):
    """Run fn() with sys.stdout connected to a pty slave (tty) or a StringIO; return
    (text written, exception or None).  pair: an existing (master, slave) pty to use."""
    global LAST_OUT
    saved = sys.stdout
    exc = None
    if not tty:
        buf = io.StringIO()
        sys.stdout = LAST_OUT = WRAP(buf) if WRAP else buf
        try:
            fn()
        except BaseException as e:  # noqa: B902
            exc = e
        finally:
            sys.stdout = saved
        return buf.getvalue(), exc
    master, slave = pair or pty.openpty()
    attrs = termios.tcgetattr(slave)
    attrs[1] &= ~termios.OPOST  # no NL -> CRNL translation: the master sees what was written
    termios.tcsetattr(slave, termios.TCSANOW, attrs)
    chunks = []
    sentinel = b"\x00\x00<end-of-capture>\x00\x00"
    seen = threading.Event()

    def reader():
        while True:
            try:
                data = os.read(master, 1 << 16)
            except OSError:
                break
            if not data:
                break
            chunks.append(data)
            if sentinel in b"".join(chunks[-3:]):
                seen.set()
                break

    th = threading.Thread(target=reader, daemon=True)
    th.start()
    out = os.fdopen(slave, "w", encoding="utf-8", newline="")
    sys.stdout = LAST_OUT = WRAP(out) if WRAP else out
    saved_dunder = sys.__stdout__
    if pair:  # the process "runs on" that terminal
        sys.__stdout__ = out
    try:
        fn()
    except BaseException as e:  # noqa: B902
        exc = e
    finally:
        sys.stdout = saved
        sys.__stdout__ = saved_dunder
        try:
            out.flush()
            # the slave is closed only after the master side has received everything: closing it
            # while data is still in flight can lose the tail under heavy machine load
            os.write(slave, sentinel)
            termios.tcdrain(slave)
        except Exception:
            pass
        seen.wait(120)
        out.close()  # closes the slave: the reader gets EIO / EOF
    th.join(120)
    os.close(master)
    data = b"".join(chunks)
    if sentinel in data:
        data = data[:data.index(sentinel)]
    return data.decode("utf-8"), exc


_rmod.sleep = SLEEPER
_common.time.sleep = SLEEPER

# the animation's extent, for CutOut: entry / exit of the two animation loops
_orig_animate = Renderable._animate_
_orig_display_animated = _common.BaseImage._display_animated


def _extent(orig):
    def wrapper(self, *args, **kwargs):
        out = sys.stdout
        if not isinstance(out, CutOut):
            return orig(self, *args, **kwargs)
        out.enter()
        try:
            return orig(self, *args, **kwargs)
        finally:
            out.leave()
    return wrapper


Renderable._animate_ = _extent(_orig_animate)
_common.BaseImage._display_animated = _extent(_orig_display_animated)

# the library's own get_terminal_size(): implenv's `tests` package replaced it by the 80x30 stub
# before the other modules imported it by name; a private copy of $VERIF_REPO's utils.py is
# executed (its relative imports resolve against the loaded package) to get the function back
_REAL_UTILS = None


def real_utils():
    global _REAL_UTILS
    if _REAL_UTILS is None:
        spec = importlib.util.spec_from_file_location("term_image._utils_for_c06", term_image.utils.__file__)
        mod = importlib.util.module_from_spec(spec)
        mod.__package__ = "term_image"
        with warnings.catch_warnings():
            warnings.simplefilter("ignore")
            spec.loader.exec_module(mod)
        _REAL_UTILS = mod
    return _REAL_UTILS


def interruptible(case, once):
    """once() -> (object, text, exception).  Without "interrupt": one run.  With it: a fault-free
    run to record the animation's writes, then the run that is cut.  Returns once()'s triple of
    the decisive run + (frames-side object of the fault-free run or None, cut description or None)."""
    global WRAP
    SLEEPER.calls, SLEEPER.n = 0, None
    it = case.get("interrupt")
    if not it:
        return once() + (None, None)
    WRAP = lambda inner: CutOut(inner)  # noqa: E731
    try:
        first = once()
    finally:
        WRAP = None
    writes = list(LAST_OUT.writes)
    nsleep = SLEEPER.calls
    if writes and re.fullmatch(r"\x1b\[\d+B", writes[-1]):
        writes.pop()  # the trailing cursor_down is clean-up
    if first[2] is not None or not writes:
        return first + (None, None)  # rejected / not an animation: nothing to interrupt
    sel = int(it.get("sel", 0))
    cut = {"nwrites": len(writes), "nsleep": nsleep, "between": False}
    if it.get("between") and nsleep:
        n = sel % nsleep + 1
        cut.update(between=True, sleep=n)
        WRAP = lambda inner: CutOut(inner)  # noqa: E731
        SLEEPER.calls, SLEEPER.n = 0, n
    else:
        k = sel % len(writes)
        text = writes[k]
        if "j" in it:
            j = max(0, min(int(it["j"]), len(text)))
        else:
            num, den = it.get("frac", [1, 2])
            j = (len(text) * num) // den
        cut.update(k=k, j=j, len=len(text), part=text[:j])
        WRAP = lambda inner: CutOut(inner, k, j)  # noqa: E731
        SLEEPER.calls, SLEEPER.n = 0, None
    try:
        second = once()
    finally:
        WRAP = None
        SLEEPER.n = None
    cut["delivered"] = LAST_OUT.delivered
    return second + (first[0], cut)


# ------------------------------------------------------------------ new API


def make_frame(kind, k, w, h, seed):
    lines = []
    for i in range(h):
        if kind == "text":
            ch = "abcdefghijklmnopqrstuvwxyz"[(seed + 3 * k + i) % 26]
            lines.append(ch * w)
        elif kind == "block":
            r, g, b = (seed * 7 + 40 * k + 5 * i) % 256, (seed * 3 + 17 * k) % 256, (90 * k + 11 * i) % 256
            lines.append(f"\x1b[38;2;{r};{g};{b}m\x1b[48;2;{b};{r};{g}m" + "▀" * w + "\x1b[0m")
        else:  # gfx: erase + skip, like the fills of the graphics-based styles
            lines.append(f"\x1b[{w}X\x1b[{w}C")
    return "\n".join(lines)


class Anim(Renderable):
    def __init__(self, frames, size, clear):
        super().__init__(len(frames), 1)
        self._frames, self._sz, self._clear = frames, size, clear
        self.rendered = []

    def _get_render_size_(self):
        return Size(*self._sz)

    def _render_(self, render_data, render_args):
        data = render_data[Renderable]
        n = data.frame_offset
        self.rendered.append(n)
        return Frame(n, 1, Size(*self._sz), self._frames[n])

    def _clear_frame_(self, render_data, render_args, cursor_x, output):
        if self._clear:
            output.write(self._clear)

    def _handle_interrupted_draw_(self, render_data, render_args, output):
        # what a text-based renderable has to do: end a cut control sequence, reset attributes
        output.write("\x1b[0m")


def run_new(case, mkpair=None):
    w, h = case["size"]
    n = case["frames"]
    frames = [make_frame(case["frame_kind"], k, w, h, case.get("seed", 0)) for k in range(n)]
    clear = f"\x1b[{w}X" if case.get("clear") == "ech" else ""
    p = case["padding"]
    fill = FILLS[case.get("fill", "space")]
    if p["kind"] == "aligned":
        pad = AlignedPadding(p["W"], p["H"], HAlign(p["ha"]), VAlign(p["va"]), fill)
    else:
        pad = ExactPadding(p["l"], p["t"], p["r"], p["b"], fill)
    kw = dict(animate=case.get("animate", True), check_size=case.get("check_size", True),
              allow_scroll=case.get("allow_scroll", False), hide_cursor=case.get("hide_cursor", True))
    kw["loops"] = case.get("loops", 1)  # never the library's default (infinite)
    if "cache" in case:
        kw["cache"] = case["cache"]

    def once():
        r = Anim(frames, (w, h), clear)
        out, exc = capture(lambda: r.draw(None, pad, **kw), case.get("tty", True), mkpair and mkpair())
        return r, out, exc

    r, out, exc, _, cut = interruptible(case, once)
    res = {"out": out, "frames": frames, "clear": clear, "size": [w, h], "rendered": r.rendered}
    if cut:
        res["cut"] = cut
    if exc is None:
        res["raised"] = 0
    elif isinstance(exc, RenderSizeOutofRangeError):
        res["raised"] = 1
        res["message"] = str(exc)
    else:
        res["error"] = f"{type(exc).__name__}: {exc}"
    return res


# ------------------------------------------------------------------ old API


def make_gif(spec):
    n, (pw, ph), seed = spec["n_frames"], spec["size"], spec.get("seed", 0)
    ims = []
    for k in range(n):
        im = Image.new("RGB", (pw, ph))
        px = im.load()
        for y in range(ph):
            for x in range(pw):
                px[x, y] = ((seed * 13 + 60 * k + 9 * x) % 256, (40 * k + 23 * y + seed) % 256, (200 - 45 * k + x * y) % 256)
        ims.append(im)
    buf = io.BytesIO()
    if n > 1:
        ims[0].save(buf, "GIF", save_all=True, append_images=ims[1:], duration=1, loop=0)
    else:
        ims[0].save(buf, "PNG")
    buf.seek(0)
    return Image.open(buf)


class OldRun:
    """one old-API image object with its recorded frame renders"""

    def __init__(self, case):
        style = case["style"]
        cls = {"block": BlockImage, "kitty": KittyImage, "iterm2": ITerm2Image}[style]
        self.img = img = make_gif(case["img"])
        cells = case.get("cells")
        self.image = image = cls(img, width=cells[0], height=cells[1]) if cells else cls(img)
        if case.get("force_size"):  # a size that was never validated (the test-suite's way)
            image._size = tuple(case["force_size"])
        self.frames, self.sizes = frames, sizes = [], []
        orig = image._render_image

        def wrapped(*a, **k):
            out = orig(*a, **k)
            frames.append(out)
            sizes.append(list(image.rendered_size))
            return out

        image._render_image = wrapped


def run_old(case, mkpair=None):
    tests.set_cell_size(tuple(case.get("cell_size", (10, 20))))
    KittyImage._supported = ITerm2Image._supported = True
    KittyImage._KITTY_VERSION = tuple(case.get("kitty_version", (0, 30, 0)))
    ITerm2Image._TERM = case.get("term", "")
    H_ALIGN = [["<", "left"], ["|", "center", None], [">", "right"]]
    V_ALIGN = [["^", "top"], ["-", "middle", None], ["_", "bottom"]]
    pres = case.get("pres", 0)
    ha = H_ALIGN[case["ha"]][pres % len(H_ALIGN[case["ha"]])]
    va = V_ALIGN[case["va"]][pres % len(V_ALIGN[case["va"]])]
    kw = dict(animate=case.get("animate", True), scroll=case.get("scroll", False),
              check_size=case.get("check_size", True))
    kw["repeat"] = case.get("repeat", 1)  # never the library's default (infinite)
    if "cached" in case:
        kw["cached"] = case["cached"]
    kw.update(case.get("args", {}))
    W, Hh = case["pad"]

    def once():
        run = OldRun(case)
        out, exc = capture(lambda: run.image.draw(ha, W, va, Hh, case.get("alpha", None), **kw),
                           case.get("tty", True), mkpair and mkpair())
        return run, out, exc

    try:
        run, out, exc, full, cut = interruptible(case, once)
        image, img = run.image, run.img
        # an interrupted run renders only the frames up to the cut: the frame list is that of
        # the fault-free run on an identical object
        res = {"out": out, "frames": (full or run).frames, "sizes": run.sizes, "n_frames": getattr(img, "n_frames", 1),
               "animated": bool(image.is_animated)}
        if cut:
            res["cut"] = cut
        probe = mkpair() if mkpair else None  # the terminal of the draw is closed by now
        try:
            res["size"] = list(image.rendered_size)
        except Exception:
            res["size"] = None
        finally:
            if probe:
                os.close(probe[0]), os.close(probe[1])
        if exc is None:
            res["raised"] = 0
        elif isinstance(exc, InvalidSizeError) or (isinstance(exc, ValueError) and ("pad_width" in str(exc) or "pad_height" in str(exc))):
            res["raised"] = 1
            res["message"] = f"{type(exc).__name__}: {exc}"
        else:
            res["error"] = f"{type(exc).__name__}: {exc} " + "".join(traceback.format_exception(exc))[-400:]
        return res
    finally:
        ITerm2Image._TERM = ""


def set_window(fd, w, h):
    fcntl.ioctl(fd, termios.TIOCSWINSZ, struct.pack("HHHH", h, w, 0, 0))


def run_case(case):
    mods = (_common, _rmod, term_image.utils, _itmod)
    saved = [m.get_terminal_size for m in mods]
    rt = case.get("real_term")
    saved_env = {k: os.environ.get(k) for k in ("COLUMNS", "LINES")}
    mkpair = None
    keep = []
    if rt:
        U = real_utils()
        W, H = rt["window"]
        for m in mods:
            m.get_terminal_size = U.get_terminal_size
        for k in ("COLUMNS", "LINES"):
            v = (rt.get("env") or {}).get(k)
            if v is None:
                os.environ.pop(k, None)
            else:
                os.environ[k] = str(v)

        def mkpair():
            master, slave = pty.openpty()
            set_window(slave, W, H)
            U._tty_fd = slave  # the active terminal
            return master, slave

        if not case.get("tty", True):
            # output redirected: the active terminal is still there
            keep = list(mkpair())
    else:
        tw, th = case.get("term_size", (80, 30))
        ts = os.terminal_size((tw, th))
        for m in mods:
            m.get_terminal_size = lambda: ts

    def on_alarm(signum, frame):
        raise TimeoutError("draw() did not return within 20 s")

    signal.signal(signal.SIGALRM, on_alarm)
    signal.alarm(20)
    try:
        seen = None
        if rt:
            if case.get("tty", True):
                probe = mkpair()
                try:
                    seen = list(_rmod.get_terminal_size())
                finally:
                    os.close(probe[0]), os.close(probe[1])
            else:
                seen = list(_rmod.get_terminal_size())
        res = run_new(case, mkpair) if case["api"] == "new" else run_old(case, mkpair)
        if seen is not None:
            res["seen"] = seen
        return res
    except Exception as e:
        return {"error": f"{type(e).__name__}: {e} {traceback.format_exc()[-400:]}"}
    finally:
        signal.alarm(0)
        for m, f in zip(mods, saved):
            m.get_terminal_size = f
        for k, v in saved_env.items():
            if v is None:
                os.environ.pop(k, None)
            else:
                os.environ[k] = v
        if rt:
            real_utils()._tty_fd = -1
        for fd in keep:
            try:
                os.close(fd)
            except OSError:
                pass


if __name__ == "__main__":
    cases = implenv.read_cases()
    results = [run_case(c) for c in cases]
    sys.stdout = REAL_STDOUT
    implenv.write_results(results)
