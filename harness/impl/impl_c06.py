"""C06 implementation driver: real draw() — Renderable.draw (new API) on an instrumented
multi-frame renderable, BaseImage.draw (old API) on Block/Kitty/ITerm2 images built from
in-memory multi-frame GIFs — with sys.stdout connected to a pty slave (isatty() holds: the
cursor is hidden/shown, echo is switched off) or to a StringIO; `sleep` patched to zero.
Returns the bytes that arrived on the master side, the frames' own render outputs and
whether the documented size error was raised."""
import io
import os
import pty
import signal
import sys
import termios
import threading
import traceback

import implenv
from implenv import tests
import impl_render

import term_image
from PIL import Image
from term_image.exceptions import InvalidSizeError
from term_image.geometry import Size
from term_image.image import BlockImage, ITerm2Image, KittyImage
from term_image.image import common as _common
from term_image.image import kitty as _kitty
from term_image.padding import AlignedPadding, ExactPadding, HAlign, VAlign
from term_image.render import _iterator as _itmod
from term_image.renderable import Frame, Renderable, RenderArgs
from term_image.renderable import _renderable as _rmod
from term_image.renderable import RenderSizeOutofRangeError

FILLS = {"space": " ", "star": "*", "empty": ""}
REAL_STDOUT = sys.stdout

_rmod.sleep = lambda s: None
_common.time.sleep = lambda s: None
# `_stdout_write = sys.stdout.write` is bound at import time; follow the current sys.stdout
_kitty._stdout_write = lambda s: sys.stdout.write(s)


def capture(fn, tty):
    """Run fn() with sys.stdout connected to a pty slave (tty) or a StringIO; return
    (text written, exception or None)."""
    saved = sys.stdout
    exc = None
    if not tty:
        buf = io.StringIO()
        sys.stdout = buf
        try:
            fn()
        except BaseException as e:  # noqa: B902
            exc = e
        finally:
            sys.stdout = saved
        return buf.getvalue(), exc
    master, slave = pty.openpty()
    attrs = termios.tcgetattr(slave)
    attrs[1] &= ~termios.OPOST  # no NL -> CRNL translation: the master sees what was written
    termios.tcsetattr(slave, termios.TCSANOW, attrs)
    chunks = []

    def reader():
        while True:
            try:
                data = os.read(master, 1 << 16)
            except OSError:
                break
            if not data:
                break
            chunks.append(data)

    th = threading.Thread(target=reader, daemon=True)
    th.start()
    out = os.fdopen(slave, "w", encoding="utf-8", newline="")
    sys.stdout = out
    try:
        fn()
    except BaseException as e:  # noqa: B902
        exc = e
    finally:
        sys.stdout = saved
        try:
            out.flush()
            termios.tcdrain(slave)
        except Exception:
            pass
        out.close()  # closes the slave: the reader gets EIO / EOF
    th.join(5)
    os.close(master)
    return b"".join(chunks).decode("utf-8"), exc


# ------------------------------------------------------------------ new API


def make_frame(kind, k, w, h, seed):
    lines = []
    for i in range(h):
        if kind == "text":
            ch = "abcdefghijklmnopqrstuvwxyz"[(seed + 3 * k + i) % 26]
            lines.append(ch * w)
        elif kind == "block":
            r, g, b = (seed * 7 + 40 * k + 5 * i) % 256, (seed * 3 + 17 * k) % 256, (90 * k + 11 * i) % 256
            lines.append(f"\x1b[38;2;{r};{g};{b}m\x1b[48;2;{b};{r};{g}m" + "▀" * w + "\x1b[0m")
        else:  # gfx: erase + skip, like the fills of the graphics-based styles
            lines.append(f"\x1b[{w}X\x1b[{w}C")
    return "\n".join(lines)


class Anim(Renderable):
    def __init__(self, frames, size, clear):
        super().__init__(len(frames), 1)
        self._frames, self._sz, self._clear = frames, size, clear
        self.rendered = []

    def _get_render_size_(self):
        return Size(*self._sz)

    def _render_(self, render_data, render_args):
        data = render_data[Renderable]
        n = data.frame_offset
        self.rendered.append(n)
        return Frame(n, 1, Size(*self._sz), self._frames[n])

    def _clear_frame_(self, render_data, render_args, cursor_x, output):
        if self._clear:
            output.write(self._clear)


def run_new(case):
    w, h = case["size"]
    n = case["frames"]
    frames = [make_frame(case["frame_kind"], k, w, h, case.get("seed", 0)) for k in range(n)]
    clear = f"\x1b[{w}X" if case.get("clear") == "ech" else ""
    r = Anim(frames, (w, h), clear)
    p = case["padding"]
    fill = FILLS[case.get("fill", "space")]
    if p["kind"] == "aligned":
        pad = AlignedPadding(p["W"], p["H"], HAlign(p["ha"]), VAlign(p["va"]), fill)
    else:
        pad = ExactPadding(p["l"], p["t"], p["r"], p["b"], fill)
    kw = dict(animate=case.get("animate", True), check_size=case.get("check_size", True),
              allow_scroll=case.get("allow_scroll", False), hide_cursor=case.get("hide_cursor", True))
    kw["loops"] = case.get("loops", 1)  # never the library's default (infinite)
    if "cache" in case:
        kw["cache"] = case["cache"]
    out, exc = capture(lambda: r.draw(None, pad, **kw), case.get("tty", True))
    res = {"out": out, "frames": frames, "clear": clear, "size": [w, h], "rendered": r.rendered}
    if exc is None:
        res["raised"] = 0
    elif isinstance(exc, RenderSizeOutofRangeError):
        res["raised"] = 1
        res["message"] = str(exc)
    else:
        res["error"] = f"{type(exc).__name__}: {exc}"
    return res


# ------------------------------------------------------------------ old API


def make_gif(spec):
    n, (pw, ph), seed = spec["n_frames"], spec["size"], spec.get("seed", 0)
    ims = []
    for k in range(n):
        im = Image.new("RGB", (pw, ph))
        px = im.load()
        for y in range(ph):
            for x in range(pw):
                px[x, y] = ((seed * 13 + 60 * k + 9 * x) % 256, (40 * k + 23 * y + seed) % 256, (200 - 45 * k + x * y) % 256)
        ims.append(im)
    buf = io.BytesIO()
    if n > 1:
        ims[0].save(buf, "GIF", save_all=True, append_images=ims[1:], duration=1, loop=0)
    else:
        ims[0].save(buf, "PNG")
    buf.seek(0)
    return Image.open(buf)


def run_old(case):
    style = case["style"]
    cls = {"block": BlockImage, "kitty": KittyImage, "iterm2": ITerm2Image}[style]
    tests.set_cell_size(tuple(case.get("cell_size", (10, 20))))
    KittyImage._supported = ITerm2Image._supported = True
    KittyImage._KITTY_VERSION = tuple(case.get("kitty_version", (0, 30, 0)))
    ITerm2Image._TERM = case.get("term", "")
    img = make_gif(case["img"])
    cells = case.get("cells")
    image = cls(img, width=cells[0], height=cells[1]) if cells else cls(img)
    if case.get("force_size"):  # a size that was never validated (the test-suite's way)
        image._size = tuple(case["force_size"])
    frames, sizes = [], []
    orig = image._render_image

    def wrapped(*a, **k):
        out = orig(*a, **k)
        frames.append(out)
        sizes.append(list(image.rendered_size))
        return out

    image._render_image = wrapped
    H_ALIGN = [["<", "left"], ["|", "center", None], [">", "right"]]
    V_ALIGN = [["^", "top"], ["-", "middle", None], ["_", "bottom"]]
    pres = case.get("pres", 0)
    ha = H_ALIGN[case["ha"]][pres % len(H_ALIGN[case["ha"]])]
    va = V_ALIGN[case["va"]][pres % len(V_ALIGN[case["va"]])]
    kw = dict(animate=case.get("animate", True), scroll=case.get("scroll", False),
              check_size=case.get("check_size", True))
    kw["repeat"] = case.get("repeat", 1)  # never the library's default (infinite)
    if "cached" in case:
        kw["cached"] = case["cached"]
    kw.update(case.get("args", {}))
    W, Hh = case["pad"]
    try:
        out, exc = capture(lambda: image.draw(ha, W, va, Hh, case.get("alpha", None), **kw), case.get("tty", True))
        res = {"out": out, "frames": frames, "sizes": sizes, "n_frames": getattr(img, "n_frames", 1),
               "animated": bool(image.is_animated)}
        try:
            res["size"] = list(image.rendered_size)
        except Exception:
            res["size"] = None
        if exc is None:
            res["raised"] = 0
        elif isinstance(exc, InvalidSizeError) or (isinstance(exc, ValueError) and ("pad_width" in str(exc) or "pad_height" in str(exc))):
            res["raised"] = 1
            res["message"] = f"{type(exc).__name__}: {exc}"
        else:
            res["error"] = f"{type(exc).__name__}: {exc} " + "".join(traceback.format_exception(exc))[-400:]
        return res
    finally:
        ITerm2Image._TERM = ""


def run_case(case):
    tw, th = case.get("term_size", (80, 30))
    ts = os.terminal_size((tw, th))
    mods = (_common, _rmod, term_image.utils, _itmod)
    saved = [m.get_terminal_size for m in mods]
    for m in mods:
        m.get_terminal_size = lambda: ts
    def on_alarm(signum, frame):
        raise TimeoutError("draw() did not return within 20 s")

    signal.signal(signal.SIGALRM, on_alarm)
    signal.alarm(20)
    try:
        return run_new(case) if case["api"] == "new" else run_old(case)
    except Exception as e:
        return {"error": f"{type(e).__name__}: {e} {traceback.format_exc()[-400:]}"}
    finally:
        signal.alarm(0)
        for m, f in zip(mods, saved):
            m.get_terminal_size = f


if __name__ == "__main__":
    cases = implenv.read_cases()
    results = [run_case(c) for c in cases]
    sys.stdout = REAL_STDOUT
    implenv.write_results(results)
