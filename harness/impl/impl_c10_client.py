"""C10 implementation driver, third part: CLIENT code that runs inside RenderIterator.__next__()

  client : one history (next / seek / set_render_size / set_padding / close, then drop) on a real
           RenderIterator - made by `RenderIterator(...)` ("init"), `_from_render_data_(finalize=False)`
           ("frd_keep") or `_from_render_data_(finalize=True)` ("frd_give") - over a small renderable `CR`
           and a client `Padding` subclass `CP`.  All client code the iterator enters is instrumented:
             render : `CR._render_`
             pad    : `CP.pad`               (public method; the base implementation calls `ged`)
             gps    : `CP.get_padded_size`   (public method; the base implementation calls `ged`)
             ged    : `CP._get_exact_dimensions_`  (the extension hook)
           "faults": {method: {k: what}} makes the k-th call (0-based, counted from the end of the
           constructor, over all CP objects of the case) of that method misbehave:
             ["raise", cls]  raises an exception of class EXC[cls] (marked as injected),
             ["stop"]        raises StopIteration,
             ["garbage", g]  (render only) returns GARBAGE[g] (None / a tuple / an int / a str) instead of a Frame.
           "enumerate": true -> a counting run without faults, then one variant per (method, k, what) FOR ALL k
           below the number of calls of that method in the counting run.
  Reported (integers / enums only): the log of TOP-LEVEL client calls made on behalf of the iterator
  (kind, padding object, result) - the oracle the Coq model is run with -; per operation the outcome, the
  entries into `_finalize_render_data_` of the iterator's render data so far, `RenderData.finalized`,
  `_closed`; after the iterator was dropped and collected and the owner (the driver, for finalize=False;
  a second, idempotent `finalize()` otherwise) finalized the data: the entries; the number of client
  calls entered while the data was finalized.
"""
import implenv  # noqa: F401

import gc
import sys

from term_image.geometry import Size
from term_image.padding import Padding
from term_image.render import RenderIterator
from term_image.renderable import DataNamespace, Frame, FrameCount, Renderable, Seek

EXC = [RuntimeError, AttributeError, KeyError, ValueError, TypeError, IndexError, OSError]
GARBAGE = [None, (1, 2, 3, 4), 7, "frame"]

FIN = {}
SERIAL = [0]


def enc(size):
    return size[0] * 10 + size[1]


class Env:
    """what is shared by the instrumented objects of one case"""

    def __init__(self, faults):
        self.faults = {m: {int(k): v for k, v in d.items()} for m, d in (faults or {}).items()}
        self.counts = {"render": 0, "pad": 0, "gps": 0, "ged": 0}
        self.armed = False
        self.depth = 0  # inside a top-level padding call
        self.script = []
        self.data = None
        self.bad_use = 0

    def enter(self, method):
        """-> the fault for this call, if any"""
        if not self.armed:
            return None
        if self.data is not None and self.data.finalized:
            self.bad_use += 1
        k = self.counts[method]
        self.counts[method] = k + 1
        return self.faults.get(method, {}).get(k)

    def misbehave(self, what, method):
        if what[0] == "raise":
            e = EXC[what[1]](f"injected ({method})")
            e.injected = 10 + what[1]
            raise e
        if what[0] == "stop":
            raise StopIteration()
        raise AssertionError(what)


def res_of(exc):
    if isinstance(exc, StopIteration):
        return ["stop"]
    return ["raise", getattr(exc, "injected", 98)]


class CP(Padding):
    __slots__ = ("env", "ident", "dims")

    def __init__(self, env, ident, dims):
        super().__init__(" ")
        Padding.__setattr__(self, "env", env)
        Padding.__setattr__(self, "ident", ident)
        Padding.__setattr__(self, "dims", tuple(dims))

    def _get_exact_dimensions_(self, render_size):
        what = self.env.enter("ged")
        if what:
            self.env.misbehave(what, "_get_exact_dimensions_")
        return self.dims

    def _top(self, method, kind, call):
        env = self.env
        what = env.enter(method)
        top = env.armed and env.depth == 0
        env.depth += 1
        try:
            if what:
                env.misbehave(what, method)
            v = call()
        except Exception as e:
            if top:
                env.script.append([kind, self.ident, res_of(e)])
            raise
        finally:
            env.depth -= 1
        if top:
            env.script.append([kind, self.ident, ["val", enc(v) if kind == 2 else 0]])
        return v

    def pad(self, render, render_size):
        return self._top("pad", 1, lambda: Padding.pad(self, render, render_size))

    def get_padded_size(self, render_size):
        return self._top("gps", 2, lambda: Padding.get_padded_size(self, render_size))


class CR(Renderable):
    def __init__(self, n, total, size, env):
        super().__init__(FrameCount.INDEFINITE if n is None else n, 1)
        self._total = total
        self._size = Size(*size)
        self._env = env
        self._made = 0

    def _get_render_size_(self):
        return self._size

    def _get_render_data_(self, *, iteration):
        data = super()._get_render_data_(iteration=iteration)
        SERIAL[0] += 1
        data[CR].serial = SERIAL[0]
        FIN[SERIAL[0]] = 0
        return data

    @classmethod
    def _finalize_render_data_(cls, render_data):
        FIN[render_data[CR].serial] += 1
        super()._finalize_render_data_(render_data)

    def _render_(self, render_data, render_args):
        env = self._env
        what = env.enter("render")
        data = render_data[Renderable]
        try:
            if what and what[0] != "garbage":
                env.misbehave(what, "_render_")
            if self.frame_count is FrameCount.INDEFINITE and self._made >= self._total:
                raise StopIteration()
        except Exception as e:
            env.script.append([0, 0, res_of(e)])
            raise
        self._made += 1
        if what:
            env.script.append([0, 0, ["garbage"]])
            return GARBAGE[what[1]]
        w, h = data.size
        env.script.append([0, 0, ["val", enc(data.size)]])
        return Frame(data.frame_offset, 1, data.size, "\n".join(["x" * w] * h))


class CRData(DataNamespace, render_cls=CR):
    serial: int


def outcome(fn, raw_size=None):
    try:
        v = fn()
    except StopIteration:
        # out of next(): the iterator stopped; out of a control operation: the client's exception as is
        return ["S"] if raw_size is not None else ["E", "client", 0]
    except Exception as e:  # noqa: BLE001
        name = type(e).__name__
        if getattr(e, "injected", None) is not None:
            return ["E", "client", e.injected]
        if name == "FinalizedIteratorError":
            return ["E", "finalized", 0]
        if name == "StopDefiniteIterationError":
            return ["E", "stopdef", 0]
        if name == "RuntimeError" and isinstance(e.__cause__, StopIteration):
            return ["E", "genstop", 0]
        if name == "AttributeError":
            return ["E", "attr", 0]
        if name == "ValueError":
            return ["E", "value", 0]
        return ["E", "other", 0]
    if isinstance(v, Frame):
        return ["F", int(raw_size is not None and enc(v.render_size) != raw_size())]
    return ["K"]


def run_one(case):
    FIN.clear()
    env = Env(case.get("faults"))
    r = CR(case["n"], case.get("total", 3), case["size"], env)
    pad0 = CP(env, 0, case["dims"])
    kind = case.get("kind", "init")
    own = None
    if kind == "init":
        it = RenderIterator(r, None, pad0, 1, False)
        data = it._render_data
    else:
        own = data = r._get_render_data_(iteration=True)
        it = RenderIterator._from_render_data_(r, own, None, pad0, 1, False,
                                                finalize=(kind == "frd_give"))
    serial = data[CR].serial
    env.data = data
    start = [0, enc(it._renderable_data.size), enc(it._padded_size)]
    env.armed = True
    pads = 0
    obs = []

    def last_raw():
        return next((x[2][1] for x in reversed(env.script) if x[0] == 0 and x[2][0] == "val"), -1)

    def step(o):
        nonlocal it, pads
        if o[0] == "next":
            return outcome(lambda: next(it), last_raw)
        if o[0] == "seek":
            return outcome(lambda: it.seek(o[1], Seek.START))
        if o[0] == "setsize":
            return outcome(lambda: it.set_render_size(Size(*o[1])))
        if o[0] == "setpad":
            pads += 1
            p = CP(env, pads, o[1])
            return outcome(lambda: it.set_padding(p))
        if o[0] == "close":
            return outcome(lambda: it.close())
        if o[0] == "drop":
            it = None
            gc.collect()
            return ["K"], 1  # a collected iterator counts as closed
        raise AssertionError(o)

    for o in case["ops"]:
        x = step(o)
        closed = None
        if isinstance(x, tuple):
            x, closed = x
        obs.append([x, FIN[serial], int(data.finalized), int(it._closed) if closed is None else closed])
    it = None
    gc.collect()
    data.finalize()  # the owner's own (finalize=False) / once more (idempotent)
    fin_end = FIN[serial]
    env.armed = False
    res = {"start": start, "script": env.script, "obs": obs, "fin_end": fin_end, "bad_use": env.bad_use,
           "counts": dict(env.counts)}
    env.data = None
    del data, own
    gc.collect()
    return res


def run_case(case):
    if not case.get("enumerate"):
        return [[case, run_one(case)]]
    base = {k: v for k, v in case.items() if k != "enumerate"}
    base["faults"] = {}
    r0 = run_one(base)
    out = [[base, r0]]
    salt = case.get("salt", 0)
    j = 0
    for method in ("render", "pad", "gps", "ged"):
        for k in range(r0["counts"][method]):
            whats = [["raise", (salt + j) % len(EXC)]]
            if method == "render":
                whats.append(["garbage", (salt + j) % len(GARBAGE)])
                if (salt + j) % 3 == 0:
                    whats.append(["stop"])
            elif (salt + j) % 4 == 0:
                whats.append(["stop"])
            j += 1
            for w in whats:
                v = dict(base, faults={method: {str(k): w}})
                out.append([v, run_one(v)])
    return out


if __name__ == "__main__":
    gc.collect()
    gc.freeze()
    implenv.write_results([run_case(c) for c in implenv.read_cases()])
