"""C03 implementation driver: renders real images with KittyImage / ITerm2Image through
format() / str() (blend=False through the same _renderer entry the animation code
uses), PARSES the output (escape sequences, control keys, base64, zlib, PNG/JPEG through
Pillow) and compares the decoded pixels with what Pillow gives for the same conversion
and BOX resize of a freshly opened copy of the source.  Also drives
Transmission.get_chunks directly (unit cases: any payload length, any chunk size).

Round 4: (a) the method SET on the image or its class and the per-render OVERRIDE are two
independent inputs (`set_method` / `set_level` / `override`); (b) the terminal environment
as seen by the library (get_cell_size / get_terminal_size / get_cell_ratio under every
name a term_image module holds them) is wrapped: every read is counted and recorded, and with
`envchg = {"at": n, "cell": .., "term": .., "ratio": ..}` the first n reads (in program
order, all three functions together) see the old environment and every later read the new
one — a font zoom / window resize landing between two reads of ONE render.  `"at": "each"`
first counts the reads N of the unchanged run and then returns one result per position
n = 1 .. N-1 (plus the unchanged run).  The rendered size the render was made for is
pinned at the entry of _render_image (a dynamic size is fixed by _renderer at that point).

Round 4 (b): (c) HISTORIES of an animated source: `ops` is a list of
["seek", n] (image.seek) | ["pilseek", k] (the owner of the wrapped PIL image seeks it) |
["iter", k] (an ImageIterator(repeat=1) yields k+1 frames — or runs to exhaustion if there are
fewer — and is closed) | ["native"] (an iterm2 native-animation render: a PIL source without a
readable file is re-encoded with save(save_all=True), which moves it) | ["render"]; `pre` is
the frame the PIL image is on when the instance is made.  Every render is decoded and compared
with the pixels of frame image.tell() (read just before the render) of a FRESH copy of the
source; `fr` reports the history as executed, tell, the position of the shared PIL object and
the index of the source frame the payload actually carries.  (d) the payload of every command
as ONE base64 text: [length, characters from the first '=' to the end, is [A-Za-z0-9+/]*=*];
it is decoded only if that shape is well-formed (length % 4 == 0, at most 2 padding
characters, hence at the very end) and with validate=True.  (e) sources with
`file_size` = N: the file is EXACTLY N bytes (PNG / APNG: an uncompressed tEXt chunk of
filler), so that read-from-file and native-animation payloads sit just below / at / above a
power of two.

Round 6: (f) CONCURRENT renders of one instance: `conc` = {"threads": [per-thread overrides of
the render arguments (alpha, override, compress, mix, z, via ...)], "sched": schedule}.  The
instance is rendered by that many threads AT THE SAME TIME under a deterministic scheduler
(parksched.ParkSched; no sleeps): a render can be parked at the GATES it passes —
"data>" / "data<" (entry / exit of _get_render_data), "save>" / "save<" (entry / exit of
PIL.Image.Image.save: the encoding of the image or of one line), "read" / "truncate" / "tell" /
"getvalue" (the methods of the io.BytesIO objects the style module creates: raw pixel buffer, encode
buffer).  A schedule is a list of grants [thread, gate or "*" (any) or null (to its end), n]: the
thread runs until it passes such a gate for the n-th time.  "sched": "each" parks thread 0 after
EVERY gate event k of its render in turn (their number is counted on a solo render), lets thread 1
render completely, then thread 0 finishes; "sched": ["pairs", [[k, j], ...]] parks thread 0 after
event k, thread 1 after its event j, then both finish (0 first).  EVERY thread's output is decoded
and compared, on its own, with the pixels of a fresh copy of the source for ITS arguments.

Everything reported is an integer, a bool, a short string or a list of those."""
import implenv
from implenv import tests
import base64
import io
import os
import random
import re
import shutil
import sys
import tempfile
import threading
import warnings
import zlib

from PIL import Image

import parksched
from term_image.image import ITerm2Image, KittyImage, Size
from term_image.image.kitty import ControlData, Transmission

warnings.simplefilter("ignore")
TMP = tempfile.mkdtemp(prefix="c03-")
OPAQUE = {"1", "L", "RGB", "HSV", "CMYK"}
ESC = "\x1b"
TOKEN = re.compile(
    r"\x1b_G(?P<kctl>[^;\x1b]*);(?P<kpay>[^\x1b]*)\x1b\\"
    r"|\x1b\]1337;File=(?P<ihdr>[^:\x1b]*):(?P<ipay>[^\x1b]*)\x1b\\"
    r"|\x1b\[(?P<csip>[0-9;]*)(?P<csif>[A-Za-z])"
    r"|(?P<nl>\n)"
)


# --------------------------------------------------------------------- sources


def make_frame(mode, w, h, rnd, style):
    """Deterministic content.  style 0: noise, 1: horizontal gradient, 2: flat,
    3: noise with fully/partly transparent regions (alpha modes), 4: flat bands alternating
    with noise bands."""
    def chan(k):
        if style == 0 or style == 3:
            return rnd.randbytes(w * h)
        if style == 4:  # bands of flat rows alternating with bands of noise rows (strips of
            # very different compressibility inside one render)
            band = max(1, h // 4)
            return b"".join(bytes([(90 + 50 * k) % 256]) * w if (y // band) % 2 == 0 else rnd.randbytes(w)
                            for y in range(h))
        if style == 1:
            return bytes(((x * 255 // max(w - 1, 1)) + 37 * k) % 256 for _ in range(h) for x in range(w))
        return bytes([(90 + 50 * k) % 256]) * (w * h)

    if mode == "1":
        return Image.frombytes("L", (w, h), chan(0)).point(lambda v: 255 if v > 127 else 0).convert("1")
    if mode == "P":
        im = Image.frombytes("L", (w, h), chan(0)).convert("P")
        pal = list(random.Random(7).randbytes(768))
        im.putpalette(pal)
        if style == 3:
            im.info["transparency"] = 3
        return im
    bands = {"L": 1, "LA": 2, "RGB": 3, "RGBA": 4, "CMYK": 4, "HSV": 3}[mode]
    chans = [Image.frombytes("L", (w, h), chan(k)) for k in range(bands)]
    if mode in ("LA", "RGBA") and style != 3:
        # mostly opaque with some variation
        chans[-1] = chans[-1].point(lambda v: 255 if v > 60 else v * 4)
    return chans[0] if bands == 1 else Image.merge(mode, chans)


def build_source(src, idx):
    """Returns (kind-specific object to construct from, path or None, opener) where
    opener() gives a FRESH PIL image of the same source for the expected side."""
    if src["kind"] == "fixture":
        path = os.path.join(implenv.REPO, "tests", "images", src["name"])
        return path, (lambda: Image.open(path))
    rnd = random.Random(src["seed"])
    frames = [make_frame(src["mode"], src["w"], src["h"], rnd, src.get("style", 0)) for _ in range(src.get("frames", 1))]
    fmt = src.get("fmt")
    if fmt is None:
        assert len(frames) == 1
        data = frames[0]
        return None, (lambda: data.copy())
    path = os.path.join(TMP, f"s{idx}.{fmt.lower()}")
    kw = {}
    if len(frames) > 1:
        kw = dict(save_all=True, append_images=frames[1:], duration=100, loop=0)
        if fmt == "WEBP":
            kw["lossless"] = True
        if fmt == "PNG":
            from PIL.PngImagePlugin import PngInfo

            info = PngInfo()
            info.add_text("c03", "source")
            kw["pnginfo"] = info
    elif fmt == "WEBP":
        kw["lossless"] = True
    elif fmt == "JPEG":
        kw["quality"] = 90
        kw["comment"] = b"c03-source"  # a re-encoding can never be byte-identical to the source
    elif fmt == "PNG":
        from PIL.PngImagePlugin import PngInfo

        info = PngInfo()
        info.add_text("c03", "source")
        kw["pnginfo"] = info
    frames[0].save(path, fmt, **kw)
    want = src.get("file_size")
    if want:
        # exactly `want` bytes: a second, uncompressed tEXt chunk (12 bytes of chunk framing,
        # the keyword "fill", a NUL, then the filler)
        assert fmt == "PNG", "file_size is implemented for PNG / APNG sources"
        from PIL.PngImagePlugin import PngInfo

        k = want - os.path.getsize(path) - 17
        assert k >= 0, f"file_size {want} is below the size of the image itself"
        info = PngInfo()
        info.add_text("c03", "source")
        info.add_text("fill", "x" * k)
        kw["pnginfo"] = info
        frames[0].save(path, fmt, **kw)
        assert os.path.getsize(path) == want, (os.path.getsize(path), want)
    return path, (lambda: Image.open(path))


# -------------------------------------------------------------------- expected


def expected_image(fresh, seek, alpha, size, bg_hex):
    """The pixels the property demands: the source frame, converted (RGB when
    transparency is off or the mode has none, RGBA otherwise), resized with the BOX
    filter to the transmitted resolution, composited on the background colour if one
    was asked for."""
    im = fresh
    if getattr(im, "is_animated", False):
        im.seek(seek)
    else:
        im.load()
    if alpha is None or im.mode in OPAQUE:
        im = im if im.mode == "RGB" else im.convert("RGB")
        if im.size != size:
            im = im.resize(size, Image.Resampling.BOX)
        return im
    im = im if im.mode == "RGBA" else im.convert("RGBA")
    if im.size != size:
        im = im.resize(size, Image.Resampling.BOX)
    if isinstance(alpha, str):
        bg = Image.new("RGBA", im.size, bg_hex if alpha == "#" else alpha)
        bg.alpha_composite(im)
        return bg.convert("RGB")
    return im


def alpha_spec(alpha):
    if alpha is None:
        return "#"
    if isinstance(alpha, float):
        return "#" + repr(alpha)[1:]  # ".5"
    return "##" if alpha == "#" else alpha  # "#rrggbb"


# --------------------------------------------------------------------- parsing


def lex(out):
    toks, pos, ok = [], 0, True
    while pos < len(out):
        m = TOKEN.match(out, pos)
        if not m:
            ok = False
            break
        toks.append(m)
        pos = m.end()
    return toks, ok


def kval(v):
    if re.fullmatch(r"-?\d+", v):
        return ["i", int(v)]
    if len(v) == 1:
        return ["c", ord(v)]
    return ["x", 0]


def parse_kitty(out, rw, mix):
    toks, ok = lex(out)
    items, fill_ok = [], True
    pend = []  # CSI tokens of a fill being collected
    trans = []  # list of [keys(dict), payload parts]

    def flush_fill(nl):
        nonlocal fill_ok
        want = ([("X", str(rw))] if not mix else []) + [("C", str(rw))]
        if pend != want:
            fill_ok = False
        pend.clear()
        items.append(["nl"] if nl else ["fill"])

    for m in toks:
        if m.group("kctl") is not None:
            if pend:
                fill_ok = False
                pend.clear()
            ctl, pay = m.group("kctl"), m.group("kpay")
            if ctl == "a=d,d=C" and pay == "":
                items.append(["del"])
                continue
            kv = [p.split("=", 1) for p in ctl.split(",")] if ctl else []
            if any(len(p) != 2 for p in kv):
                ok = False
                continue
            mval = [v for k, v in kv if k == "m"]
            keys = [[k] + kval(v) for k, v in kv if k != "m"]
            mm = int(mval[0]) if len(mval) == 1 and mval[0] in ("0", "1") else 2
            if kv and kv[-1][0] != "m":
                mm = 3  # m is written last by the code
            items.append(["chunk", keys, mm, len(pay)])
            if keys:
                trans.append([dict((k, v) for k, v in kv if k != "m"), [pay]])
            elif trans:
                trans[-1][1].append(pay)
            else:
                ok = False
        elif m.group("csif") is not None:
            pend.append((m.group("csif"), m.group("csip")))
        elif m.group("nl") is not None:
            flush_fill(True)
        else:
            ok = False
    if pend:
        flush_fill(False)
    return items, trans, ok, fill_ok


B64_TEXT = re.compile(r"[A-Za-z0-9+/]*=*")


def b64_shape(text):
    """[length, number of characters from the first '=' to the end, is [alphabet]*=*]"""
    i = text.find("=")
    return [len(text), len(text) - i if i >= 0 else 0, B64_TEXT.fullmatch(text) is not None]


def b64_strict(text):
    """The bytes of a WELL-FORMED base64 text: length a multiple of 4, only alphabet
    characters, padding only at the very end (at most two characters); anything else raises."""
    n, pad, alpha = b64_shape(text)
    if not alpha or n % 4 or pad > 2:
        raise ValueError("ill-formed base64 text")
    return base64.b64decode(text, validate=True)


def decode_kitty(trans):
    """Per transmission: decoded (and decompressed iff o=z) raw bytes or None."""
    raws = []
    for keys, parts in trans:
        try:
            data = b64_strict("".join(parts))
            if keys.get("o") == "z":
                data = zlib.decompress(data)
            elif "o" in keys:
                data = None
            raws.append(data)
        except Exception:
            raws.append(None)
    return raws


def parse_iterm2(out):
    toks, ok = lex(out)
    oscs = []
    others = []
    for m in toks:
        if m.group("ihdr") is not None:
            oscs.append((m.group("ihdr"), m.group("ipay")))
        elif m.group("kctl") is not None:
            ok = False
        else:
            others.append(m.group(0))
    return oscs, others, ok


# ----------------------------------------------------------------------- cases


def setup_style(case):
    if case["style"] == "kitty":
        cls = KittyImage
        cls._supported = True
        cls._TERM = case.get("term", "kitty")
        cls._TERM_VERSION = "0.30.0"
        cls._KITTY_VERSION = (0, 30, 0) if cls._TERM == "kitty" else ()
    else:
        cls = ITerm2Image
        cls._supported = True
        cls._TERM = case.get("term", "iterm2")
        cls._TERM_VERSION = "1"
    return cls


def construct(cls, case, path, opener):
    kw = {}
    sz = case["size"]
    if isinstance(sz, str) and case.get("dynamic"):
        kw = {"width": 1, "height": 1}  # replaced by the DYNAMIC size after construction
    elif isinstance(sz, str):
        kw = {"width": Size[sz]}
    else:
        kw = {"width": sz[0], "height": sz[1]}
    kind = case["source"]
    keep = None

    def pre_seek(im):  # the PIL image may be on any frame when it is wrapped
        if case.get("pre") and getattr(im, "is_animated", False):
            im.seek(case["pre"] % im.n_frames)
        return im

    if kind == "file":
        image = cls.from_file(path, **kw)
    elif kind == "pil_file":
        keep = pre_seek(Image.open(path))
        image = cls(keep, **kw)
    elif path is not None:  # a PIL image decoded from bytes: has a format, no file name
        keep = pre_seek(Image.open(io.BytesIO(open(path, "rb").read())))
        image = cls(keep, **kw)
    else:  # a PIL image made in memory: no format, no file name
        keep = opener()
        image = cls(keep, **kw)
    if isinstance(sz, str) and case.get("dynamic"):
        image.size = Size[sz]  # re-computed by _renderer at every render
    return image, keep


def set_over(case):
    """(method given to set_render_method() or None, "instance" | "class", per-render
    override or None).  Cases without the round-4 keys: `via` setmethod/str sets the
    method on the instance, every other `via` passes it as the override."""
    if "override" in case or "set_method" in case:
        return case.get("set_method"), case.get("set_level", "instance"), case.get("override")
    if case.get("via", "format") in ("setmethod", "str"):
        return case["method"], "instance", None
    return None, "instance", case["method"]


class Env:
    """The terminal environment as the image modules see it, with every read recorded and
    an optional change after `at` reads."""

    def __init__(self, case):
        chg = case.get("envchg") or {}
        self.at = chg.get("at")
        self.b_cell = tuple(chg["cell"]) if chg.get("cell") else None
        self.b_term = tuple(chg["term"]) if chg.get("term") else None
        self.b_ratio = chg.get("ratio")
        self.a_term = tuple(case["term_size"]) if case.get("term_size") else None
        self._per = {}  # per thread: [reads so far, depth inside _render_image, trace]
        self.saved = None

    # the counters of the CALLING thread (renders of several threads are counted apart)
    def _mine(self):
        return self._per.setdefault(threading.get_ident(), [0, 0, []])

    n = property(lambda self: self._mine()[0], lambda self, v: self._mine().__setitem__(0, v))
    inside = property(lambda self: self._mine()[1], lambda self, v: self._mine().__setitem__(1, v))
    trace = property(lambda self: self._mine()[2])  # [function, inside _render_image?, value]

    def _read(self, name, a_value, b_value):
        changed = self.at is not None and self.n >= self.at and b_value is not None
        self.n += 1
        v = b_value if changed else a_value
        self.trace.append([name, int(self.inside > 0), list(v) if isinstance(v, tuple) else v])
        return v

    def install(self):
        # every name under which a term_image module reaches the environment (the image modules
        # import them into their own namespace; utils / the package hold the originals — here the
        # test-suite's stubs), so that a read is seen whatever route the code takes to it
        self.saved = []
        for modname, mod in list(sys.modules.items()):
            if mod is None or not modname.startswith("term_image"):
                continue
            for name, tag in (("get_cell_size", "cs"), ("get_terminal_size", "ts"), ("get_cell_ratio", "cr")):
                f = mod.__dict__.get(name)
                if callable(f):
                    self.saved.append((mod, name, f))
                    setattr(mod, name, self._wrapper(tag, f))

    def _wrapper(self, tag, f):
        if tag == "cs":
            return lambda: self._read("cs", f(), self.b_cell)
        if tag == "ts":
            return lambda: os.terminal_size(self._read("ts", self.a_term or tuple(f()), self.b_term))
        return lambda: self._read("cr", f(), self.b_ratio)

    def remove(self):
        for mod, name, f in self.saved:
            setattr(mod, name, f)


def render(image, case):
    alpha = case["alpha"]
    if isinstance(alpha, list):
        alpha = alpha[0]  # [0.5] encodes a float
    setm, level, over = set_over(case)
    if setm is not None:  # any letter case is accepted
        (type(image) if level == "class" else image).set_render_method(setm)
    style = {"lines": "L", "whole": "W", "anim": "A", None: ""}[over]
    if case["style"] == "kitty":
        style += f"z{case['z']}m{int(case['mix'])}c{case['compress']}"
    else:
        style += f"m{int(case['mix'])}c{case['compress']}"
    via = case.get("via", "format")
    if via == "renderer":  # the entry used by the animation code (blend is not public)
        args = dict(mix=case["mix"], compress=case["compress"])
        if over is not None:
            args["method"] = over
        if case["style"] == "kitty":
            args.update(z_index=case["z"], blend=case["blend"])
        return image._renderer(image._render_image, alpha, **args), alpha
    if via == "str":
        # str(image): default alpha threshold, default style arguments, no override possible
        assert over is None
        return str(image), 40 / 255
    return format(image, f"1.1{alpha_spec(alpha)}+{style}"), alpha


def run_unit(case):
    """Transmission.get_chunks on a payload of a given length / level / chunk size."""
    n, level, size = case["len"], case["level"], case["csize"]
    data = random.Random(case["seed"]).randbytes(n) if case.get("noise", True) else bytes(n)
    cd = ControlData(f=24, s=1, v=1)
    t = Transmission(cd, data, level)
    chunks = list(t.get_chunks() if size is None else t.get_chunks(size))
    out = "".join(chunks)
    items, trans, ok, _ = parse_kitty(out, 0, True)
    raws = decode_kitty(trans)
    return {
        "items": items,
        "lex_ok": ok and all(c.startswith(ESC + "_G") and c.endswith(ESC + "\\") and c.count(ESC) == 2 for c in chunks),
        "n_yield": len(chunks),
        "raw_ok": len(raws) == 1 and raws[0] == data,
        "rawlen": [len(r) if r is not None else -1 for r in raws],
        "joined_eq": t.get_chunked() == out if size is None else True,
        "b64": b64_shape("".join(trans[0][1])) if len(trans) == 1 else [0, 0, False],
    }


def run_case(case, idx):
    if case.get("unit"):
        return run_unit(case)
    chg = case.get("envchg") or {}
    if chg.get("at") == "each":
        # every position of the change: the unchanged run tells how many reads there are
        res0 = run_case({**case, "envchg": {**chg, "at": None}}, idx)
        each = [[None, res0]]
        for at in range(1, res0.get("n_reads", 0)):
            each.append([at, run_case({**case, "envchg": {**chg, "at": at}}, idx)])
        return {"each": each}
    env = Env(case)
    cls = setup_style(case)
    env.install()
    try:
        return run_render_case(case, idx, env, cls)
    finally:
        env.remove()
        if case.get("set_level") == "class":
            cls.set_render_method(None)


def run_render_case(case, idx, env, cls):
    tests.set_cell_size(tuple(case["cell"]))
    tests.set_fg_bg_colors(bg=tuple(case.get("bg", (0, 0, 0))) if case.get("bg") is not False else None)
    path, opener = build_source(case["src"], idx)
    image, keep = construct(cls, case, path, opener)
    if case["style"] == "iterm2":
        if case.get("jq") is not None:
            image.jpeg_quality = case["jq"]
        if case.get("rff") is not None:
            image.read_from_file = case["rff"]
    animated = bool(image.is_animated)
    n_frames = image.n_frames if animated else 1
    readable = False
    if case["source"] == "file":
        readable = True
    else:
        try:
            readable = os.access(keep.filename, os.R_OK)
        except (AttributeError, OSError):
            readable = False
    shared = keep if animated else None  # the PIL object shared by the instance, its renders and its owner
    ctx = {"path": path, "opener": opener, "keep": keep, "animated": animated, "n_frames": n_frames,
           "readable": bool(readable), "shared": shared, "init": image.tell()}
    if case.get("conc"):
        if animated:
            image.seek(case.get("seek", 0) % n_frames)
        return run_conc(image, case, env, ctx)
    ops = case.get("ops")
    if ops is None:  # a single render (of frame `seek` of an animated source)
        ops = ([["seek", case.get("seek", 0)]] if animated else []) + [["render"]]
    hist, renders = [], []
    for i, op in enumerate(ops):
        if op[0] == "render":
            res = render_once(image, case, env, ctx)
            res["fr"].update(hist=list(hist))
            renders.append([i, res])
            hist.append(["render"])
        elif not animated:
            continue  # a still image has one frame: nothing to move
        elif op[0] == "seek":
            image.seek(op[1] % n_frames)
            hist.append(["seek", op[1] % n_frames])
        elif op[0] == "pilseek":
            if shared is not None:  # (a file-sourced instance shares no PIL object)
                shared.seek(op[1] % n_frames)
                hist.append(["foreign", op[1] % n_frames])
        elif op[0] == "iter":
            hist.append(run_iterator(image, case, op[1]))
        elif op[0] == "native":
            if case["style"] == "iterm2":
                try:
                    format(image, "1.1+A")
                except Exception:  # noqa: BLE001 - only its effect on the PIL object matters here
                    pass
                if shared is not None:
                    hist.append(["foreign", shared.tell()])
        else:
            raise ValueError(f"unknown op {op!r}")
    if case.get("ops") is not None and not case.get("last_only"):
        return {"renders": renders}
    return renders[-1][1]


def run_iterator(image, case, k):
    """ImageIterator(image, repeat=1) yielding k+1 frames (0..k) and closed; exhausted if the
    source has no more than k frames.  -> the history entry."""
    from term_image.image import ImageIterator

    alpha = case["alpha"]
    if isinstance(alpha, list):
        alpha = alpha[0]
    it = ImageIterator(image, 1, f"1.1{alpha_spec(alpha)}")
    done = 0
    try:
        for _ in range(k + 1):
            next(it)
            done += 1
        entry = ["iter", done - 1]
    except StopIteration:
        entry = ["iterfull"]
    finally:
        it.close()
    return entry


def pre_render(image, case, ctx):
    """what is known before a render starts -> (res, fresh copy of the source on the current frame, tell)"""
    opener, animated, readable = ctx["opener"], ctx["animated"], ctx["readable"]
    res = {}
    tell = image.tell()  # the frame the IMAGE says is current
    shared = ctx["shared"]
    res["fr"] = {"pil": case["source"] != "file", "init": ctx["init"], "tell": tell, "sent": -1,
                 "pilpos": shared.tell() if shared is not None else -1, "n_frames": ctx["n_frames"]}
    fresh = opener()
    if getattr(fresh, "is_animated", False):
        fresh.seek(tell)
    res["mode"] = fresh.mode
    res["mode_class"] = 0 if fresh.mode in OPAQUE else (1 if fresh.mode in ("P", "PA") else 2)
    res["animated"] = animated
    res["orig"] = list(image.original_size)
    res["readable"] = readable
    return res, fresh, tell


def render_once(image, case, env, ctx):
    res, fresh, tell = pre_render(image, case, ctx)
    size_before = image.size
    pinned = []
    bound_render_image = image._render_image

    def render_image(*a, **k):
        # the size this render is made for (fixed while _renderer runs: no environment read)
        pinned.append(list(image.rendered_size))
        env.inside += 1
        try:
            return bound_render_image(*a, **k)
        finally:
            env.inside -= 1

    image._render_image = render_image
    env.n, env.trace[:] = 0, []  # count the reads of the render only (not of the construction)
    out = alpha = None
    try:
        out, alpha = render(image, case)
        res["raised"] = ""
    except Exception as e:  # noqa: BLE001 - reported, judged by the oracle
        res["raised"] = type(e).__name__
        res["raised_msg"] = str(e)[:120]
    finally:
        del image._render_image
    return analyse(res, out, alpha, image, case, list(env.trace), ctx, fresh, tell, size_before, pinned)


def analyse(res, out, alpha, image, case, trace, ctx, fresh, tell, size_before, pinned):
    """decode one render output and compare it with the source; `trace`: the environment reads of
    that render"""
    path, opener, readable = ctx["path"], ctx["opener"], ctx["readable"]
    res["n_reads"] = len(trace)
    res["reads"] = [t[0] + ("*" if t[1] else "") for t in trace]
    res["reads_in"] = [t[2] for t in trace if t[1] and t[0] == "cs"]
    res["other_in"] = sum(1 for t in trace if t[1] and t[0] != "cs")
    res["rsize"] = pinned[0] if pinned else list(image.rendered_size)
    if res["raised"]:
        return res
    res["size_kept"] = image.size == size_before
    res["out_len"] = len(out)
    rw, rh = res["rsize"]
    bg = tests.get_fg_bg_colors(hex=True)[1] or "#000000"

    def which_frame(matches):
        """the source frame whose pixels the payload carries: `tell` if it matches, else the
        first other frame that does, else -1"""
        if matches(fresh, tell):
            return tell
        for j in range(ctx["n_frames"]):
            if j != tell:
                try:
                    if matches(opener(), j):
                        return j
                except Exception:  # noqa: BLE001
                    pass
        return -1

    if case["style"] == "kitty":
        items, trans, ok, fill_ok = parse_kitty(out, rw, case["mix"] if case.get("via") != "str" else False)
        raws = decode_kitty(trans)
        res.update(items=items, lex_ok=ok, fill_ok=fill_ok,
                   rawlen=[len(r) if r is not None else -1 for r in raws],
                   b64=[b64_shape("".join(t[1])) for t in trans])
        # pixels at the transmitted resolution (s, sum of v), stitched in order
        pix = False
        try:
            ss = {int(t[0]["s"]) for t in trans}
            ff = {int(t[0]["f"]) for t in trans}
            vs = [int(t[0]["v"]) for t in trans]
            if len(ss) == 1 and len(ff) == 1 and all(r is not None for r in raws):
                s, f = ss.pop(), ff.pop()
                want_mode = {24: "RGB", 32: "RGBA"}.get(f)
                got = b"".join(raws)

                def matches(im, j):
                    exp = expected_image(im, j, alpha, (s, sum(vs)), bg)
                    return exp.mode == want_mode and exp.tobytes() == got

                res["fr"]["sent"] = which_frame(matches)
                pix = res["fr"]["sent"] == tell
        except Exception as e:  # noqa: BLE001
            res["pix_error"] = repr(e)[:200]
        res["pix"] = bool(pix)
        return res

    oscs, others, ok = parse_iterm2(out)
    res["lex_ok"] = ok
    res["n_nl"] = others.count("\n")
    src_bytes = open(path, "rb").read() if path and readable else None
    recs, strips = [], []
    untouched = False
    for hdr, pay in oscs:
        rec = {"hdr": hdr, "b64": b64_shape(pay)}
        kv = dict(p.split("=", 1) for p in hdr.split(";") if "=" in p)
        rec["keys"] = [int(kv.get(k, -1)) if re.fullmatch(r"\d+", kv.get(k, "")) else -1
                       for k in ("size", "width", "height", "preserveAspectRatio", "inline", "doNotMoveCursor")]
        rec["nkeys"] = len(kv)
        try:
            data = b64_strict(pay)
            rec["declen"] = len(data)
            rec["b64len"] = len(pay)
        except Exception:
            rec.update(declen=-1, b64len=len(pay), kind=9, w=0, h=0, rgba=False, frames=0)
            recs.append(rec)
            continue
        if src_bytes is not None and data == src_bytes:
            untouched = True
        try:
            im = Image.open(io.BytesIO(data))
            im.load()
            rec["kind"] = {"PNG": 0, "JPEG": 1}.get(im.format, 2)
            if rec["kind"] == 0 and getattr(im, "n_frames", 1) > 1:
                rec["kind"] = 2  # an animated PNG is "another (animated) image format", not a still PNG
            rec["w"], rec["h"] = im.size
            rec["rgba"] = im.mode == "RGBA"
            rec["frames"] = getattr(im, "n_frames", 1)
            rec["dmode"] = im.mode
            strips.append(im)
        except Exception:
            rec.update(kind=9, w=0, h=0, rgba=False, frames=0)
        recs.append(rec)
    res["oscs"] = recs
    res["untouched"] = untouched
    # pixel comparison
    pix = False
    try:
        if untouched:
            pix = True
            res["fr"]["sent"] = tell  # the whole source file: no single frame
        elif strips and len(strips) == len(oscs):
            w = strips[0].size[0]
            hs = [s.size[1] for s in strips]
            if all(s.size[0] == w for s in strips) and all(r["kind"] in (0, 1) for r in recs):
                lossless = all(r["kind"] == 0 for r in recs)

                def matches(im, j):
                    exp = expected_image(im, j, alpha, (w, sum(hs)), bg)
                    if not lossless:  # JPEG: lossy — format, mode and size only
                        return all(s_.mode == "RGB" for s_ in strips) and exp.mode == "RGB"
                    y, good = 0, True
                    for s_ in strips:
                        good = good and s_.mode == exp.mode and s_.tobytes() == exp.crop((0, y, w, y + s_.size[1])).tobytes()
                        y += s_.size[1]
                    return good

                res["fr"]["sent"] = which_frame(matches)
                pix = res["fr"]["sent"] == tell
            elif len(recs) == 1 and recs[0]["kind"] == 2:
                # native animation re-encoded from a PIL image: same format / frame count / size
                pix = (strips[0].format == fresh.format and recs[0]["frames"] == getattr(fresh, "n_frames", 1)
                       and strips[0].size == fresh.size)
                res["native_reencoded"] = True
                if pix:
                    res["fr"]["sent"] = tell  # the whole animation: no single frame
    except Exception as e:  # noqa: BLE001
        res["pix_error"] = repr(e)[:200]
    res["pix"] = bool(pix)
    return res


# ------------------------------------------------------------ concurrent renders


class Gates:
    """Pass-through wrappers around what a render calls; each announces a GATE to the scheduler
    in force (`self.ps`; none: plain pass-through, only counted)."""

    def __init__(self):
        self.ps = None
        self.count = 0
        gates = self

        class GBytesIO(io.BytesIO):
            def read(self, *a):
                r = super().read(*a)
                gates.hit("read")
                return r

            def truncate(self, *a):
                r = super().truncate(*a)
                gates.hit("truncate")
                return r

            def tell(self):
                r = super().tell()
                gates.hit("tell")
                return r

            def getvalue(self):
                gates.hit("getvalue")
                return super().getvalue()

        class IO:  # what the style modules reach as `io`
            BytesIO = GBytesIO
            StringIO = io.StringIO

        self.io = IO
        self.saved = []

    def hit(self, name):
        self.count += 1
        if self.ps is not None:
            self.ps.gate(name)

    def install(self, image):
        import term_image.image.iterm2 as m_iterm2
        import term_image.image.kitty as m_kitty

        for mod in (m_iterm2, m_kitty):
            self.saved.append((mod, "io", mod.io))
            mod.io = self.io
        pil_save = Image.Image.save
        gates = self

        def save(im, fp, *a, **k):
            # only the encodings a render makes (into a buffer of the style module)
            mine = isinstance(fp, self.io.BytesIO)
            mine and gates.hit("save>")
            try:
                return pil_save(im, fp, *a, **k)
            finally:
                mine and gates.hit("save<")

        self.saved.append((Image.Image, "save", pil_save))
        Image.Image.save = save
        bound = image._get_render_data

        def get_render_data(*a, **k):
            gates.hit("data>")
            try:
                return bound(*a, **k)
            finally:
                gates.hit("data<")

        image._get_render_data = get_render_data
        self.image = image

    def remove(self):
        for obj, name, val in reversed(self.saved):
            setattr(obj, name, val)
        del self.image._get_render_data


def conc_schedules(spec, n_events):
    if spec == "each":
        return [[[0, "*", k], [1, None, 1], [0, None, 1]] for k in range(1, n_events + 1)]
    if isinstance(spec, list) and spec and spec[0] == "pairs":
        return [[[0, "*", k], [1, "*", j], [0, None, 1], [1, None, 1]] for k, j in spec[1]]
    return [spec]


def run_conc(image, case, env, ctx):
    """-> {"threads": [result per thread]} for a concrete schedule, {"each": [[schedule, [results]], ...],
    "n_events": N} for an enumerated one"""
    conc = case["conc"]
    thr_cases = [{**case, **o} for o in conc["threads"]]
    gates = Gates()
    gates.install(image)
    try:
        spec = conc["sched"]
        if spec == "count" or spec == "each" or (isinstance(spec, list) and spec and spec[0] == "pairs"):
            gates.count = 0
            render(image, thr_cases[0])  # a solo render: the number of gate events of thread 0's render
            n_events = gates.count
            if spec == "count":
                return {"n_events": n_events}
            return {"n_events": n_events,
                    "each": [[sch, conc_once(image, thr_cases, env, ctx, gates, sch)] for sch in conc_schedules(spec, n_events)]}
        return {"threads": conc_once(image, thr_cases, env, ctx, gates, spec)}
    finally:
        gates.remove()


def conc_once(image, thr_cases, env, ctx, gates, sched):
    n = len(thr_cases)
    pres = [pre_render(image, c, ctx) for c in thr_cases]
    size_before = image.size
    pinned = [[] for _ in range(n)]
    traces = [None] * n
    bound_render_image = image._render_image
    ps = None

    def render_image(*a, **k):
        pinned[ps.current()].append(list(image.rendered_size))
        env.inside += 1
        try:
            return bound_render_image(*a, **k)
        finally:
            env.inside -= 1

    def body(i):
        def run():
            env.n, env.trace[:] = 0, []
            try:
                return render(image, thr_cases[i])
            finally:
                traces[i] = list(env.trace)
        return run

    image._render_image = render_image
    ps = parksched.ParkSched([body(i) for i in range(n)])
    gates.ps = ps
    stuck = ""
    try:
        for g in sched:
            ps.grant(g[0], g[1], g[2] if len(g) > 2 else 1)
        ps.finish()
    except parksched.Stuck as e:
        stuck = str(e)
    finally:
        gates.ps = None
        del image._render_image
    out = []
    for i in range(n):
        res, fresh, tell = pres[i]
        kind, val = ps.results[i] or ("exc", RuntimeError("the render did not end: " + stuck))
        text = alpha = None
        if kind == "ok":
            text, alpha = val
            res["raised"] = ""
        else:
            res["raised"] = type(val).__name__
            res["raised_msg"] = str(val)[:120]
        res["fr"].update(hist=[])
        res["gate_log"] = [f"{t}:{p}" for t, p in ps.log][:80]
        out.append(analyse(res, text, alpha, image, thr_cases[i], traces[i] or [], ctx, fresh, tell, size_before, pinned[i]))
    return out


def main():
    cases = implenv.read_cases()
    out = []
    try:
        for i, c in enumerate(cases):
            try:
                out.append(run_case(c, i))
            except Exception as e:  # noqa: BLE001
                import traceback
                out.append({"driver_error": traceback.format_exc()[-1500:]})
    finally:
        shutil.rmtree(TMP, ignore_errors=True)
    implenv.write_results(out)


main()
