"""C13 implementation driver: fault enumeration on a real pty.

stdin : JSON list of cases
  {"fn": "read_tty" | "query_terminal" | "draw",
   "attrs": {"raw": bool, "echo": bool, "vmin": int, "vtime": int},
   "mode": {...function specific...},
   "fault": null | {"k": int, "kind": "KI" | "Exc" | "SIGINT", "after": bool}}
stdout: JSON list of
  {"events": [[class, arg, f], ...],   f: 0 ok, 1 KI before effect, 2 Exception before,
                                          3 KI after effect, 4 Exception after
   "out": 0 returned | 1 KeyboardInterrupt | 2 Exception, "exc": repr,
   "restored": bool, "before": attrs, "after": attrs, "ncalls": int, "abort": str | null}

The pty slave is made the library's terminal (`term_image.utils._tty_fd`, and a
`sys.stdout` replacement whose fileno() is the slave for draw()); this process plays the
terminal on the master from inside the patched calls (single-threaded, deterministic:
`monotonic` is a virtual clock, `select` polls, `sleep` does not sleep).  Every tracked
call (termios.tcgetattr / tcsetattr / tcdrain, os.read / os.write on the tty, select,
monotonic, the `more` predicate; for draw() also stream write / flush, frame renders,
sleep, the interrupt handler, RenderData.finalize) is logged, and the k-th one raises."""
import implenv  # noqa: F401  (sys.path, stubs)

import copy
import json
import os
import pty
import select as _select
import signal
import sys
import termios

import term_image.utils as U
from term_image.geometry import Size
from term_image.renderable import Frame, FrameCount, Renderable, RenderData
from term_image.renderable import _renderable as RMOD
from term_image.render import RenderIterator

R_TCGETATTR, R_TCSETATTR, R_TCDRAIN, R_TCFLUSH = termios.tcgetattr, termios.tcsetattr, termios.tcdrain, termios.tcflush
R_READ, R_WRITE, R_SELECT = os.read, os.write, _select.select
R_MONOTONIC, R_USELECT = U.monotonic, U.select
R_SLEEP = RMOD.sleep
R_NEXT = RenderIterator.__next__
R_FINALIZE = RenderData.finalize
REAL_STDOUT = sys.stdout

signal.signal(signal.SIGINT, signal.default_int_handler)

MASTER, SLAVE = pty.openpty()
os.set_blocking(MASTER, False)
U._tty_fd = SLAVE
BASE = R_TCGETATTR(SLAVE)

C_GET, C_SET, C_READ, C_WRITE, C_SELECT, C_DRAIN, C_CLOCK, C_MORE = range(8)
C_OUT, C_FLUSH, C_RENDER, C_SLEEP, C_HANDLE, C_FINALIZE = 8, 9, 10, 11, 12, 13


class Abort(BaseException):
    """The harness gives up on this run (not a property of the code)."""


def norm(a):
    return [int(x) for x in a[:6]] + [[x if isinstance(x, int) else x[0] for x in a[6]]]


def make_attrs(spec):
    a = copy.deepcopy(BASE)
    iflag, oflag, cflag, lflag, ispeed, ospeed, cc = a
    if spec.get("raw"):
        iflag &= ~(termios.BRKINT | termios.ICRNL | termios.INPCK | termios.ISTRIP | termios.IXON)
        oflag &= ~termios.OPOST
        cflag &= ~(termios.CSIZE | termios.PARENB)
        cflag |= termios.CS8
        lflag &= ~(termios.ICANON | termios.IEXTEN | termios.ISIG)
    else:
        lflag |= termios.ICANON
    if spec.get("echo"):
        lflag |= termios.ECHO
    else:
        lflag &= ~termios.ECHO
    cc = list(cc)
    cc[termios.VMIN] = int(spec.get("vmin", 1))
    cc[termios.VTIME] = int(spec.get("vtime", 0))
    return [iflag, oflag, cflag, lflag, ispeed, ospeed, cc]


def drain_master():
    out = b""
    while True:
        try:
            r, _, _ = R_SELECT([MASTER], [], [], 0)
            if not r:
                return out
            out += R_READ(MASTER, 65536)
        except (BlockingIOError, OSError):
            return out


class Inject:
    def __init__(self, fault, entry):
        self.fault = fault
        self.entry = entry  # normalised attributes at entry
        self.n = 0
        self.events = []
        self.active = True
        self.depth_next = 0

    def throw(self, exc_cls):
        kind = self.fault["kind"]
        if kind == "KI":
            raise KeyboardInterrupt
        if kind == "SIGINT":
            signal.raise_signal(signal.SIGINT)
            for _ in range(10000):  # the handler runs at the next bytecode boundary
                pass
            raise Abort("SIGINT was not delivered")
        raise exc_cls(5, "injected fault") if issubclass(exc_cls, OSError) else exc_cls("injected fault")

    def call(self, cls, real, args, kwargs=None, exc_cls=OSError, pre_arg=None, post_arg=None):
        if not self.active:
            return real(*args, **(kwargs or {}))
        idx = self.n
        self.n += 1
        if self.n > 3000:
            self.active = False
            raise Abort("more than 3000 tracked calls")
        ev = [cls, 1 if pre_arg is None else int(pre_arg), 0]
        self.events.append(ev)
        hit = self.fault is not None and self.fault["k"] == idx
        ki = hit and self.fault["kind"] in ("KI", "SIGINT")
        if hit and not self.fault["after"]:
            ev[2] = 1 if ki else 2
            self.throw(exc_cls)
        try:
            res = real(*args, **(kwargs or {}))
        except KeyboardInterrupt:
            ev[2] = 1
            raise
        except Abort:
            raise
        except Exception:
            ev[2] = 2  # natural exception of the real call (e.g. StopIteration)
            raise
        if post_arg is not None:
            ev[1] = int(post_arg(res))
        if hit:
            ev[2] = 3 if ki else 4
            self.throw(exc_cls)
        return res


INJ = None  # current injector


class OsProxy:
    """`os` as seen by term_image.utils: read/write on the tty are tracked calls."""

    def __init__(self, reply):
        self.reply = reply

    def __getattr__(self, name):
        return getattr(os, name)

    def read(self, fd, n):
        if fd != SLAVE:
            return R_READ(fd, n)
        return INJ.call(C_READ, R_READ, (fd, n))

    def write(self, fd, data):
        if fd != SLAVE:
            return R_WRITE(fd, data)

        def do(fd, data):
            r = R_WRITE(fd, data)
            drain_master()
            if self.reply:
                R_WRITE(MASTER, self.reply)  # the terminal answers
            return r
        return INJ.call(C_WRITE, do, (fd, data))


class Clock:
    def __init__(self, tick):
        self.t, self.tick = 100.0, tick

    def __call__(self):
        def real():
            self.t += self.tick
            return self.t
        return INJ.call(C_CLOCK, real, ())


def p_select(r, w, x, timeout=None):
    # poll: everything the terminal will ever say is already queued
    return INJ.call(C_SELECT, R_SELECT, (r, w, x, 0))


def p_tcgetattr(fd):
    return INJ.call(C_GET, R_TCGETATTR, (fd,), exc_cls=termios.error, post_arg=lambda res: norm(res) == INJ.entry)


def p_tcsetattr(fd, when, attrs):
    return INJ.call(C_SET, R_TCSETATTR, (fd, when, attrs), exc_cls=termios.error, pre_arg=norm(attrs) == INJ.entry)


def p_tcdrain(fd):
    return INJ.call(C_DRAIN, R_TCDRAIN, (fd,), exc_cls=termios.error)


class Out:
    """sys.stdout replacement connected to the pty slave."""

    def __init__(self):
        self.f = os.fdopen(os.dup(SLAVE), "w")

    def write(self, s):
        return INJ.call(C_OUT, self.f.write, (s,))

    def flush(self):
        def do():
            self.f.flush()
            drain_master()
        return INJ.call(C_FLUSH, do, ())

    def isatty(self):
        return True

    def fileno(self):
        return SLAVE

    def close(self):
        try:
            self.f.flush()
        except Exception:
            pass
        self.f.close()


class Anim(Renderable):
    size = Size(3, 2)

    def __init__(self, n, indefinite_frames=None):
        super().__init__(n, 1)
        self._left = indefinite_frames

    def _get_render_size_(self):
        return self.size

    def _get_render_data_(self, *, iteration):
        rd = super()._get_render_data_(iteration=iteration)
        self._it = iter(range(self._left)) if self._left is not None else None
        return rd

    def _render_(self, render_data, render_args):
        def real():
            data = render_data[Renderable]
            if self._it is not None and data.iteration:
                next(self._it)  # StopIteration ends an INDEFINITE animation
            w, h = data.size
            return Frame(data.frame_offset, 1, data.size, "\n".join((str(data.frame_offset % 10) * w,) * h))
        if INJ is not None and INJ.depth_next == 0:
            return INJ.call(C_RENDER, real, (), exc_cls=RuntimeError)
        return real()

    def _handle_interrupted_draw_(self, render_data, render_args, output):
        return INJ.call(C_HANDLE, lambda: None, (), exc_cls=RuntimeError)


def p_next(self):
    def real():
        INJ.depth_next += 1
        try:
            return R_NEXT(self)
        finally:
            INJ.depth_next -= 1
    return INJ.call(C_RENDER, real, (), exc_cls=RuntimeError)


def p_sleep(t):
    return INJ.call(C_SLEEP, lambda: None, (), exc_cls=RuntimeError)


def p_finalize(self):
    # finalize() reached from RenderData.__del__ (garbage collection) is not a call of the code under test
    if INJ is None or not INJ.active or sys._getframe(1).f_code.co_name == "__del__":
        return R_FINALIZE(self)
    return INJ.call(C_FINALIZE, lambda: R_FINALIZE(self), (), exc_cls=RuntimeError)


def make_more(spec):
    """`more` predicate: keep reading while fewer than `stop` bytes (None: always)."""
    stop = spec.get("more_stop")
    if stop is None and not spec.get("more_given"):
        return None

    def more(buf):
        return INJ.call(C_MORE, (lambda b: True if stop is None else len(b) < stop), (buf,), exc_cls=RuntimeError)
    return more


def run_case(case):
    global INJ
    mode = case["mode"]
    attrs = make_attrs(case["attrs"])
    # ---- prepare the terminal
    R_TCSETATTR(SLAVE, termios.TCSANOW, attrs)
    R_TCFLUSH(SLAVE, termios.TCIOFLUSH)
    drain_master()
    pre = mode.get("preload", 0)
    if pre:
        R_WRITE(MASTER, bytes((0x61 + i % 26) for i in range(pre)))
        drain_master()  # echo
    before = norm(R_TCGETATTR(SLAVE))
    INJ = inj = Inject(case.get("fault"), before)
    res = {"abort": None, "exc": None}
    # ---- patch
    saved_q = (U._queries_enabled, U._query_timeout)
    termios.tcgetattr, termios.tcsetattr, termios.tcdrain = p_tcgetattr, p_tcsetattr, p_tcdrain
    U.os = OsProxy(bytes(mode.get("reply", "").encode()))
    U.select = p_select
    U.monotonic = Clock(mode.get("tick", 0.02))
    RMOD.sleep = p_sleep
    RenderIterator.__next__ = p_next
    RenderData.finalize = p_finalize
    out = None
    try:
        fn = case["fn"]
        if fn == "draw":
            sys.stdout = out = Out()
        try:
            if fn == "read_tty":
                kw = {}
                more = make_more(mode)
                if more is not None:
                    kw["more"] = more
                U.read_tty(timeout=mode.get("timeout"), min=mode.get("min", 0), echo=mode.get("echo", False), **kw)
            elif fn == "query_terminal":
                U._queries_enabled = mode.get("enabled", True)
                more = make_more(dict(mode, more_given=True))
                U.query_terminal(mode.get("request", "\x1b[c").encode(), more, mode.get("timeout"))
            elif fn == "draw":
                r = Anim(mode.get("frames", 1), mode.get("indefinite")) if mode.get("indefinite") is not None or mode.get("frames", 1) > 1 \
                    else Anim(1)
                if mode.get("indefinite") is not None:
                    r = Anim(FrameCount.INDEFINITE, mode["indefinite"])
                r.draw(animate=mode.get("animate", True), loops=mode.get("loops", 1), cache=mode.get("cache", False),
                       hide_cursor=mode.get("hide_cursor", True), echo_input=mode.get("echo_input", False),
                       check_size=mode.get("check_size", True))
            else:
                raise Abort(f"unknown fn {fn}")
            res["out"] = 0
        except KeyboardInterrupt as e:
            res["out"], res["exc"] = 1, repr(e)
        except Abort as e:
            res["out"], res["abort"] = 0, str(e)
        except Exception as e:
            res["out"], res["exc"] = 2, repr(e)[:200]
    finally:
        inj.active = False
        termios.tcgetattr, termios.tcsetattr, termios.tcdrain = R_TCGETATTR, R_TCSETATTR, R_TCDRAIN
        U.os, U.select, U.monotonic = os, R_USELECT, R_MONOTONIC
        RMOD.sleep = R_SLEEP
        RenderIterator.__next__ = R_NEXT
        RenderData.finalize = R_FINALIZE
        U._queries_enabled, U._query_timeout = saved_q
        sys.stdout = REAL_STDOUT
        if out is not None:
            out.close()
        INJ = None
    after = norm(R_TCGETATTR(SLAVE))
    drain_master()
    res.update(events=inj.events, ncalls=inj.n, restored=(before == after), before=before, after=after)
    return res


def main():
    cases = json.loads(sys.stdin.read())
    results = []
    for c in cases:
        try:
            results.append(run_case(c))
        except BaseException as e:  # the harness itself failed on this case
            results.append({"abort": f"driver error: {type(e).__name__}: {e}", "events": [], "ncalls": 0, "out": 0,
                            "restored": True, "before": [], "after": [], "exc": None})
    REAL_STDOUT.write(json.dumps(results))
    REAL_STDOUT.flush()


if __name__ == "__main__":
    main()
