"""C13 implementation driver: fault enumeration on a real pty.

stdin : JSON list of cases
  {"fn": "read_tty" | "query_terminal" | "draw",
   "attrs": {"raw": bool, "echo": bool, "vmin": int, "vtime": int},
   "mode": {...function specific...},
   "fault": null | {"k": int, "kind": "KI" | "Exc" | "SIGINT", "after": bool}}
stdout: JSON list of
  {"events": [[class, arg, f], ...],   f: 0 ok, 1 KI before effect, 2 Exception before,
                                          3 KI after effect, 4 Exception after
   "out": 0 returned | 1 KeyboardInterrupt | 2 Exception, "exc": repr,
   "restored": bool, "before": attrs, "after": attrs, "ncalls": int, "abort": str | null}

The pty slave is made the library's terminal (`term_image.utils._tty_fd`, and a
`sys.stdout` replacement whose fileno() is the slave for draw()); this process plays the
terminal on the master from inside the patched calls (single-threaded, deterministic:
`monotonic` is a virtual clock, `select` polls, `sleep` does not sleep).  Every tracked
call (termios.tcgetattr / tcsetattr / tcdrain, os.read / os.write on the tty, select,
monotonic, the `more` predicate; for draw() also stream write / flush, frame renders,
sleep, the interrupt handler, RenderData.finalize -- i.e. the renderable's `_finalize_render_data_`
hook) is logged, and the k-th one raises -- wherever it stands, the operation's own clean-up included.

Round 4:
  * "async": {"k": int | null, "kind": "KI" | "Exc"}: an ASYNCHRONOUS exception at the k-th SIGNAL POINT
    executed inside package code while the operation runs (k null: counting run, result "npoints"):
    the places where CPython's evaluation loop polls for pending signals and would run a raising
    handler -- after a call returns, at a function's entry, on a backward jump (class SigPoints);
    this is `asyncfault.py` at bytecode instead of line granularity, restricted to the positions a
    real signal can take (a 'line' event between the return of the previous call and the restoring
    `tcsetattr(...)` that follows it in a finally block is not one).  The clean-up blocks are included.
  * the attributes are read THREE times: before the call, when the call has returned / raised while
    the exception is still referenced ("held"), and after the exception has been released and
    `gc.collect()` ("after"): a restore that is deferred to the death of some object, or replayed
    late by one, differs in one of the two.

Round 8 -- WHICH terminal (several terminals in the process):
  * "layout": {"ptys": [attrs, ...], "stdin": i | "pipe" | "null", "stdout": j, "tty": k}: the process has
    len(ptys) terminals (pty pairs) with their own initial attributes; descriptor 0 / sys.stdin is the slave
    of pty i (or a pipe / /dev/null: not a tty), descriptor 1 / sys.stdout the slave of pty j, the library's
    active terminal `utils._tty_fd` the slave of pty k; ptys no descriptor refers to are bystanders.  The
    layout is data: nothing here knows which descriptors the operation uses.  The attributes of EVERY pty are
    read at the three times; result key "terms": [{"before", "held", "after"}, ...] (one per pty), and
    "restored" says that all of them are identical."""
import implenv  # noqa: F401  (sys.path, stubs)

import copy
import dis
import gc
import json
import os
import pty
import select as _select
import signal
import sys
import termios

import term_image.utils as U
from term_image.geometry import Size
from term_image.renderable import Frame, FrameCount, Renderable, RenderData
from term_image.renderable import _renderable as RMOD
from term_image.render import RenderIterator

R_TCGETATTR, R_TCSETATTR, R_TCDRAIN, R_TCFLUSH = termios.tcgetattr, termios.tcsetattr, termios.tcdrain, termios.tcflush
R_READ, R_WRITE, R_SELECT = os.read, os.write, _select.select
R_MONOTONIC, R_USELECT = U.monotonic, U.select
R_SLEEP = RMOD.sleep
R_NEXT = RenderIterator.__next__
R_FINALIZE = RenderData.finalize
REAL_STDOUT = sys.stdout

signal.signal(signal.SIGINT, signal.default_int_handler)

MASTER, SLAVE = pty.openpty()
os.set_blocking(MASTER, False)
U._tty_fd = SLAVE
BASE = R_TCGETATTR(SLAVE)
PTYS = [(MASTER, SLAVE)]  # every terminal of this process; MASTER / SLAVE = the one the tracked calls talk to
REAL_STDIN = sys.stdin
FD_SAVE = {}


def pty_pair(i):
    while len(PTYS) <= i:
        m, sl = pty.openpty()
        os.set_blocking(m, False)
        PTYS.append((m, sl))
    return PTYS[i]

C_GET, C_SET, C_READ, C_WRITE, C_SELECT, C_DRAIN, C_CLOCK, C_MORE = range(8)
C_OUT, C_FLUSH, C_RENDER, C_SLEEP, C_HANDLE, C_FINALIZE = 8, 9, 10, 11, 12, 13


class Abort(BaseException):
    """The harness gives up on this run (not a property of the code)."""


def norm(a):
    return [int(x) for x in a[:6]] + [[x if isinstance(x, int) else x[0] for x in a[6]]]


def make_attrs(spec):
    a = copy.deepcopy(BASE)
    iflag, oflag, cflag, lflag, ispeed, ospeed, cc = a
    if spec.get("raw"):
        iflag &= ~(termios.BRKINT | termios.ICRNL | termios.INPCK | termios.ISTRIP | termios.IXON)
        oflag &= ~termios.OPOST
        cflag &= ~(termios.CSIZE | termios.PARENB)
        cflag |= termios.CS8
        lflag &= ~(termios.ICANON | termios.IEXTEN | termios.ISIG)
    else:
        lflag |= termios.ICANON
    if spec.get("echo"):
        lflag |= termios.ECHO
    else:
        lflag &= ~termios.ECHO
    cc = list(cc)
    cc[termios.VMIN] = int(spec.get("vmin", 1))
    cc[termios.VTIME] = int(spec.get("vtime", 0))
    return [iflag, oflag, cflag, lflag, ispeed, ospeed, cc]


def drain_master(master=None):
    master = MASTER if master is None else master
    out = b""
    while True:
        try:
            r, _, _ = R_SELECT([master], [], [], 0)
            if not r:
                return out
            out += R_READ(master, 65536)
        except (BlockingIOError, OSError):
            return out


class Inject:
    def __init__(self, fault, entry):
        self.fault = fault
        self.entry = entry  # normalised attributes at entry
        self.n = 0
        self.events = []
        self.active = True
        self.depth_next = 0

    def throw(self, exc_cls):
        kind = self.fault["kind"]
        if kind == "KI":
            raise KeyboardInterrupt
        if kind == "SIGINT":
            signal.raise_signal(signal.SIGINT)
            for _ in range(10000):  # the handler runs at the next bytecode boundary
                pass
            raise Abort("SIGINT was not delivered")
        raise exc_cls(5, "injected fault") if issubclass(exc_cls, OSError) else exc_cls("injected fault")

    def call(self, cls, real, args, kwargs=None, exc_cls=OSError, pre_arg=None, post_arg=None):
        if not self.active:
            return real(*args, **(kwargs or {}))
        idx = self.n
        self.n += 1
        if self.n > 3000:
            self.active = False
            raise Abort("more than 3000 tracked calls")
        ev = [cls, 1 if pre_arg is None else int(pre_arg), 0]
        self.events.append(ev)
        hit = self.fault is not None and self.fault["k"] == idx
        ki = hit and self.fault["kind"] in ("KI", "SIGINT")
        if hit and not self.fault["after"]:
            ev[2] = 1 if ki else 2
            self.throw(exc_cls)
        try:
            res = real(*args, **(kwargs or {}))
        except KeyboardInterrupt:
            ev[2] = 1
            raise
        except Abort:
            raise
        except Exception:
            ev[2] = 2  # natural exception of the real call (e.g. StopIteration)
            raise
        if post_arg is not None:
            ev[1] = int(post_arg(res))
        if hit:
            ev[2] = 3 if ki else 4
            self.throw(exc_cls)
        return res


INJ = None  # current injector


class OsProxy:
    """`os` as seen by term_image.utils: read/write on the tty are tracked calls."""

    def __init__(self, reply):
        self.reply = reply

    def __getattr__(self, name):
        return getattr(os, name)

    def read(self, fd, n):
        if fd != SLAVE:
            return R_READ(fd, n)
        return INJ.call(C_READ, R_READ, (fd, n))

    def write(self, fd, data):
        if fd != SLAVE:
            return R_WRITE(fd, data)

        def do(fd, data):
            r = R_WRITE(fd, data)
            drain_master()
            if self.reply:
                R_WRITE(MASTER, self.reply)  # the terminal answers
            return r
        return INJ.call(C_WRITE, do, (fd, data))


class Clock:
    def __init__(self, tick):
        self.t, self.tick = 100.0, tick

    def __call__(self):
        def real():
            self.t += self.tick
            return self.t
        return INJ.call(C_CLOCK, real, ())


def p_select(r, w, x, timeout=None):
    # poll: everything the terminal will ever say is already queued
    return INJ.call(C_SELECT, R_SELECT, (r, w, x, 0))


def p_tcgetattr(fd):
    return INJ.call(C_GET, R_TCGETATTR, (fd,), exc_cls=termios.error, post_arg=lambda res: norm(res) == INJ.entry)


def p_tcsetattr(fd, when, attrs):
    return INJ.call(C_SET, R_TCSETATTR, (fd, when, attrs), exc_cls=termios.error, pre_arg=norm(attrs) == INJ.entry)


def p_tcdrain(fd):
    return INJ.call(C_DRAIN, R_TCDRAIN, (fd,), exc_cls=termios.error)


class Out:
    """sys.stdout replacement connected to the pty slave."""

    def __init__(self, fd=None):
        self.fd = SLAVE if fd is None else fd
        self.f = os.fdopen(os.dup(self.fd), "w")

    def write(self, s):
        return INJ.call(C_OUT, self.f.write, (s,))

    def flush(self):
        def do():
            self.f.flush()
            drain_master()
        return INJ.call(C_FLUSH, do, ())

    def isatty(self):
        return True

    def fileno(self):
        return self.fd

    def close(self):
        try:
            self.f.flush()
        except Exception:
            pass
        self.f.close()


_PKG = os.path.join(os.path.realpath(os.environ.get("VERIF_REPO", "/repo")), "src", "term_image") + os.sep
_CALLS = {"CALL", "CALL_FUNCTION_EX", "CALL_KW", "INSTRUMENTED_CALL", "INSTRUMENTED_CALL_FUNCTION_EX"}
_POLLS = {"RESUME", "INSTRUMENTED_RESUME", "JUMP_BACKWARD", "INSTRUMENTED_JUMP_BACKWARD"}
# functions of this driver that stand for C functions of the real program (termios.*, os.read / os.write,
# select, monotonic, sleep, the methods of the text stream): the evaluation loop polls when they return
_C_LIKE = {"p_tcgetattr", "p_tcsetattr", "p_tcdrain", "p_select", "p_sleep", "read", "write", "flush", "__call__",
           "isatty", "fileno"}


class SigPoints:
    """Asynchronous exception at the k-th SIGNAL POINT executed in package code (k None: count them).

    CPython runs signal handlers -- and raises what they raise, e.g. KeyboardInterrupt for SIGINT, into the
    running code -- only where the evaluation loop polls its "eval breaker": at RESUME (entry of a Python
    function, resumption of a generator), on JUMP_BACKWARD, and when a CALL* of a NON-Python callable has
    returned (a call of a Python function polls at the callee's RESUME, not on return).  Enumerated here, for
    frames of the package:
      * the instruction following one that polled (RESUME, JUMP_BACKWARD, a CALL* during which no Python
        frame was entered from this frame);
      * the entry of a Python function outside the package called from a package frame (for the package
        that is the call raising before any effect); entries of package functions are covered by the
        first rule in their own frame."""

    def __init__(self, k=None, exc=KeyboardInterrupt):
        self.k, self.exc = k, exc
        self.count = 0
        self.fired = False
        self.where = None
        self._ops = {}     # code -> {offset: opname}
        self._prev = {}    # id(frame) -> opname of the instruction executed last in that package frame
        self._pycall = {}  # id(frame) -> a Python frame was entered from it during the current instruction
        self._inpkg = {}

    def _in(self, code):
        ok = self._inpkg.get(code)
        if ok is None:
            ok = self._inpkg[code] = os.path.realpath(code.co_filename).startswith(_PKG)
        return ok

    def _point(self, where):
        self.count += 1
        if self.k is not None and self.count == self.k and not self.fired:
            self.fired = True
            self.where = where
            raise KeyboardInterrupt() if self.exc is KeyboardInterrupt else self.exc("asynchronous fault")

    def _global(self, frame, event, arg):
        if event != "call":
            return None
        code = frame.f_code
        back = frame.f_back
        inpkg = self._in(code)
        if back is not None and id(back) in self._prev:
            c_like = not inpkg and code.co_filename == __file__ and code.co_name in _C_LIKE
            if not c_like:
                self._pycall[id(back)] = True
                if not inpkg:
                    self._point([os.path.basename(back.f_code.co_filename), back.f_lineno, back.f_code.co_name,
                                 "entry of " + code.co_name])
        if not inpkg:
            return None
        frame.f_trace_opcodes = True
        frame.f_trace_lines = False
        self._prev[id(frame)] = "RESUME"
        return self._local

    def _local(self, frame, event, arg):
        if event == "opcode":
            code = frame.f_code
            ops = self._ops.get(code)
            if ops is None:
                ops = self._ops[code] = {i.offset: i.opname for i in dis.get_instructions(code)}
            fid = id(frame)
            prev = self._prev.get(fid)
            pycall = self._pycall.pop(fid, False)
            self._prev[fid] = ops.get(frame.f_lasti, "?")
            if prev in _POLLS or (prev in _CALLS and not pycall):
                self._point([os.path.basename(code.co_filename), frame.f_lineno, code.co_name,
                             "before " + ops.get(frame.f_lasti, "?") + " (after " + prev + ")"])
        elif event == "return":
            self._prev.pop(id(frame), None)
            self._pycall.pop(id(frame), None)
        return self._local

    _warm = False

    @classmethod
    def _warm_up(cls):
        # the first frame ever switched to opcode tracing in a process delivers no 'opcode' event
        # (CPython 3.12): spend that one on a dummy
        def dummy():
            return 0

        def tr(frame, event, arg):
            frame.f_trace_opcodes = True
            return tr
        old = sys.gettrace()
        sys.settrace(tr)
        try:
            dummy()
            dummy()
        finally:
            sys.settrace(old)
        cls._warm = True

    def __enter__(self):
        if not SigPoints._warm:
            SigPoints._warm_up()
        self._old = sys.gettrace()
        sys.settrace(self._global)
        return self

    def __exit__(self, *a):
        sys.settrace(self._old)
        return False


class AsyncExc(Exception):
    """the Exception a (non-default) signal handler raises"""


class Anim(Renderable):
    size = Size(3, 2)

    def __init__(self, n, indefinite_frames=None):
        super().__init__(n, 1)
        self._left = indefinite_frames

    def _get_render_size_(self):
        return self.size

    def _get_render_data_(self, *, iteration):
        rd = super()._get_render_data_(iteration=iteration)
        self._it = iter(range(self._left)) if self._left is not None else None
        return rd

    def _render_(self, render_data, render_args):
        def real():
            data = render_data[Renderable]
            if self._it is not None and data.iteration:
                next(self._it)  # StopIteration ends an INDEFINITE animation
            w, h = data.size
            return Frame(data.frame_offset, 1, data.size, "\n".join((str(data.frame_offset % 10) * w,) * h))
        if INJ is not None and INJ.depth_next == 0:
            return INJ.call(C_RENDER, real, (), exc_cls=RuntimeError)
        return real()

    def _handle_interrupted_draw_(self, render_data, render_args, output):
        return INJ.call(C_HANDLE, lambda: None, (), exc_cls=RuntimeError)


def p_next(self):
    def real():
        INJ.depth_next += 1
        try:
            return R_NEXT(self)
        finally:
            INJ.depth_next -= 1
    return INJ.call(C_RENDER, real, (), exc_cls=RuntimeError)


def p_sleep(t):
    return INJ.call(C_SLEEP, lambda: None, (), exc_cls=RuntimeError)


def p_finalize(self):
    # finalize() reached from RenderData.__del__ (garbage collection) is not a call of the code under test
    if INJ is None or not INJ.active or sys._getframe(1).f_code.co_name == "__del__":
        return R_FINALIZE(self)
    return INJ.call(C_FINALIZE, lambda: R_FINALIZE(self), (), exc_cls=RuntimeError)


def make_more(spec):
    """`more` predicate: keep reading while fewer than `stop` bytes (None: always)."""
    stop = spec.get("more_stop")
    if stop is None and not spec.get("more_given"):
        return None

    def more(buf):
        return INJ.call(C_MORE, (lambda b: True if stop is None else len(b) < stop), (buf,), exc_cls=RuntimeError)
    return more


_WARMED = set()


def run_case(case):
    global INJ
    if case.get("async") is not None:
        # the same operation once untraced and fault-free first (once per scenario and process): lazily
        # initialised state of the package (caches, first-call paths) is then the same whatever ran before
        # in this process, so that the k-th signal point is the same position in the counting run, the
        # faulted run and a replay
        wkey = json.dumps([case["fn"], case["mode"], case["attrs"], case.get("layout")], sort_keys=True)
        if wkey not in _WARMED:
            _WARMED.add(wkey)
            run_case({k: v for k, v in case.items() if k not in ("async", "fault")} | {"fault": None})
    lay = case.get("layout")
    if lay is not None:
        return run_layout_case(case, lay)
    return run_case_on(case, None)


def run_layout_case(case, lay):
    """the terminals and the standard descriptors of the process laid out as the case says (data)"""
    global MASTER, SLAVE
    n = len(lay["ptys"])
    pty_pair(n - 1)
    for fd in (0, 1):
        if fd not in FD_SAVE:
            FD_SAVE[fd] = os.dup(fd)
    primary = lay["stdout"] if case["fn"] == "draw" else lay["tty"]
    extra = []
    try:
        MASTER, SLAVE = PTYS[primary]
        U._tty_fd = PTYS[lay["tty"]][1]
        for i in range(n):
            if i != primary:
                R_TCSETATTR(PTYS[i][1], termios.TCSANOW, make_attrs(lay["ptys"][i]))
                R_TCFLUSH(PTYS[i][1], termios.TCIOFLUSH)
                drain_master(PTYS[i][0])
        si = lay["stdin"]
        if si == "pipe":
            r, w = os.pipe()
            extra += [r, w]
            os.dup2(r, 0)
        elif si == "null":
            r = os.open(os.devnull, os.O_RDONLY)
            extra.append(r)
            os.dup2(r, 0)
        else:
            os.dup2(PTYS[si][1], 0)
        os.dup2(PTYS[lay["stdout"]][1], 1)
        sys.stdin = sys.__stdin__ = open(0, "r", closefd=False)
        return run_case_on(dict(case, attrs=lay["ptys"][primary]), lay)
    finally:
        try:
            sys.stdin.close()
        except Exception:
            pass
        sys.stdin = sys.__stdin__ = REAL_STDIN
        os.dup2(FD_SAVE[0], 0)
        os.dup2(FD_SAVE[1], 1)
        for fd in extra:
            os.close(fd)
        for m, _ in PTYS[:n]:
            drain_master(m)
        MASTER, SLAVE = PTYS[0]
        U._tty_fd = SLAVE


def run_case_on(case, lay):
    global INJ
    mode = case["mode"]
    attrs = make_attrs(case["attrs"])
    terms = [SLAVE] if lay is None else [sl for _, sl in PTYS[:len(lay["ptys"])]]
    prim = terms.index(SLAVE)

    def snap_all():
        return [norm(R_TCGETATTR(sl)) for sl in terms]
    # ---- prepare the terminal
    R_TCSETATTR(SLAVE, termios.TCSANOW, attrs)
    R_TCFLUSH(SLAVE, termios.TCIOFLUSH)
    drain_master()
    pre = mode.get("preload", 0)
    if pre:
        R_WRITE(MASTER, bytes((0x61 + i % 26) for i in range(pre)))
        drain_master()  # echo
    before_all = snap_all()
    before = before_all[prim]
    INJ = inj = Inject(case.get("fault"), before)
    res = {"abort": None, "exc": None}
    held_all = before_all
    # ---- patch
    saved_q = (U._queries_enabled, U._query_timeout)
    termios.tcgetattr, termios.tcsetattr, termios.tcdrain = p_tcgetattr, p_tcsetattr, p_tcdrain
    U.os = OsProxy(bytes(mode.get("reply", "").encode()))
    U.select = p_select
    U.monotonic = Clock(mode.get("tick", 0.02))
    RMOD.sleep = p_sleep
    RenderIterator.__next__ = p_next
    RenderData.finalize = p_finalize
    out = None
    try:
        fn = case["fn"]
        if fn == "draw":
            sys.stdout = out = Out()
        elif lay is not None:
            sys.stdout = out = Out(PTYS[lay["stdout"]][1])
        def operation():
            if fn == "read_tty":
                kw = {}
                more = make_more(mode)
                if more is not None:
                    kw["more"] = more
                U.read_tty(timeout=mode.get("timeout"), min=mode.get("min", 0), echo=mode.get("echo", False), **kw)
            elif fn == "query_terminal":
                U._queries_enabled = mode.get("enabled", True)
                more = make_more(dict(mode, more_given=True))
                U.query_terminal(mode.get("request", "\x1b[c").encode(), more, mode.get("timeout"))
            elif fn == "draw":
                r = Anim(mode.get("frames", 1), mode.get("indefinite")) if mode.get("indefinite") is not None or mode.get("frames", 1) > 1 \
                    else Anim(1)
                if mode.get("indefinite") is not None:
                    r = Anim(FrameCount.INDEFINITE, mode["indefinite"])
                r.draw(animate=mode.get("animate", True), loops=mode.get("loops", 1), cache=mode.get("cache", False),
                       hide_cursor=mode.get("hide_cursor", True), echo_input=mode.get("echo_input", False),
                       check_size=mode.get("check_size", True))
            else:
                raise Abort(f"unknown fn {fn}")

        asy = case.get("async")
        tracer = None
        if asy is not None:
            tracer = SigPoints(asy.get("k"), KeyboardInterrupt if asy.get("kind", "KI") == "KI" else AsyncExc)
        try:
            if tracer is not None:
                with tracer:
                    operation()
            else:
                operation()
            res["out"] = 0
            held_all = snap_all()
        except KeyboardInterrupt as e:
            held_all = snap_all()  # the exception (traceback, frames, their locals) is still referenced
            res["out"], res["exc"] = 1, repr(e)
        except Abort as e:
            held_all = snap_all()
            res["out"], res["abort"] = 0, str(e)
        except Exception as e:
            held_all = snap_all()
            res["out"], res["exc"] = 2, repr(e)[:200]
        if tracer is not None:
            res["npoints"], res["fired"], res["where"] = tracer.count, tracer.fired, tracer.where
    finally:
        inj.active = False
        termios.tcgetattr, termios.tcsetattr, termios.tcdrain = R_TCGETATTR, R_TCSETATTR, R_TCDRAIN
        U.os, U.select, U.monotonic = os, R_USELECT, R_MONOTONIC
        RMOD.sleep = R_SLEEP
        RenderIterator.__next__ = R_NEXT
        RenderData.finalize = R_FINALIZE
        U._queries_enabled, U._query_timeout = saved_q
        sys.stdout = REAL_STDOUT
        if out is not None:
            out.close()
        INJ = None
    gc.collect()  # whatever was kept alive by the exception is gone now
    after_all = snap_all()
    held, after = held_all[prim], after_all[prim]
    drain_master()
    res.update(events=inj.events, ncalls=inj.n, restored=(before_all == held_all == after_all), before=before, held=held,
               after=after)
    if lay is not None:
        res["terms"] = [{"before": b, "held": h, "after": a} for b, h, a in zip(before_all, held_all, after_all)]
    return res


def main():
    cases = json.loads(sys.stdin.read())
    gc.collect()
    gc.freeze()  # what is alive now is not re-examined by the gc.collect() of every run
    results = []
    for c in cases:
        try:
            results.append(run_case(c))
        except BaseException as e:  # the harness itself failed on this case
            results.append({"abort": f"driver error: {type(e).__name__}: {e}", "events": [], "ncalls": 0, "out": 0,
                            "restored": True, "before": [], "held": [], "after": [], "exc": None})
    REAL_STDOUT.write(json.dumps(results))
    REAL_STDOUT.flush()


if __name__ == "__main__":
    main()
