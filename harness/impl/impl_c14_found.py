"""C14 driver for the dimension "how the active terminal was found at import time".

Run by harness/props/c14.py as a process of its own in a prepared ENVIRONMENT: each of the
three standard streams is a terminal (a pty slave) or redirected (/dev/null), and the
process (a session leader) has that pty as its controlling terminal or has none.  The
environment is generated data; nothing here depends on a particular route.

    impl_c14_found.py <case json> <result file>

case: {"streams": [out, in, err] (1 = terminal), "ctty": 0/1, "ctty_fd": descriptor of the pty slave,
       "method": "fork" | "spawn", "window": seconds}

1. observes the environment as it really is, BEFORE the library is imported (isatty of the
   standard streams in the library's order of priority; can /dev/tty be opened);
2. imports the library (the real module initialisation of utils.py runs in this environment)
   and observes `_tty_fd != -1` and whether `multiprocessing.Process.start` / `.run` have been
   replaced;
3. when a terminal was found: the parent / child scenario with REAL processes — the parent
   starts a child with `multiprocessing.Process` (fork or spawn), enters a `@lock_tty`
   function, lets the child call its own `@lock_tty` function, stays inside for `window`
   seconds after the child has announced the call, leaves; the child finishes.  Every entry
   to / exit from a body is appended to a log in shared memory (under a lock of the
   harness's own), so the order of the log is the order of the events: a child that enters
   while the parent is inside is logged between the parent's enter and exit.  A missed
   overlap is possible (the window is finite), a false one is not.
"""
import json
import os
import sys
import warnings

REPO = os.environ.get("VERIF_REPO", "/repo")
SRC = REPO + "/src"
for p in (REPO, SRC):
    while p in sys.path:
        sys.path.remove(p)
sys.path.insert(0, SRC)
warnings.simplefilter("ignore")

LONG = 60
PARENT, CHILD = 1, 10
ENTER, EXIT = 3, 4


def observe_env():
    ttys = []
    for name in ("out", "in", "err"):  # the library's order of priority
        try:
            ttys.append(int(os.isatty(getattr(sys, f"__std{name}__").fileno())))
        except Exception:
            ttys.append(0)
    try:
        fd = os.open("/dev/tty", os.O_RDWR | os.O_NOCTTY)
        os.close(fd)
        ctty = 1
    except OSError:
        ctty = 0
    return ttys, ctty


def take_ctty():
    """the process is a session leader (start_new_session): make the terminal whose descriptor the
    harness passed along its controlling terminal, as a login shell's job would have it"""
    import fcntl
    import termios

    case = json.loads(sys.argv[1])
    fd = case.get("ctty_fd")
    if case.get("ctty") and fd is not None:
        fcntl.ioctl(fd, termios.TIOCSCTTY, 0)
    if fd is not None and fd > 2:
        os.close(fd)


ENV_SEEN = None
if __name__ == "__main__":
    take_ctty()
    ENV_SEEN = observe_env()

import term_image.utils as U  # noqa: E402

assert U.__file__.startswith(SRC), U.__file__


def log_event(lock, arr, n, who, what):
    with lock:
        k = n.value
        arr[2 * k], arr[2 * k + 1] = who, what
        n.value = k + 1


def child_main(lock, arr, n, go, about, entered):
    @U.lock_tty
    def critical():
        log_event(lock, arr, n, CHILD, ENTER)
        entered.set()
        log_event(lock, arr, n, CHILD, EXIT)

    go.wait(LONG)
    about.set()
    critical()


def scenario(method, window):
    import multiprocessing as mp

    mp.set_start_method(method, force=True)
    lock = mp.Lock()
    arr = mp.Array("i", 32, lock=False)
    n = mp.Value("i", 0, lock=False)
    go, about, entered = mp.Event(), mp.Event(), mp.Event()
    proc = mp.Process(target=child_main, args=(lock, arr, n, go, about, entered))
    proc.start()
    seen = {}

    @U.lock_tty
    def hold():
        log_event(lock, arr, n, PARENT, ENTER)
        go.set()
        seen["about"] = about.wait(LONG)
        # the child is now calling its own synchronized function
        seen["inside"] = entered.wait(window) if seen["about"] else False
        log_event(lock, arr, n, PARENT, EXIT)

    hold()
    seen["later"] = entered.wait(LONG)
    proc.join(LONG)
    if proc.is_alive():
        proc.kill()
        seen["killed"] = True
    return {"trace": [[arr[2 * k], arr[2 * k + 1]] for k in range(n.value)],
            "child_ready": bool(seen["about"]), "child_entered_while_parent_inside": bool(seen["inside"]),
            "child_entered": bool(seen["later"]), "child_exit": proc.exitcode, "killed": seen.get("killed", False)}


def main():
    import multiprocessing as mp

    case = json.loads(sys.argv[1])
    res = {"env": {"streams": ENV_SEEN[0], "ctty": ENV_SEEN[1]},
           "tty": int(U._tty_fd != -1),
           "start": int("start" in vars(mp.Process)),
           "run": int("run" in vars(mp.Process))}
    if res["tty"]:
        try:
            res.update(scenario(case.get("method", "fork"), case.get("window", 1.5)))
        except Exception as e:
            res["error"] = f"{type(e).__name__}: {e}"
    with open(sys.argv[2], "w") as f:
        json.dump(res, f)


if __name__ == "__main__":
    main()
