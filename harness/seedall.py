#!/usr/bin/env python3
"""seedall.py [-P n] [Cxx ...] — re-evaluate the recorded seeded changes (all, or those of the given
properties) with the CURRENT checks: for each /verif/seeded/<name>/ runs harness/seedeval.py with the
property's own check plus every other check that an earlier evaluation recorded for that seed
(quick tier; thorough only where an earlier evaluation needed it).  Logs under /tmp/seedlogs/final/."""
import json
import subprocess
import sys
from concurrent.futures import ThreadPoolExecutor
from pathlib import Path

VERIF = Path(__file__).resolve().parent.parent
EXTRA = {"C01-m11": ["C04"], "C04-m11": ["C11"], "C05-m11": ["C06"], "C13-m12": ["C14"], "C01-m8": ["C09", "C11"],
         "C03-m8": ["C01"], "C05-m7": ["C08", "C09"], "C05-m8": ["C19"], "C07-m7": ["C11"], "C08-m7": ["C10"],
         "C11-m7": ["C09"], "C02-m10": ["C19"],
         "C13-m14": ["C14"], "C08-m14": ["C10"], "C20-m13": ["C11", "C03"], "C03-m14": ["C20"], "C09-m14": ["C11"],
         "C02-m13": ["C01", "C04"], "C01-m13": ["C03"],
         "C01-m16": ["C03"], "C02-m15": ["C12"], "C05-m15": ["C06"], "C05-m16": ["C06"], "C07-m16": ["C13"], "C11-m16": ["C07"],
         "C19-m15": ["C03"], "C19-m16": ["C02"], "C12-m17": ["C15"], "C04-m18": ["C15", "C12"]}


def main():
    args = sys.argv[1:]
    par = 4
    if args[:1] == ["-P"]:
        par = int(args[1])
        args = args[2:]
    only = set(args)
    jobs = []
    for d in sorted((VERIF / "seeded").iterdir()):
        if not (d / "patch.diff").is_file():
            continue
        name = d.name
        pid = name.split("-")[0]
        if only and pid not in only and name not in only:
            continue
        checks, thorough = [pid], False
        if (d / "meta.json").is_file():
            m = json.loads((d / "meta.json").read_text())
            for k, v in m.get("checks", {}).items():
                c, tier = k.split(":")
                if c not in checks:
                    checks.append(c)
                if tier == "thorough" and v.get("caught"):
                    thorough = True
        for c in EXTRA.get(name, []):
            if c not in checks:
                checks.append(c)
        jobs.append((pid, str(d), name, checks, thorough))
    logdir = Path("/tmp/seedlogs/final2")
    logdir.mkdir(parents=True, exist_ok=True)

    def run(j):
        pid, d, name, checks, thorough = j
        cmd = [str(VERIF / "harness/seedeval.py"), pid, d, name, "--checks=" + ",".join(checks)]
        if not thorough:
            cmd.append("--no-thorough")
        with open(logdir / f"{name}.log", "w") as f:
            subprocess.run(cmd, stdout=f, stderr=subprocess.STDOUT)
        tail = (logdir / f"{name}.log").read_text().strip().splitlines()[-1:]
        print(name, tail[0] if tail else "?", flush=True)

    with ThreadPoolExecutor(par) as ex:
        list(ex.map(run, jobs))


if __name__ == "__main__":
    main()
