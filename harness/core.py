"""Shared machinery of the /verif checks: Coq build, Print-Assumptions audit,
evaluation of model cases inside Coq, implementation drivers, evidence, findings."""
from __future__ import annotations

import fcntl
import hashlib
import json
import os
import re
import subprocess
import sys
import time
from contextlib import contextmanager
from pathlib import Path

VERIF = Path(__file__).resolve().parent.parent
COQ = VERIF / "coq"
REPO = Path(os.environ.get("VERIF_REPO", "/repo"))
IMPL_PY = "/venv/bin/python"
GUARD = "TERM_IMAGE_VERIF"
NCPU = int(os.environ.get("VERIF_JOBS", "16"))

COQ_SUBDIRS = ["lib", "model", "proofs", "props", "gen"]

FORBIDDEN = re.compile(
    r"\b(Admitted|admit|Axiom|Axioms|Parameter|Parameters|Conjecture|Conjectures|"
    r"bypass_check|Admit Obligations)\b|Unset\s+Guard|Unset\s+Positivity|"
    r"Unset\s+Universe|-type-in-type|-impredicative-set"
)

# axioms of the standard library that a theorem may depend on (named in the trusted base)
ALLOWED_AXIOMS: dict[str, str] = {}


def impl_env() -> dict:
    env = dict(os.environ)
    env["PYTHONPATH"] = f"{REPO}/src:{REPO}:{VERIF}/harness"
    env["PYTHONHASHSEED"] = "0"
    env[GUARD] = "1"
    env["PYTHONDONTWRITEBYTECODE"] = "1"
    # never read a cached .pyc of the repository (an edit made within the same second and of
    # the same size as the cached compilation would otherwise go unnoticed): always compile
    # the working tree's source
    env["PYTHONPYCACHEPREFIX"] = "/nonexistent/verif-no-pycache"
    env.pop("PYTHONSTARTUP", None)
    return env


@contextmanager
def build_lock():
    lock = open(VERIF / ".build.lock", "w")
    try:
        fcntl.flock(lock, fcntl.LOCK_EX)
        yield
    finally:
        fcntl.flock(lock, fcntl.LOCK_UN)
        lock.close()


def sh(cmd, *, cwd=None, timeout=600, env=None, input=None):
    """Run, return (rc, stdout+stderr)."""
    try:
        p = subprocess.run(
            cmd,
            cwd=cwd,
            env=env,
            input=input,
            stdout=subprocess.PIPE,
            stderr=subprocess.STDOUT,
            timeout=timeout,
            text=True,
            shell=isinstance(cmd, str),
        )
        return p.returncode, p.stdout
    except subprocess.TimeoutExpired as e:
        out = e.stdout or ""
        if isinstance(out, bytes):
            out = out.decode(errors="replace")
        return 124, out + f"\n[timeout after {timeout}s]"


# --------------------------------------------------------------------------- build


def write_if_changed(path: Path, text: str) -> bool:
    if path.exists() and path.read_text() == text:
        return False
    path.parent.mkdir(parents=True, exist_ok=True)
    path.write_text(text)
    return True


_DEADLINE = [None]


def start_budget(seconds: float):
    """The check driver calls this once: after `seconds` of wall time the OPTIONAL work of a run
    (shrinking a failing input further, neighbourhood searches after a violation was already
    found) stops, so that a run on a violating tree still ends in bounded time.  It never cuts
    the main evaluation, and never turns a found violation into silence."""
    _DEADLINE[0] = time.time() + seconds


def over_budget() -> bool:
    return _DEADLINE[0] is not None and time.time() > _DEADLINE[0]


def regenerate() -> list[str]:
    """Run the translators (source of /repo -> coq/gen/*.v).  Returns error strings
    (a translator that refuses the source is an obligation that no longer checks)."""
    errors = []
    gen_dir = VERIF / "harness" / "tx"
    if not gen_dir.is_dir():
        return errors
    for tx in sorted(gen_dir.glob("tx_*.py")):
        rc, out = sh([IMPL_PY, str(tx)], cwd=VERIF, env=impl_env(), timeout=120)
        if rc != 0:
            errors.append(f"{tx.name}: {out.strip()[-2000:]}")
    return errors


def v_files() -> list[str]:
    fs = []
    for d in COQ_SUBDIRS:
        fs += sorted(str(p.relative_to(COQ)) for p in (COQ / d).glob("*.v"))
    return fs


def ensure_makefile():
    files = v_files()
    stamp = COQ / ".filelist"
    text = "\n".join(files) + "\n"
    if not (COQ / "Makefile").exists() or not stamp.exists() or stamp.read_text() != text:
        rc, out = sh(
            ["coq_makefile", "-f", "_CoqProject", "-o", "Makefile"] + files, cwd=COQ
        )
        if rc != 0:
            raise RuntimeError("coq_makefile failed: " + out)
        stamp.write_text(text)


def make(targets: list[str], timeout=1500, jobs=NCPU):
    ensure_makefile()
    return sh(
        ["make", f"-j{jobs}", "-k"] + targets, cwd=COQ, timeout=timeout, env=dict(os.environ)
    )


def cone(vfile: str) -> list[str]:
    """.v files (relative to coq/) that vfile transitively requires from this project."""
    seen, todo = [], [vfile]
    while todo:
        f = todo.pop()
        if f in seen:
            continue
        seen.append(f)
        p = COQ / f
        if not p.exists():
            continue
        txt = p.read_text()
        for m in re.finditer(r"From\s+TI\s+Require\s+(?:Import\s+|Export\s+)?(.+?)\.(?:\s|$)", txt, flags=re.S):
            for mod in m.group(1).split():
                todo.append(mod.replace(".", "/") + ".v")
        for m in re.finditer(r"(?<!TI\s)Require\s+(?:Import\s+|Export\s+)?((?:TI\.[\w.]+\s*)+)\.(?:\s|$)", txt):
            for mod in m.group(1).split():
                todo.append(mod[3:].replace(".", "/") + ".v")
    return seen


def strip_comments(txt: str) -> str:
    out, depth, i = [], 0, 0
    while i < len(txt):
        if txt.startswith("(*", i):
            depth += 1
            i += 2
        elif txt.startswith("*)", i) and depth:
            depth -= 1
            i += 2
        else:
            if depth == 0:
                out.append(txt[i])
            i += 1
    return "".join(out)


def audit_cone(files: list[str]) -> list[str]:
    bad = []
    for f in files:
        p = COQ / f
        if not p.exists():
            bad.append(f"{f}: missing")
            continue
        txt = strip_comments(p.read_text())
        txt = re.sub(r'"[^"]*"', '""', txt)
        for m in FORBIDDEN.finditer(txt):
            bad.append(f"{f}: forbidden `{m.group(0)}`")
        # top-level Variable/Hypothesis outside a Section
        depth = 0
        for line in txt.splitlines():
            s = line.strip()
            if re.match(r"Section\s+\w+", s):
                depth += 1
            elif re.match(r"End\s+\w+", s) and depth:
                depth -= 1
            elif depth == 0 and re.match(r"(Variable|Variables|Hypothesis|Hypotheses|Context)\b", s):
                bad.append(f"{f}: `{s[:40]}` outside a Section")
    return bad


class Obligations:
    def __init__(self):
        self.items: list[dict] = []  # name, ok, detail

    def add(self, name, ok, detail=""):
        self.items.append({"name": name, "ok": bool(ok), "detail": detail})

    @property
    def total(self):
        return len(self.items)

    @property
    def discharged(self):
        return sum(1 for i in self.items if i["ok"])

    @property
    def broken(self):
        return [i for i in self.items if not i["ok"]]


def check_props(pid: str, obl: Obligations, allowed_axioms=(), extra_targets=()) -> dict:
    """Build the cone of props/<pid>.v, recompile that file to capture Print Assumptions,
    audit.  Every `Theorem` in the file is one obligation."""
    rel = f"props/{pid}.v"
    src = (COQ / rel).read_text()
    theorems = re.findall(r"^\s*Theorem\s+(\w+)", strip_comments(src), flags=re.M)
    info = {"theorems": theorems, "assumptions": {}, "build_output_tail": ""}
    with build_lock():
        errs = regenerate()
        # a translator that refuses the source breaks only the properties whose cone contains
        # the file it generates (tx_<x>.py -> gen/<X>.v)
        gen_of = {"tx_consts.py": "gen/Consts.v", "tx_regex.py": "gen/Regexes.v",
                  "tx_skel.py": "gen/Skeletons.v", "tx_pure.py": "gen/Pure.v",
                  "tx_screen.py": "gen/ScreenSkel.v", "tx_locks.py": "gen/LockRegions.v",
                  "tx_sizing.py": "gen/SizingSrc.v", "tx_decide.py": "gen/Decide.v", "tx_iter.py": "gen/IterSrc.v", "tx_chunks.py": "gen/ChunksSrc.v", "tx_query.py": "gen/QuerySrc.v", "tx_oldpad.py": "gen/OldPad.v", "tx_block.py": "gen/BlockSrc.v", "tx_zindex.py": "gen/ZIndexSrc.v", "tx_memo.py": "gen/MemoSrc.v", "tx_settings.py": "gen/SettingsSrc.v", "tx_close.py": "gen/CloseSrc.v", "tx_queryprog.py": "gen/QueryProgSrc.v", "tx_cachekey.py": "gen/CacheKeySrc.v", "tx_attrfd.py": "gen/AttrFd.v"}
        pre_cone = set(cone(rel))
        for t in extra_targets:
            pre_cone |= set(cone(t[:-1]))
        for e in errs:
            g = gen_of.get(e.split(":", 1)[0])
            if g is None or g in pre_cone:
                obl.add("translator", False, e)
        vo = COQ / f"props/{pid}.vo"
        if vo.exists():
            vo.unlink()
        rc, out = make([f"props/{pid}.vo"] + list(extra_targets))
    info["build_output_tail"] = out[-3000:]
    files = cone(rel)
    for t in extra_targets:
        for f in cone(t[:-1]):
            if f not in files:
                files.append(f)
    info["cone"] = files
    bad = audit_cone(files)
    obl.add(f"audit:{pid}:no Admitted/Axiom/Parameter/unchecked in cone ({len(files)} files)", not bad, "; ".join(bad))
    if rc != 0 or not (COQ / f"props/{pid}.vo").exists():
        # which theorems are still fine?  try to learn from the error location
        m = re.search(r'File "\./([^"]+)", line (\d+)', out)
        where = f"{m.group(1)}:{m.group(2)}" if m else "?"
        err = out.strip().splitlines()[-12:]
        for t in theorems:
            obl.add(f"theorem:{t}", False, f"build failed at {where}: " + " | ".join(err)[-600:])
        info["build_failed_at"] = where
        return info
    # parse Print Assumptions blocks in order
    blocks = re.split(r"(?m)^(?=Closed under the global context|Axioms:)", out)
    blocks = [b for b in blocks if b.startswith("Closed under") or b.startswith("Axioms:")]
    if len(blocks) != len(theorems):
        for t in theorems:
            obl.add(f"theorem:{t}", False, f"Print Assumptions count {len(blocks)} != theorems {len(theorems)}")
        return info
    for t, b in zip(theorems, blocks):
        if b.startswith("Closed under"):
            info["assumptions"][t] = []
            obl.add(f"theorem:{t}", True, "closed under the global context")
        else:
            names = re.findall(r"(?m)^([A-Za-z_][\w.']*)\s*:", b)
            info["assumptions"][t] = names
            extra = [n for n in names if n not in allowed_axioms]
            obl.add(f"theorem:{t}", not extra, "axioms: " + ", ".join(names))
    return info


# ----------------------------------------------------------------- Coq evaluation


def coq_eval_file(name: str, text: str, timeout=900):
    """Compile a scratch .v under coq/cases; return (rc, output)."""
    d = COQ / "cases"
    d.mkdir(exist_ok=True)
    p = d / f"{name}.v"
    p.write_text(text)
    try:
        rc, out = sh(
            f"ulimit -s unlimited 2>/dev/null; exec coqc -Q . TI -w none cases/{name}.v",
            cwd=COQ,
            timeout=timeout,
        )
    finally:
        for ext in (".v", ".vo", ".vok", ".vos", ".glob"):
            q = d / f"{name}{ext}"
            if q.exists() and not os.environ.get("VERIF_KEEP_CASES"):
                q.unlink()
        aux = d / f".{name}.aux"
        if aux.exists():
            aux.unlink()
    return rc, out


def parse_evals(out: str) -> list[str]:
    """Values printed by `Eval vm_compute in e.` (one string per Eval)."""
    vals = []
    for m in re.finditer(r"(?ms)^\s*= (.*?)^\s*: ", out):
        vals.append(" ".join(m.group(1).split()))
    return vals


def parse_nat_pairs(s: str) -> list[tuple[int, int]]:
    return [(int(a), int(b)) for a, b in re.findall(r"\((\d+)(?:%\w+)?\s*,\s*(\d+)(?:%\w+)?\)", s)]


def coq_shards(prefix: str, header: str, case_terms: list[str], case_type: str,
               eval_expr: str, shard=300, timeout=900):
    """Evaluate `eval_expr` (a term mentioning `cases`) over shards of case terms in
    parallel.  Returns (list of (global_index, code)), errors)."""
    from concurrent.futures import ThreadPoolExecutor

    shards = [case_terms[i : i + shard] for i in range(0, len(case_terms), shard)]
    results, errors = [], []

    def one(k):
        body = ";\n  ".join(shards[k])
        text = (
            header
            + f"\nDefinition cases : list ({case_type}) :=\n [ {body} ].\n"
            + "Set Printing Width 1000000.\nSet Printing Depth 1000000.\n"
            + f"Eval vm_compute in ({eval_expr}).\n"
        )
        rc, out = coq_eval_file(f"{prefix}_{os.getpid()}_{k}", text, timeout=timeout)
        if rc != 0:
            return k, None, out[-1500:]
        vals = parse_evals(out)
        if len(vals) != 1:
            return k, None, "unparsable: " + out[-500:]
        return k, parse_nat_pairs(vals[0]), None

    with ThreadPoolExecutor(max_workers=NCPU) as ex:
        for k, pairs, err in ex.map(one, range(len(shards))):
            if err is not None:
                errors.append(f"shard {k}: {err}")
            else:
                results += [(k * shard + i, c) for i, c in pairs]
    return results, errors


# ------------------------------------------------------------ implementation side


def _limit_memory():
    # a runaway implementation process (e.g. a format specifier asking for a 10 GB padded box)
    # must fail by itself instead of taking the machine down
    import resource
    lim = 24 * 2**30
    try:
        resource.setrlimit(resource.RLIMIT_AS, (lim, lim))
    except (ValueError, OSError):
        pass


def run_impl(script: str, payload, timeout=900):
    """Run harness/impl/<script> with the implementation's python; JSON in, JSON out."""
    p = subprocess.run(
        [IMPL_PY, str(VERIF / "harness" / "impl" / script)],
        preexec_fn=_limit_memory,
        input=json.dumps(payload),
        stdout=subprocess.PIPE,
        stderr=subprocess.PIPE,
        text=True,
        env=impl_env(),
        timeout=timeout,
        cwd="/",
    )
    if p.returncode != 0:
        raise RuntimeError(f"impl driver {script} failed rc={p.returncode}: {p.stderr[-3000:]}")
    return json.loads(p.stdout)


def run_impl_parallel(script: str, cases: list, chunk=None, timeout=900):
    from concurrent.futures import ThreadPoolExecutor

    if not cases:
        return []
    chunk = chunk or max(1, (len(cases) + NCPU - 1) // NCPU)
    parts = [cases[i : i + chunk] for i in range(0, len(cases), chunk)]
    with ThreadPoolExecutor(max_workers=NCPU) as ex:
        outs = list(ex.map(lambda c: run_impl(script, c, timeout=timeout), parts))
    res = []
    for o in outs:
        res += o
    return res


# ------------------------------------------------------------- findings, evidence


def load_findings() -> dict:
    p = VERIF / "KNOWN_FINDINGS.json"
    if p.exists():
        return json.loads(p.read_text())
    return {"findings": [], "fixed": []}


def repo_state() -> dict:
    rc, head = sh(["git", "-C", str(REPO), "rev-parse", "HEAD"])
    rc2, st = sh(["git", "-C", str(REPO), "status", "--porcelain"])
    return {"head": head.strip(), "dirty_files": [l[3:] for l in st.splitlines() if l.strip()][:20]}


def sig(obj) -> str:
    return hashlib.sha1(json.dumps(obj, sort_keys=True).encode()).hexdigest()[:12]


def z(n: int) -> str:
    return f"({n})%Z" if n < 0 else f"{n}%Z"


def coq_list(items, f=str) -> str:
    return "[" + "; ".join(f(i) for i in items) + "]"
