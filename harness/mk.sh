#!/bin/bash
# usage: mk.sh target.vo ... ; builds with the project Makefile under the build lock
cd /verif && /venv/bin/python - "$@" <<'PY'
import sys; sys.path.insert(0,'harness'); import core
with core.build_lock():
    core.ensure_makefile()
    rc,out=core.make(sys.argv[1:])
print(out[-3000:]); sys.exit(rc)
PY
