#!/usr/bin/env python3
"""seedeval.py <PID> <dir-with-patch.diff+demo.py[+notes.md]> <name> [--checks C01,C05] [--no-thorough]

Confirms a seeded change (produced independently, outside /verif) and runs the checks on it:
  1. scratch worktree of /repo: demo passes on the clean tree, fails with the patch; the
     repository's test-suite has the baseline totals with the patch;
  2. harness/seedtest.sh: ./check <PID> quick (then thorough if quick missed it) against the
     patched worktree, from a scratch copy of /verif;
  3. records everything in /verif/seeded/<name>/ (patch.diff, demo.py, notes.md, meta.json).
/repo itself is never modified.  Worktrees are removed afterwards."""
import json
import re
import shutil
import subprocess
import sys
import time
from pathlib import Path

VERIF = Path(__file__).resolve().parent.parent
PY = "/venv/bin/python"


def _default_sigint():
    # a shell that starts this script with `&` leaves SIGINT ignored; a demo that sends itself a
    # real SIGINT needs Python's default handler, which is only installed when SIGINT is not ignored
    import signal
    signal.signal(signal.SIGINT, signal.SIG_DFL)


def sh(cmd, **kw):
    p = subprocess.run(cmd, preexec_fn=_default_sigint, shell=isinstance(cmd, str), stdout=subprocess.PIPE, stderr=subprocess.STDOUT, text=True, **kw)
    return p.returncode, p.stdout


def main():
    pid, src, name = sys.argv[1], Path(sys.argv[2]).resolve(), sys.argv[3]
    checks = [pid]
    thorough = True
    for a in sys.argv[4:]:
        if a.startswith("--checks"):
            checks = a.split("=", 1)[1].split(",")
        if a == "--no-thorough":
            thorough = False
    patch, demo = src / "patch.diff", src / "demo.py"
    assert patch.is_file() and demo.is_file(), "patch.diff / demo.py missing"
    wt = Path(f"/tmp/vseed/eval_{name}_{int(time.time())}")
    wt.parent.mkdir(exist_ok=True)
    meta = {"property": pid, "name": name, "ran": []}
    rc, out = sh(["git", "-C", "/repo", "worktree", "add", "-q", "--detach", str(wt), "HEAD"])
    assert rc == 0, out
    try:
        env = {"PYTHONPATH": f"{wt}/src:{wt}", "PATH": "/usr/bin:/bin", "PYTHONHASHSEED": "0", "HOME": "/root",
               "PYTHONDONTWRITEBYTECODE": "1", "PYTHONUNBUFFERED": "1", "PYTHONPYCACHEPREFIX": "/nonexistent/verif-no-pycache"}
        rc0, o0 = sh([PY, str(demo)], env=env, cwd=str(wt), timeout=600)
        meta["ran"].append({"cmd": f"PYTHONPATH=<tree>/src:<tree> {PY} demo.py   # clean tree", "rc": rc0})
        rc, o = sh(["git", "-C", str(wt), "apply", str(patch)])
        assert rc == 0, "patch does not apply: " + o
        rc1, o1 = sh([PY, str(demo)], env=env, cwd=str(wt), timeout=600)
        meta["ran"].append({"cmd": f"PYTHONPATH=<tree>/src:<tree> {PY} demo.py   # with patch", "rc": rc1, "tail": o1[-400:]})
        rct, ot = sh(f"cd {wt} && PYTHONPATH={wt}/src {PY} -m pytest -q -p no:cacheprovider --timeout=900 --continue-on-collection-errors tests 2>&1 | tail -3", timeout=1800)
        tot = ot.strip().splitlines()[-1] if ot.strip() else ""
        meta["ran"].append({"cmd": "pytest -q -p no:cacheprovider --timeout=900 --continue-on-collection-errors tests   # with patch", "totals": tot})
        suite_ok = bool(re.search(r"4 failed, 1178 passed.*1 error", tot))
        meta["demo_passes_clean"] = rc0 == 0
        meta["demo_fails_patched"] = rc1 != 0
        meta["suite_baseline_with_patch"] = suite_ok
    finally:
        sh(["git", "-C", "/repo", "worktree", "remove", "--force", str(wt)])
    print(f"[{name}] demo clean rc={rc0} patched rc={rc1}; suite: {tot}")
    confirmed = rc0 == 0 and rc1 != 0 and suite_ok
    meta["confirmed"] = confirmed
    results = {}
    if confirmed:
        for c in checks:
            for tier in ["quick"] + (["thorough"] if thorough else []):
                t0 = time.time()
                rc, out = sh([str(VERIF / "harness/seedtest.sh"), c, str(patch), tier], timeout=7200)
                lines = [l for l in out.splitlines() if l.startswith("VIOLATION") or l.startswith("[C") or l.startswith("  failure") or l.startswith("  broken") or l.startswith("  mismatch")]
                results[f"{c}:{tier}"] = {"caught": rc == 0, "wall_s": round(time.time() - t0, 1), "lines": [l[:400] for l in lines[:8]]}
                print(f"[{name}] ./check {c} --tier {tier}: {'CAUGHT' if rc == 0 else 'missed'}")
                for l in lines[:6]:
                    print("    " + l[:300])
                if rc == 0:
                    break
    meta["checks"] = results
    meta["caught"] = any(r["caught"] for r in results.values())
    dst = VERIF / "seeded" / name
    dst.mkdir(parents=True, exist_ok=True)
    if src.resolve() != dst.resolve():
        shutil.copy(patch, dst / "patch.diff")
        shutil.copy(demo, dst / "demo.py")
    if (src / "notes.md").is_file():
        if src.resolve() != dst.resolve():
            shutil.copy(src / "notes.md", dst / "notes.md")
        meta["needs"] = "see notes.md"
    (dst / "meta.json").write_text(json.dumps(meta, indent=1))
    print(json.dumps({k: meta[k] for k in ("confirmed", "caught")}))


if __name__ == "__main__":
    main()
