#!/venv/bin/python
"""Regenerates /verif/MANIFEST.json from the table below (kept valid at all times)."""
import json
from pathlib import Path

VERIF = Path(__file__).resolve().parent.parent
CLAIMS = {}
exec((VERIF / "harness" / "claims.py").read_text(), CLAIMS)
claims, pending = CLAIMS["CLAIMS"], CLAIMS["PENDING"]
props = [json.loads(l) for l in (VERIF / "properties.jsonl").read_text().splitlines() if l.strip()]
checks, na = [], []
for p in props:
    pid = p["id"]
    if pid in claims:
        c = claims[pid]
        checks.append({
            "property_id": pid,
            "quick_cmd": f"./check {pid} --tier quick",
            "thorough_cmd": f"./check {pid} --tier thorough",
            "evidence_file": f"/verif/evidence/{pid}.json",
            "replay_cmd_template": f"./check {pid} --replay {{path}}",
            "engine": "coq-proof+correspondence",
            "level_claimed": {"category": c.get("category", "proof"), "text": c["text"], "design_ref": c["design_ref"]},
            "level_note": c["note"],
            "technique": c["technique"],
        })
    else:
        na.append({"property_id": pid, "reason": pending.get(pid, "no check registered yet; planned per DESIGN.md section 4")})
m = {
    "version": 1,
    "setup_cmd": "cd /verif && ./setup.sh",
    "hooks": {
        "guard": "TERM_IMAGE_VERIF",
        "enable": "no source hooks: drivers import /repo/src with PYTHONPATH and monkey-patch module attributes; TERM_IMAGE_VERIF=1 is exported by the harness but no code in /repo reads it",
        "baseline_off_cmd": "/verif/harness/baseline.py",
        "source_commits": [],
        "add_only": True,
    },
    "engines": [{
        "name": "coq-proof+correspondence", "path": "/verif/check",
        "serves_properties": sorted(claims),
        "kind_free_text": "Coq 8.16.1 theorems over hand-written Gallina models (coq/model, coq/proofs, coq/props) and translated source fragments (coq/gen); model tied to /repo by differential correspondence evaluated inside Coq (vm_compute) against the implementation run by /venv/bin/python",
    }],
    "checks": checks,
    "not_applicable": na,
    "notes": "See DESIGN.md. Repairs of genuine defects are 'fix:' commits in /repo, listed in KNOWN_FINDINGS.json.",
}
(VERIF / "MANIFEST.json").write_text(json.dumps(m, indent=1) + "\n")
print(f"MANIFEST.json: {len(checks)} checks, {len(na)} not claimed")
