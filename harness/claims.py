# Claimed properties: one JSON file per property in harness/claims.d/<ID>.json
# with keys text, design_ref, note, technique (and optionally category).
import json as _json
from pathlib import Path as _Path

CLAIMS = {p.stem: _json.loads(p.read_text()) for p in sorted((_Path("/verif/harness/claims.d")).glob("C*.json"))}
PENDING = {}
