# Table of claimed properties (read by mkmanifest.py).
CLAIMS = {
    "C20": {
        "text": "Theorems (Coq, all kinds of inheritable setting, all single-inheritance class forests, all histories of "
                "set/unset/invalid operations): effective value = own, else nearest ancestor's, else default; unset follows the "
                "next level; class/instance operations are local; rejected operations change nothing and exactly the invalid "
                "values are rejected; per-call override wins; native-anim limit is global.  The model (Python attribute lookup "
                "over class/instance dictionaries, operations written as the code performs them) is tied to the code by a "
                "differential correspondence on generated forests and histories, judged inside Coq against both the model and "
                "the history-level specification.",
        "design_ref": "4/C20",
        "note": "Trusts: Coq kernel+VM; the hand-written model of Python attribute resolution (single inheritance); the "
                "correspondence harness. Closed under the global context (no axioms).",
        "technique": "Coq proof by induction over histories (representation invariant) + differential correspondence of the executable model",
    },
}
PENDING = {}
