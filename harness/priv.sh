#!/bin/bash
# priv.sh <check args...> : run ./check from a private rsync copy of /verif (own build lock and
# coq/gen), against /repo (or $VERIF_REPO).  For development while other builds hold /verif's lock.
mkdir -p /tmp/vseed
rsync -a --delete --exclude .git --exclude replays --exclude 'coq/cases' /verif/ /tmp/vseed/priv_${PRIV_TAG:-default}/
mkdir -p /tmp/vseed/priv_${PRIV_TAG:-default}/replays
cd /tmp/vseed/priv_${PRIV_TAG:-default} && ./check "$@"
