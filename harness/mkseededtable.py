#!/usr/bin/env python3
"""Generates /verif/seeded/README.md (and the table between the SEEDED-TABLE markers of
DESIGN.md) from the seeded/<name>/meta.json files written by harness/seedeval.py."""
import json
import re
from pathlib import Path

VERIF = Path(__file__).resolve().parent.parent


def first_line(p: Path) -> str:
    if not p.is_file():
        return ""
    for line in p.read_text().splitlines():
        t = line.strip().lstrip("#").strip()
        if t:
            return t[:160]
    return ""


rows = []
for d in sorted((VERIF / "seeded").iterdir()):
    m = d / "meta.json"
    if not m.is_file():
        continue
    meta = json.loads(m.read_text())
    checks = meta.get("checks", {})
    caught_by = [k for k, v in checks.items() if v.get("caught")]
    missed_by = [k for k, v in checks.items() if not v.get("caught")]
    what = meta.get("what") or first_line(d / "notes.md")
    rows.append((d.name, meta.get("property"), "yes" if meta.get("confirmed") else "NO",
                 ", ".join(caught_by) or "—", ", ".join(missed_by) or "—", what.replace("|", "/")))

lines = ["| seeded change | property | confirmed | caught by (check:tier) | not caught by | what |",
         "|---|---|---|---|---|---|"]
lines += ["| " + " | ".join(r) + " |" for r in rows]
table = "\n".join(lines)
n_conf = sum(1 for r in rows if r[2] == "yes")
n_caught = sum(1 for r in rows if r[2] == "yes" and r[3] != "—")
summary = f"{len(rows)} seeded changes, {n_conf} confirmed, {n_caught} of those caught by at least one check."
(VERIF / "seeded" / "README.md").write_text(
    "# Seeded changes\n\nEach directory: `patch.diff` (applies to /repo with `git apply`), `demo.py` (passes on the clean "
    "tree, fails with the patch), `notes.md` (author's description), `meta.json` (what was run here and the checks' "
    "verdicts).  A check is run from a scratch copy of /verif against a scratch worktree of /repo with the patch "
    "(`harness/seedtest.sh`); /repo itself is never modified.\n\n" + summary + "\n\n" + table + "\n")
design = VERIF / "DESIGN.md"
txt = design.read_text()
block = f"<!-- SEEDED-TABLE-BEGIN -->\n{summary}\n\n{table}\n<!-- SEEDED-TABLE-END -->"
if "<!-- SEEDED-TABLE-BEGIN -->" in txt:
    txt = re.sub(r"<!-- SEEDED-TABLE-BEGIN -->.*?<!-- SEEDED-TABLE-END -->", lambda _: block, txt, flags=re.S)
else:
    txt += "\n### 10.7 Table of seeded changes (generated)\n\n" + block + "\n"
design.write_text(txt)
print(summary)
