"""Fail-closed lexer: terminal output text -> tokens of coq/lib/Term.v.

Tokens are tuples; `coq_tok` renders one as a Gallina term.  Anything the model does not
know (an unknown control sequence, a C0 control other than NUL/CR/LF, a glyph that is not
one column wide) raises LexError: for C01/C03 an unlexable render is itself a finding.
A sequence that the text ends in the middle of becomes ('cut', kind).
"""
from __future__ import annotations

import base64
import re
import unicodedata

ESC = "\x1b"


class LexError(Exception):
    pass


def _glyph(ch):
    if ch == " ":
        return ("char", "space")
    if ch == "▀":
        return ("char", "upper")
    if ch == "▄":
        return ("char", "lower")
    o = ord(ch)
    if o < 0x20 or o == 0x7F or 0x80 <= o < 0xA0:
        raise LexError(f"unexpected control character {o:#x}")
    if unicodedata.combining(ch) or unicodedata.east_asian_width(ch) in ("W", "F"):
        raise LexError(f"glyph {ch!r} is not one column wide")
    return ("char", o)


_CSI_FINAL = re.compile(r"[\x40-\x7e]")


def _csi(body, final):
    if final == "m":
        if body in ("", "0"):
            return ("sgr0",)
        m = re.fullmatch(r"(38|48);2;(\d+);(\d+);(\d+)", body)
        if not m:
            raise LexError(f"unknown SGR {body!r}")
        return ("fg" if m[1] == "38" else "bg", int(m[2]), int(m[3]), int(m[4]))
    if final in "ABCDX":
        if not re.fullmatch(r"\d*", body):
            raise LexError(f"bad parameter {body!r} for CSI {final}")
        n = int(body) if body else 0
        return ({"A": "cuu", "B": "cud", "C": "cuf", "D": "cub", "X": "ech"}[final], n)
    if final in "hl" and body in ("?25", "?2026"):
        return {("?25", "h"): ("show",), ("?25", "l"): ("hide",),
                ("?2026", "h"): ("syncb",), ("?2026", "l"): ("synce",)}[(body, final)]
    raise LexError(f"unknown CSI sequence {body!r}{final!r}")


def _kitty(content):
    keys, sep, payload = content.partition(";")
    kv = {}
    for item in keys.split(","):
        if not item:
            continue
        k, eq, v = item.partition("=")
        if not eq or k in kv:
            raise LexError(f"malformed kitty control data {keys!r}")
        kv[k] = v
    if kv.get("a") == "d":
        d = kv.get("d", "a")
        if set(kv) - {"a", "d", "z"} or payload:
            raise LexError(f"unknown kitty delete {keys!r}")
        if d in "aA" and "z" not in kv:
            return ("kdel", "all")
        if d in "cC" and "z" not in kv:
            return ("kdel", "cursor")
        if d in "zZ" and "z" in kv:
            return ("kdel", "z", int(kv["z"]))
        raise LexError(f"unknown kitty delete {keys!r}")
    if set(kv) == {"m"}:
        if kv["m"] not in "01":
            raise LexError("bad m")
        return ("kcont", kv["m"] == "1", len(payload), payload)
    if set(kv) == {"q", "m"} and kv["q"] == "1" and kv["m"] == "0" and not payload:
        return ("kend",)
    if kv.get("a") == "T":
        known = {"a", "f", "t", "s", "v", "z", "o", "C", "c", "r", "m"}
        if set(kv) - known:
            raise LexError(f"unknown kitty keys {sorted(set(kv) - known)}")
        if "c" not in kv or "r" not in kv:
            raise LexError("kitty transmission without c/r")
        return ("kfirst", {"c": int(kv["c"]), "r": int(kv["r"]), "z": int(kv.get("z", "0")),
                           "C": kv.get("C", "0") == "1", "f": int(kv.get("f", "32")),
                           "s": int(kv["s"]) if "s" in kv else None, "v": int(kv["v"]) if "v" in kv else None,
                           "o": kv.get("o"), "t": kv.get("t", "d")},
                kv.get("m", "0") == "1", len(payload), payload)
    raise LexError(f"unknown kitty command {keys!r}")


def _iterm(content):
    if not content.startswith("1337;File="):
        raise LexError(f"unknown OSC {content[:20]!r}")
    args, sep, payload = content[len("1337;File="):].partition(":")
    if not sep:
        raise LexError("iterm2 command without payload")
    kv = {}
    for item in args.split(";"):
        if not item:
            continue
        k, eq, v = item.partition("=")
        if not eq or k in kv:
            raise LexError(f"malformed iterm2 arguments {args!r}")
        kv[k] = v
    known = {"size", "width", "height", "preserveAspectRatio", "inline", "doNotMoveCursor"}
    if set(kv) - known or kv.get("inline") != "1" or kv.get("preserveAspectRatio") != "0":
        raise LexError(f"unexpected iterm2 arguments {args!r}")
    try:
        decoded = len(base64.standard_b64decode(payload))
    except Exception as e:
        raise LexError(f"iterm2 payload is not base64: {e}")
    return ("iterm", int(kv["width"]), int(kv["height"]), kv.get("doNotMoveCursor") == "1",
            int(kv["size"]) if "size" in kv else -1, decoded, payload)


def lex(s: str):
    toks = []
    i, n = 0, len(s)
    while i < n:
        ch = s[i]
        if ch == ESC:
            if i + 1 >= n:
                toks.append(("cut", "csi"))
                break
            k = s[i + 1]
            if k == "[":
                m = _CSI_FINAL.search(s, i + 2)
                if not m or ESC in s[i + 2:m.start()]:
                    # cut by the end of the text (or aborted by the next ESC)
                    j = s.find(ESC, i + 2)
                    toks.append(("cut", "csi"))
                    if j < 0:
                        break
                    i = j
                    continue
                toks.append(_csi(s[i + 2:m.start()], m.group(0)))
                i = m.end()
            elif k in "_]":
                j = s.find(ESC + "\\", i + 2)
                jb = s.find("\x07", i + 2) if k == "]" else -1
                if jb >= 0 and (j < 0 or jb < j):
                    end, nxt = jb, jb + 1
                else:
                    end, nxt = j, j + 2
                if end < 0:
                    toks.append(("cut", "apc" if k == "_" else "osc"))
                    break
                content = s[i + 2:end]
                if k == "_":
                    if not content.startswith("G"):
                        raise LexError(f"unknown APC {content[:10]!r}")
                    toks.append(_kitty(content[1:]))
                else:
                    toks.append(_iterm(content))
                i = nxt
            elif k == "\\":
                toks.append(("st",))
                i += 2
            else:
                raise LexError(f"unknown escape ESC {k!r}")
        elif ch == "\n":
            toks.append(("lf",))
            i += 1
        elif ch == "\r":
            toks.append(("cr",))
            i += 1
        elif ch == "\0":
            toks.append(("nul",))
            i += 1
        else:
            toks.append(_glyph(ch))
            i += 1
    return toks


def _z(n):
    return f"({n})" if n < 0 else str(n)


def coq_tok(t) -> str:
    k = t[0]
    if k == "char":
        g = t[1]
        return "TChar " + ({"space": "GSpace", "upper": "GUpper", "lower": "GLower"}.get(g) or f"(GOther {g})")
    if k in ("nul", "cr", "lf", "sgr0", "hide", "show", "syncb", "synce", "st"):
        return {"nul": "TNul", "cr": "TCR", "lf": "TLF", "sgr0": "TSgr0", "hide": "THide", "show": "TShow",
                "syncb": "TSyncB", "synce": "TSyncE", "st": "TSt"}[k]
    if k in ("fg", "bg"):
        return f"T{k.capitalize()} ({t[1]},{t[2]},{t[3]})"
    if k in ("cuu", "cud", "cuf", "cub", "ech"):
        return f"T{k.capitalize()} {t[1]}"
    if k == "kfirst":
        kk = t[1]
        return (f"TKittyFirst {{| kk_cols := {kk['c']}; kk_rows := {kk['r']}; kk_z := {_z(kk['z'])}; "
                f"kk_stay := {'true' if kk['C'] else 'false'} |}} {'true' if t[2] else 'false'} {t[3]}")
    if k == "kcont":
        return f"TKittyCont {'true' if t[1] else 'false'} {t[2]}"
    if k == "kend":
        return "TKittyEnd"
    if k == "kdel":
        return "TKittyDel " + {"all": "DelAll", "cursor": "DelCursor"}.get(t[1], f"(DelZ {_z(t[2]) if len(t) > 2 else 0})")
    if k == "iterm":
        return f"TIterm {t[1]} {t[2]} {'true' if t[3] else 'false'} {_z(t[4])} {t[5]}"
    if k == "cut":
        return "TCut " + {"csi": "CutCsi", "osc": "CutOsc", "apc": "CutApc"}[t[1]]
    raise ValueError(t)


def coq_toks(toks) -> str:
    return "[" + "; ".join(coq_tok(t) for t in toks) + "]"
