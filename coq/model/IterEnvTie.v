(** Executable comparison used by the C08 correspondence for histories in a CHANGING
    environment ([model/IterEnv.v]): terminal resizes between operations, client writes to
    [iterator.loop], and a second iterator made over the render data a first one worked on.
    The instrumented renderable, the decidable equalities and the stamp erasure are those of
    [model/IterTie.v]. *)
From Coq Require Import List ZArith Bool Arith.
Import ListNotations.
From TI Require Import model.Iter model.IterSpec model.IterTie model.IterEnv model.IterSession.
Open Scope Z_scope.

Record ecase := {
  e_n : option Z;
  e_total : Z;
  e_faults : list (nat * Z);
  e_ffaults : list (Z * Z);
  e_stamp : bool;
  e_term0 : size;                (* terminal size when the (first) iterator is constructed *)
  e_cfg : config;
  e_hist : list ev;              (* events: (terminal size in force, operation | write to .loop) *)
  e_ctor : option err;           (* observed: None = constructed *)
  e_obs : list (out * Z);        (* observed, per event: outcome, iterator.loop read back *)
  e_tells : list Z;              (* observed: renderable.tell() after every event *)
  (* a second iterator made over the same render data once the first has been dropped:
     terminal size at that moment, its configuration, its events *)
  e_second : option (size * config * list ev);
  e_ctor2 : option err;
  e_obs2 : list (out * Z);
  e_tells2 : list Z;
  e_log : list rcall             (* observed _render_ invocations of the whole case, in order *)
}.

Definition e_render (t : ecase) := vr_render (e_n t) (e_total t) (e_faults t) (e_ffaults t) (e_stamp t).

Definition nil_b {A} (l : list A) : bool := match l with [] => true | _ => false end.

(** agreement with the code model: traces and render-call log *)
Definition model_ok_env (t : ecase) : bool :=
  let render := e_render t in
  let n := e_n t in
  match mk vr_state n (e_term0 t) (e_cfg t) t_rs0, e_ctor t with
  | inr e, Some e' => err_eqb e e' && nil_b (e_obs t) && nil_b (e_obs2 t)
  | inl s, None =>
    let s' := run_env vr_state render n s (e_hist t) in
    list_eqb obs_eqb (trace_env vr_state render n s (e_hist t)) (e_obs t)
    && match e_second t with
       | None => list_eqb rcall_eqb (rev (log (gh s'))) (e_log t)
       | Some (term2, c2, h2) =>
         match remake vr_state render n term2 s' c2, e_ctor2 t with
         | inr e, Some e' => err_eqb e e' && nil_b (e_obs2 t)
                             && list_eqb rcall_eqb (rev (log (gh s'))) (e_log t)
         | inl s2, None =>
           list_eqb obs_eqb (trace_env vr_state render n s2 h2) (e_obs2 t)
           && list_eqb rcall_eqb (rev (log (gh (run_env vr_state render n s2 h2)))) (e_log t)
         | _, _ => false
         end
       end
  | _, _ => false
  end.

Definition same_obs (tr obs : list (out * Z)) : bool :=
  list_eqb obs_eqb (map erase_stamp tr) (map erase_stamp obs).

(** the specification side: the documented machine [IterSpec] run over the events
    ([IterEnv.spec_trace_env]); the second iterator is a documented machine constructed
    AFRESH over the size and duration the first history documents.  Not judged (compared
    with the code model only): a fault schedule by call number under a cache (as in
    [IterTie.check8]); a second iterator over an INDEFINITE source (the data carries the
    stream's pending seek) or over data the first iterator owned and finalized (C10). *)
Definition ok_spec_env (t : ecase) : bool :=
  let render := e_render t in
  let n := e_n t in
  let faulty := negb (nil_b (e_faults t)) in
  let cached1 := cache_decision n (c_cache (e_cfg t)) in
  match spec_mk vr_state n (e_term0 t) (e_cfg t) t_rs0, e_ctor t with
  | inr e, Some e' => err_eqb e e'
  | inl a, None =>
    (if cached1 && faulty then true
     else same_obs (spec_trace_env vr_state render n (a, None) (e_hist t)) (e_obs t))
    (* the iterator never moves the renderable's own current frame *)
    && forallb (Z.eqb (c_frame (e_cfg t))) (e_tells t)
    && Nat.eqb (length (e_tells t)) (length (e_hist t))
    && match e_second t with
       | None => true
       | Some (term2, c2, h2) =>
         match n with
         | None => true
         | Some _ =>
           if c_owns (e_cfg t) then true
           else
             let a1 := fst (spec_run_env vr_state render n (a, None) (e_hist t)) in
             match spec_mk vr_state n term2 (on_data c2 (a_size a1) (a_dur a1)) (a_rs a1), e_ctor2 t with
             | inr e, Some e' => err_eqb e e'
             | inl a2, None =>
               (if (cached1 || cache_decision n (c_cache c2)) && faulty then true
                else same_obs (spec_trace_env vr_state render n (a2, None) h2) (e_obs2 t))
               && forallb (Z.eqb (c_frame (e_cfg t))) (e_tells2 t)
               && Nat.eqb (length (e_tells2 t)) (length h2)
             | _, _ => false
             end
         end
       end
  | _, _ => false
  end.

(** 0 agrees; +1 differs from the code model; +2 contradicts the specification *)
Definition check_env (t : ecase) : nat :=
  ((if model_ok_env t then 0 else 1) + (if ok_spec_env t then 0 else 2))%nat.

Definition bad_env (cases : list ecase) : list (nat * nat) :=
  filter (fun p => negb (Nat.eqb (snd p) 0)) (index_from 0 (map check_env cases)).
