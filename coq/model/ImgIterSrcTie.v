(** Executable comparison used by the image-iterator half of the C09 correspondence.

    One case = one history run on TWO [ImageIterator]s over two instances of the same source,
    one with the case's [cached] argument, one with [cached=False].  Observed per operation,
    for each run: the outcome (frame identified by a number: equal strings = equal numbers; an
    exception of the renderer; StopIteration; the errors of seek), image.tell(), loop_no,
    whether an image the library opened for the iterator is still to be closed, and the RENDER
    REQUESTS: every call of [image._render_image] made during the operation, as (frame number =
    image._seek_position at the call, index of image.rendered_size at the call).

    [model_ok] (code 1 on a difference): both runs against model/ImgIter.v, and both request
    logs against model/ImgIterSrc.v ([reqs]), the renderer being the table of what the
    NON-CACHING run obtained for (frame, size) (deterministic rendering; a pair it never
    rendered gets an identity no run can have observed).
    [spec_ok] (code 2: the property fails) reads the observations alone: the two runs agree in
    every outcome / frame / position / countdown — an exception in one run where the other
    yields is a difference like any other — and at every operation the render requests of the
    caching run are a sub-list of those of the non-caching run. *)
From Coq Require Import List ZArith Bool Arith.
Import ListNotations.
From TI Require Import model.ImgIter model.ImgIterSrc model.ImgIterTie.

Local Open Scope nat_scope.

Record c9img := {
  i9_n : nat;                          (* n_frames *)
  i9_repeat : Z;
  i9_cached : bool + Z;                (* the constructor's argument of the caching run *)
  i9_cache_on : bool;                  (* observed it._cached of that run *)
  i9_file : bool;                      (* file- / URL-sourced: the library opens the image itself *)
  i9_table : list (list Z);            (* per size index, per frame: frame id; -1 = rendering failed *)
  i9_hashes : list Z;                  (* per size index: hash(rendered_size) *)
  i9_z0 : nat;                         (* index of the initial rendered size *)
  i9_ops : list (op nat);
  i9_obs_c : list (list Z);            (* caching run, per op: outcome code, frame id, tell, loop_no (-99 = None), open *)
  i9_obs_u : list (list Z);            (* non-caching run *)
  i9_req_c : list (list (nat * nat));  (* caching run, per op: render requests (frame, size index) *)
  i9_req_u : list (list (nat * nat))
}.

Definition req_eqb (a b : nat * nat) : bool := Nat.eqb (fst a) (fst b) && Nat.eqb (snd a) (snd b).

Fixpoint reql_eqb (a b : list (nat * nat)) : bool :=
  match a, b with
  | [], [] => true
  | x :: a', y :: b' => req_eqb x y && reql_eqb a' b'
  | _, _ => false
  end.

Fixpoint reqll_eqb (a b : list (list (nat * nat))) : bool :=
  match a, b with
  | [], [] => true
  | x :: a', y :: b' => reql_eqb x y && reqll_eqb a' b'
  | _, _ => false
  end.

(** [subb a b]: [a] is a sub-list of [b] (greedy matching decides [Sub] for lists) *)
Fixpoint subb (a b : list (nat * nat)) : bool :=
  match b with
  | [] => match a with [] => true | _ => false end
  | y :: b' =>
      match a with
      | [] => true
      | x :: a' => if req_eqb x y then subb a' b' else subb a b'
      end
  end.

Fixpoint all_subb (a b : list (list (nat * nat))) : bool :=
  match a, b with
  | [], [] => true
  | x :: a', y :: b' => subb x y && all_subb a' b'
  | _, _ => false
  end.

Definition i9_model_ok (c : c9img) : bool :=
  let ce := cache_enabled (i9_repeat c) (i9_cached c) (i9_n c) in
  let fmt := tab_fmt (i9_table c) in
  let h := tab_hash (i9_hashes c) in
  let s0 := init Z (i9_repeat c) 0 (i9_z0 c) in
  Bool.eqb ce (i9_cache_on c)
  && zll_eqb (map (row (i9_file c)) (trace fmt h (i9_n c) ce s0 (i9_ops c))) (i9_obs_c c)
  && zll_eqb (map (row (i9_file c)) (trace fmt h (i9_n c) false s0 (i9_ops c))) (i9_obs_u c)
  && reqll_eqb (reqs fmt h (i9_n c) ce s0 (i9_ops c)) (i9_req_c c)
  && reqll_eqb (reqs fmt h (i9_n c) false s0 (i9_ops c)) (i9_req_u c).

(** what the caller of the iterator sees: outcome, frame, position, countdown *)
Definition seen (r : list Z) : list Z := firstn 4 r.

Definition i9_spec_ok (c : c9img) : bool :=
  zll_eqb (map seen (i9_obs_c c)) (map seen (i9_obs_u c))
  && all_subb (i9_req_c c) (i9_req_u c).

Definition check9i (c : c9img) : nat :=
  (if i9_model_ok c then 0 else 1) + (if i9_spec_ok c then 0 else 2).

Definition bad9i (cases : list c9img) : list (nat * nat) := bad check9i cases.
