(** Executable comparison for the C05 correspondence on ANIMATED draws ([Renderable.draw] of a
    multi-frame renderable on a pty): the whole output stream against [Draw.draw_stream], and
    the C05 padding oracle applied to the FINAL SCREEN — after the whole stream has been
    executed on the terminal model, the padded box shows the LAST frame at the offset
    (top, left) dictated by the alignment, every other cell of the box shows the fill glyph
    with default attributes (is untouched for the empty fill), nothing outside the box is
    written and the cursor is at the left margin on the line below the box. *)
From Coq Require Import List ZArith Bool Lia.
Import ListNotations.
From TI Require Import lib.Term lib.TermFacts lib.Rect lib.RectCheck lib.Lines model.Padding model.PadTie
     model.Draw.
Open Scope Z_scope.

Record acase := {
  a_kind : pkind;
  a_fill : option glyph;
  a_tw : Z; a_th : Z;                  (* terminal size (resolution of relative paddings; the size check) *)
  a_w : Z; a_h : Z;                    (* render size *)
  a_hide : bool;                       (* the cursor is hidden while drawing (a tty) *)
  a_frames : list (list tok);          (* the frames' render outputs in the order they are drawn *)
  a_obs : list tok;                    (* what draw() wrote *)
  a_rows : list Z                      (* start rows *)
}.

Definition adims_of (c : acase) : Z * Z * Z * Z :=
  dims_of {| p_kind := a_kind c; p_fill := None; p_tw := a_tw c; p_th := a_th c; p_w := a_w c;
             p_h := a_h c; p_inner := []; p_obs := []; p_obs_dims := [] |}.

(** [Draw.draw_stream] for an animation (the size is always checked, scrolling never allowed) *)
Definition amodel (c : acase) : option (list tok) :=
  draw_stream true false true (a_hide c) (a_tw c) (a_th c) (a_fill c) (adims_of c) (a_w c) (a_h c) []
              (a_frames c).

Definition aclauses (c : acase) (r0 : Z) : list bool :=
  let '(l, t, r, b) := adims_of c in
  let w := a_w c in let h := a_h c in
  let W' := l + w + r in let H' := t + h + b in
  let inner i j := (t <=? i) && (i <? t + h) && (l <=? j) && (j <? l + w) in
  let final := exec 0 (start r0 0) (a_obs c) in
  let evs := log final in
  let ievs := log (exec l (start (r0 + t) l) (last (a_frames c) [])) in
  [ (0 <=? l) && (0 <=? t) && (0 <=? r) && (0 <=? b);
    (* nothing outside the box (and the cursor's resting place below it) is touched *)
    forallb (ev_inside r0 0 (H' + 1) W') evs;
    negb (existsb (fun j => covered evs (r0 + H') j) (zrange 0 (W' + 1)));
    (row final =? r0 + H') && (col final =? 0);
    attrs_eqb (sgr final) adefault && is_ground (parser final) && is_none (pending final);
    (* the box: the LAST frame at (t, l), the fill everywhere else *)
    forallb (fun i => forallb (fun j =>
        if inner i j then
          cellview_eqb (view evs (r0 + i) j) (view ievs (r0 + i) j)
          && Bool.eqb (covered evs (r0 + i) j) (covered ievs (r0 + i) j)
        else match a_fill c with
             | Some g => cellview_eqb (view evs (r0 + i) j) (VGlyph g adefault)
             | None => negb (covered evs (r0 + i) j)
             end) (zrange 0 W')) (zrange 0 H') ].

Definition aoracle (c : acase) (r0 : Z) : bool := forallb (fun x => x) (aclauses c r0).

(** 0 = agrees; +1 the stream differs from the model; +2 the final screen is not the padded
    box holding the last frame at the alignment offset *)
Definition acheck (c : acase) : nat :=
  (match amodel c with Some st => if toks_eqb st (a_obs c) then 0 else 1 | None => 1 end)
  + (if forallb (aoracle c) (a_rows c) && negb (match a_frames c with [] => true | _ => false end)
     then 0 else 2).

Definition abad (cases : list acase) : list (nat * nat) :=
  filter (fun p => negb (Nat.eqb (snd p) 0)) (index_from 0 (map acheck cases)).

(** (margins, first token difference from the model, the clauses of the oracle per start row) *)
Definition aexplain (c : acase) :=
  (adims_of c,
   match amodel c with Some st => Some (first_diff st (a_obs c) 0) | None => None end,
   map (fun r0 => (r0, aclauses c r0)) (a_rows c)).
