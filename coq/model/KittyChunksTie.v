(** Executable comparison used by the C03 correspondence.

    [check_*] returns 0 = the observed output agrees with the model and satisfies the
    specification; 1 = differs from the model only; 2 = contradicts the SPECIFICATION
    (the property fails on this input); 3 = both.

    The specification side ([spec_*]) is written from the property text alone — it walks
    the observed token list and knows nothing about [chunks]: first chunk of a
    transmission carries the keys, every chunk at most 4096 base64 characters and a
    multiple of 4 unless last, m=1...m=0 consistent, decoded payload of s x v x
    bytes-per-pixel bytes, pixels equal (decided by the driver through Pillow),
    one transmission per line with r=1 for LINES / one with r=rows for WHOLE; iterm2:
    size= equals the decoded length, width/height/inline/preserveAspectRatio, payload
    decodes to the expected pixels or is the untouched source file under the documented
    conditions.  Payload contents never enter Coq: only lengths and flags.

    Round 4: a case carries the method SET on the image / class and the per-render
    OVERRIDE as two independent options, and the list of cell sizes the environment
    answered to the successive get_cell_size() calls made inside _render_image (the
    environment may change during the render).  The model side is the render plan of
    model/GfxPlan.v fed with exactly these answers; it also demands the number of reads
    the plan makes (single read of the geometry).  The specification side never looks at
    the cell size: it demands that the output is self-consistent — the documented
    effective method's shape, s x v x bytes-per-pixel, strips stitching to the pixels at
    the transmitted resolution — whatever the environment did meanwhile.

    Round 4 (b): (1) every case carries a frame record (model/GfxFrames.v): whether the
    instance shares a PIL object, the history of seek() / foreign moves of that object /
    iterator runs / earlier renders, image.tell() just before this render and the index of
    the source frame whose pixels the decoded payload carries.  Specification: that index is
    [tell]; model: the code's render after this history sends it and [tell] is what the
    history says.  (2) the payload of every command as ONE base64 text: its length, the
    number of characters from the first '=' to the end, and whether it is
    [alphabet]*[=]* — specification (model/B64Blocks.v, [b64_wf]): length a multiple of 4,
    padding only at the very end (at most 2), decoded length = 3 * length / 4 - padding;
    this is what excludes a payload assembled from separately encoded blocks, whatever its
    size (the sizes themselves — 2^16, 3 * 2^18, 2^20, 2^21 ... +-1 — come as Z). *)
From Coq Require Import String.
From Coq Require Import List ZArith Bool Arith DecimalString.
Import ListNotations.
From TI Require Import gen.Consts model.KittyChunks model.GfxPlan model.GfxFrames.

Local Open Scope nat_scope.

(* ---------------------------------------------------------------- observed *)

Inductive oitem :=
| ODel
| OChunk (keys : list (string * kval)) (m : nat) (len : Z)   (* m: 0, 1, >=2 malformed *)
| ONl
| OFill.

Definition kval_eqb (a b : kval) : bool :=
  match a, b with
  | KInt x, KInt y => Z.eqb x y
  | KChr x, KChr y => Z.eqb x y
  | _, _ => false
  end.
Fixpoint keys_eqb (a b : list (string * kval)) : bool :=
  match a, b with
  | [], [] => true
  | (k, v) :: a', (k', v') :: b' => String.eqb k k' && kval_eqb v v' && keys_eqb a' b'
  | _, _ => false
  end.
Definition oitem_eqb (a b : oitem) : bool :=
  match a, b with
  | ODel, ODel | ONl, ONl | OFill, OFill => true
  | OChunk k m l, OChunk k' m' l' => keys_eqb k k' && Nat.eqb m m' && Z.eqb l l'
  | _, _ => false
  end.
Fixpoint oitems_eqb (a b : list oitem) : bool :=
  match a, b with
  | [], [] => true
  | x :: a', y :: b' => oitem_eqb x y && oitems_eqb a' b'
  | _, _ => false
  end.

Definition of_item (i : item unit) : oitem :=
  match i with
  | IDelCursor => ODel
  | IChunk k m d => OChunk k (if m then 1 else 0) (Z.of_nat (length d))
  | IFillNl => ONl
  | IFill => OFill
  end.

(** base64 length of n bytes (RFC 4648 with padding) — used only for level 0, where the
    payload length is known without running zlib *)
Definition b64len (n : nat) : nat := 4 * ((n + 2) / 3).

(** the same on Z (payloads of megabytes) *)
Definition b64lenZ (k : Z) : Z := (4 * ((k + 2) / 3))%Z.

(** ONE base64 text, from its shape: [len] characters, [pad] of them from the first '=' to
    the end, [alpha] = the text is [A-Za-z0-9+/]*=* — well-formed iff the length is a
    multiple of 4 and the padding is at most 2 characters (hence at the very end only);
    it then decodes to 3 * len / 4 - pad bytes *)
Record b64shape := { b_len : Z; b_pad : Z; b_alpha : bool }.
Definition shape_wf (b : b64shape) : bool :=
  b_alpha b && (0 <=? b_len b)%Z && (b_len b mod 4 =? 0)%Z && (0 <=? b_pad b)%Z && (b_pad b <=? 2)%Z
  && (b_pad b <=? b_len b)%Z.
Definition shape_declen (b : b64shape) : Z := (3 * (b_len b / 4) - b_pad b)%Z.

(** lengths of the transmissions' payloads, by grouping the observed chunks: a chunk
    with keys opens a transmission *)
Fixpoint group_lens (l : list oitem) (cur : option Z) : list Z :=
  match l with
  | [] => match cur with Some n => [n] | None => [] end
  | OChunk (_ :: _) _ n :: r =>
      (match cur with Some c => [c] | None => [] end) ++ group_lens r (Some n)
  | OChunk [] _ n :: r => group_lens r (Some (match cur with Some c => c + n | None => n end)%Z)
  | _ :: r => group_lens r cur
  end.

(* ---------------------------------------------------- specification: chunks *)

(** the chunks of ONE transmission, as (has keys, m, length) *)
Definition ochunk : Type := (bool * nat * Z)%type.

Fixpoint spec_tail (size : Z) (mult4 : bool) (l : list ochunk) : bool :=
  match l with
  | [] => false
  | (hk, m, n) :: r =>
      negb hk && (0 <=? n)%Z && (n <=? size)%Z
      && match r with
         | [] => Nat.eqb m 0
         | _ => Nat.eqb m 1 && (negb mult4 || (n mod 4 =? 0)%Z) && spec_tail size mult4 r
         end
  end.
(** first chunk has the keys; all at most [size]; multiple of 4 unless last; m=1 on all
    but the last, m=0 on the last *)
Definition spec_wf (size : Z) (mult4 : bool) (l : list ochunk) : bool :=
  match l with
  | [] => false
  | (hk, m, n) :: r =>
      hk && (0 <=? n)%Z && (n <=? size)%Z
      && match r with
         | [] => Nat.eqb m 0
         | _ => Nat.eqb m 1 && (negb mult4 || (n mod 4 =? 0)%Z) && spec_tail size mult4 r
         end
  end.

(** split the observed items into transmissions (keys of the first chunk, chunks) *)
Fixpoint group_tx (l : list oitem) (cur : option (list (string * kval) * list ochunk))
  : list (list (string * kval) * list ochunk) :=
  match l with
  | [] => match cur with Some c => [c] | None => [] end
  | OChunk (k :: ks) m n :: r =>
      (match cur with Some c => [c] | None => [] end)
        ++ group_tx r (Some (k :: ks, [(true, m, n)]))
  | OChunk [] m n :: r =>
      match cur with
      | Some (k, cs) => group_tx r (Some (k, cs ++ [(false, m, n)]))
      | None => ([], [(false, m, n)]) :: group_tx r None       (* orphan: ill-formed *)
      end
  | _ :: r => group_tx r cur
  end.

Definition key_of (k : string) (keys : list (string * kval)) : option kval :=
  match find (fun p => String.eqb (fst p) k) keys with Some (_, v) => Some v | None => None end.
Definition key_int (k : string) (keys : list (string * kval)) : option Z :=
  match key_of k keys with Some (KInt z) => Some z | _ => None end.
Definition key_is (k : string) (v : kval) (keys : list (string * kval)) : bool :=
  match key_of k keys with Some v' => kval_eqb v v' | None => false end.

(** one transmission against the property: framing, a=T, f in {24,32}, decoded length
    = s*v*f/8, c = columns, r = rows, z = the z-index asked for *)
Definition spec_tx (cols rows z : Z) (t : list (string * kval) * list ochunk) (rawlen : Z) : bool :=
  let (keys, cs) := t in
  spec_wf 4096 true cs
  && key_is "a" (KChr 84) keys
  && match key_int "f" keys, key_int "s" keys, key_int "v" keys with
     | Some f, Some s, Some v =>
         ((f =? 24) || (f =? 32))%Z && (0 <? s)%Z && (0 <? v)%Z && (rawlen =? s * v * (f / 8))%Z
     | _, _, _ => false
     end
  && key_is "c" (KInt cols) keys && key_is "r" (KInt rows) keys && key_is "z" (KInt z) keys.

Fixpoint forallb2 {A B} (f : A -> B -> bool) (a : list A) (b : list B) : bool :=
  match a, b with
  | [], [] => true
  | x :: a', y :: b' => f x y && forallb2 f a' b'
  | _, _ => false
  end.

(* -------------------------------------------------------------- kitty case *)

Record kcase := {
  kc_set : option method;    (* set_render_method() on the instance or the class; None = never set *)
  kc_over : option method;   (* the render's own method argument / +L +W of the format specifier *)
  kc_reads : list (Z * Z);   (* answers to the get_cell_size() calls made inside _render_image, in order *)
  kc_other_reads : nat;      (* other environment reads inside _render_image (terminal size, cell ratio) *)
  kc_rw : Z; kc_rh : Z; kc_cw : Z; kc_ch : Z; kc_ow : Z; kc_oh : Z;
  kc_alpha : nat;            (* 0 None, 1 float, 2 colour *)
  kc_opaque : bool;          (* source frame mode in {1, L, RGB, HSV, CMYK} *)
  kc_z : Z; kc_level : nat; kc_blend : bool;
  (* observed *)
  kc_items : list oitem;
  kc_rawlen : list Z;        (* decoded (+ decompressed) length per transmission, -1 = undecodable *)
  kc_pix : bool;             (* stitched decoded bytes = expected pixels at (s, sum v) *)
  kc_lex : bool;             (* the output lexed completely into known sequences *)
  kc_fill : bool;            (* every fill is [ECH cols unless mix] CUF cols *)
  kc_keep : bool;            (* image.size unchanged, no exception *)
  kc_b64 : list b64shape;    (* the reassembled payload of each transmission as one base64 text *)
  kc_fr : frec               (* which frame: history, image.tell(), frame carried *)
}.

Definition n (z : Z) : nat := Z.to_nat z.

(** the environment of one render, from the observed answers ([dflt] beyond them) *)
Definition env_of (reads : list (Z * Z)) (dflt : Z * Z) : cell_env :=
  fun k => let p := nth k reads dflt in (n (fst p), n (snd p)).

(** documented (set_render_method / the [method] style argument): the method given for
    one render overrides the method set on the instance or class, which overrides the
    style's default, LINES *)
Definition spec_method (set over : option method) : method :=
  match over, set with
  | Some m, _ => m
  | None, Some m => m
  | None, None => Lines
  end.

Definition kitty_model (c : kcase) : list oitem * list Z :=
  let rw := n (kc_rw c) in let rh := n (kc_rh c) in
  let p := kitty_plan (kc_set c) (kc_over c) rw rh (env_of (kc_reads c) (kc_cw c, kc_ch c))
                      (n (kc_ow c), n (kc_oh c)) in
  let m := kp_branch_method p in
  let (w, h) := kp_size p in
  let fmt := if out_rgba (kc_alpha c) (kc_opaque c) then kitty_f_rgba else kitty_f_rgb in
  let ctl := kitty_ctrl m fmt w h rw rh (kc_z c) (kc_level c) in
  let lens := group_lens (kc_items c) None in
  let raw1 := match m with
              | Lines => bytes_per_line w h rh (bpp_of_fmt fmt)
              | _ => w * h * bpp_of_fmt fmt
              end in
  let ntx := match m with Lines => rh | _ => 1 end in
  (map of_item
       (kitty_layout m rh (kc_blend c)
          (fun i => emit_transmission kitty_chunk_size ctl (repeat tt (n (nth i lens 0%Z))))),
   repeat (Z.of_nat raw1) ntx).

Fixpoint zl_eqb (a b : list Z) : bool :=
  match a, b with
  | [], [] => true
  | x :: a', y :: b' => Z.eqb x y && zl_eqb a' b'
  | _, _ => false
  end.

Definition kitty_ok_model (c : kcase) : bool :=
  let (items, raws) := kitty_model c in
  oitems_eqb items (kc_items c) && zl_eqb raws (kc_rawlen c) && kc_fill c
  (* the geometry comes from ONE read of the cell size and no other environment read *)
  && Nat.eqb (length (kc_reads c))
             (kp_cell_reads (kitty_plan (kc_set c) (kc_over c) (n (kc_rw c)) (n (kc_rh c))
                                        (env_of (kc_reads c) (kc_cw c, kc_ch c)) (n (kc_ow c), n (kc_oh c))))
  && Nat.eqb (kc_other_reads c) 0
  && (negb (kc_level c =? 0)
      || forallb2 (fun l r => Z.eqb l (Z.of_nat (b64len (n r))))
                  (group_lens (kc_items c) None) (kc_rawlen c))
  (* the text reassembled from the chunks is the one the chunk lengths add up to *)
  && forallb2 (fun l b => Z.eqb l (b_len b)) (group_lens (kc_items c) None) (kc_b64 c)
  && frames_ok_model (kc_fr c).

Definition kitty_ok_spec (c : kcase) : bool :=
  let txs := group_tx (kc_items c) None in
  let sm := spec_method (kc_set c) (kc_over c) in
  let rows := match sm with Lines => 1%Z | _ => kc_rh c end in
  let ntx := match sm with Lines => n (kc_rh c) | _ => 1 end in
  kc_lex c && kc_keep c && kc_pix c
  && Nat.eqb (length txs) ntx
  && forallb2 (spec_tx (kc_rw c) rows (kc_z c)) txs (kc_rawlen c)
  (* each transmission's reassembled payload is one well-formed base64 text *)
  && Nat.eqb (length (kc_b64 c)) ntx && forallb shape_wf (kc_b64 c)
  (* the pixels are those of frame image.tell() *)
  && frames_ok_spec (kc_fr c).

Definition check_kitty (c : kcase) : nat :=
  (if kitty_ok_model c then 0 else 1) + (if kitty_ok_spec c then 0 else 2).

(* --------------------------------------------------------------- unit case *)

(** Transmission(ControlData(f=24, s=1, v=1), payload, level).get_chunks(size) *)
Record ucase := {
  u_size : Z;                (* chunk size used (the translated default when the driver passed none) *)
  u_default : bool;          (* the driver called get_chunks() without a size *)
  u_level : nat;
  u_len : Z;                 (* payload length before compression *)
  u_items : list oitem;
  u_rawok : bool;            (* decode(+decompress) of the reassembled chunks = payload *)
  u_lex : bool;
  u_b64 : b64shape           (* the reassembled payload as one base64 text *)
}.

Definition unit_ctrl (level : nat) : ctrl :=
  {| k_a := k_a ctrl_default; k_f := Some (KInt 24); k_t := k_t ctrl_default;
     k_s := Some (KInt 1); k_v := Some (KInt 1); k_z := k_z ctrl_default;
     k_o := if level =? 0 then None else Some (KChr kitty_o_zlib);
     k_C := k_C ctrl_default; k_c := None; k_r := None |}.

Definition unit_ok_model (c : ucase) : bool :=
  let lens := group_lens (u_items c) None in
  let size := if u_default c then kitty_chunk_size else n (u_size c) in
  oitems_eqb (map of_item (emit_transmission size (unit_ctrl (u_level c)) (repeat tt (n (nth 0 lens 0%Z)))))
             (u_items c)
  && Nat.eqb (length lens) 1
  && (negb (u_level c =? 0) || Z.eqb (nth 0 lens 0%Z) (Z.of_nat (b64len (n (u_len c))))).

Definition unit_ok_spec (c : ucase) : bool :=
  let size := if u_default c then 4096%Z else u_size c in
  u_lex c && u_rawok c && shape_wf (u_b64 c)
  && match group_tx (u_items c) None with
     | [(keys, cs)] => spec_wf size ((size mod 4 =? 0)%Z) cs && key_is "a" (KChr 84) keys
     | _ => false
     end.

Definition check_unit (c : ucase) : nat :=
  (if unit_ok_model c then 0 else 1) + (if unit_ok_spec c then 0 else 2).

(* -------------------------------------------------------------- iterm2 case *)

Record orec := {
  o_hdr : string;            (* header text between "File=" and ":" *)
  o_keys : list Z;           (* size width height preserveAspectRatio inline doNotMoveCursor; -1 = absent *)
  o_declen : Z;              (* length of the base64-decoded payload, -1 = undecodable *)
  o_kind : nat;              (* 0 PNG, 1 JPEG, 2 other image format, 9 not an image *)
  o_w : Z; o_h : Z; o_rgba : bool;
  o_b64 : b64shape           (* the payload as one base64 text *)
}.

Record icase := {
  ic_set : option method; ic_over : option method;   (* as kc_set / kc_over *)
  ic_reads : list (Z * Z); ic_other_reads : nat;     (* as kc_reads / kc_other_reads *)
  ic_rw : Z; ic_rh : Z; ic_cw : Z; ic_ch : Z; ic_ow : Z; ic_oh : Z;
  ic_alpha : nat; ic_mode_class : nat;
  ic_animated : bool; ic_readable : bool; ic_rff : bool; ic_jq : Z; ic_konsole : bool;
  (* observed *)
  ic_oscs : list orec;
  ic_untouched : bool;       (* the payload is byte-for-byte the source file *)
  ic_pix : bool; ic_lex : bool; ic_nl : nat; ic_keep : bool;
  ic_fr : frec               (* as kc_fr *)
}.

Definition num_string (k : nat) : string := NilZero.string_of_uint (N.to_uint (N.of_nat k)).
Fixpoint hvals_string (l : list hval) : string :=
  match l with
  | [] => EmptyString
  | VLit s :: r => append s (hvals_string r)
  | VNum k :: r => append (num_string k) (hvals_string r)
  end.
(** the header as written, without the final ":" (the driver cuts there) *)
Definition header_string (b : ibranch) (size cols rows : nat) (konsole : bool) : string :=
  hvals_string (removelast (iterm2_header b size cols rows konsole)).

Definition iterm2_ok_model (c : icase) : bool :=
  let rw := n (ic_rw c) in let rh := n (ic_rh c) in
  let p := iterm2_plan (ic_set c) (ic_over c) (ic_animated c) false rw rh
                       (env_of (ic_reads c) (ic_cw c, ic_ch c)) (n (ic_ow c), n (ic_oh c))
                       (ic_rff c) (ic_readable c) (ic_mode_class c) (ic_alpha c) in
  let b := ip_branch p in
  let (w, h) := ip_size p in
  let rgba := out_rgba (ic_alpha c) (ic_mode_class c =? 0) in
  let jpeg := iterm2_jpeg (ic_jq c) rgba in
  let hdr_ok rows (o : orec) :=
      String.eqb (o_hdr o) (header_string b (n (o_declen o)) rw rows (ic_konsole c)) in
  let enc_ok ww hh (o : orec) :=
      Nat.eqb (o_kind o) (if jpeg then 1 else 0) && Z.eqb (o_w o) (Z.of_nat ww)
      && Z.eqb (o_h o) (Z.of_nat hh) && Bool.eqb (o_rgba o) rgba in
  Nat.eqb (ic_nl c) (rh - 1)
  && frames_ok_model (ic_fr c)
  (* the whole data encoded at once: |payload| = 4 * ceil(|data| / 3) *)
  && forallb (fun o => (o_declen o <? 0)%Z || Z.eqb (b_len (o_b64 o)) (b64lenZ (o_declen o))) (ic_oscs c)
  (* the geometry comes from ONE read of the cell size; the read-from-file gate makes one
     more when its first four conjuncts hold; no other environment read *)
  && Nat.eqb (length (ic_reads c)) (ip_cell_reads p) && Nat.eqb (ic_other_reads c) 0
  && match b with
     | BNative =>
         match ic_oscs c with
         | [o] => hdr_ok rh o && Bool.eqb (ic_untouched c) (ic_readable c)
                  && (ic_untouched c || Nat.eqb (o_kind o) 2)
         | _ => false
         end
     | BLines =>
         Nat.eqb (length (ic_oscs c)) rh && negb (ic_untouched c)
         && forallb (fun o => hdr_ok 1 o && enc_ok w (ip_strip_h p) o) (ic_oscs c)
     | BWhole =>
         let gate := ip_gate p in
         match ic_oscs c with
         | [o] => hdr_ok rh o && Bool.eqb (ic_untouched c) gate && (gate || enc_ok w h o)
         | _ => false
         end
     end.

Definition iterm2_ok_spec (c : icase) : bool :=
  let sm := spec_method (ic_set c) (ic_over c) in
  let lines := method_eqb sm Lines in
  let rows := if lines then 1%Z else ic_rh c in
  let cnt := if lines then n (ic_rh c) else 1 in
  let rgba := out_rgba (ic_alpha c) (ic_mode_class c =? 0) in
  ic_lex c && ic_keep c && ic_pix c
  && frames_ok_spec (ic_fr c)
  && Nat.eqb (length (ic_oscs c)) cnt
  && forallb (fun o =>
        match o_keys o with
        | [size; width; height; par; inline; _] =>
            (0 <=? o_declen o)%Z && (size =? o_declen o)%Z && (width =? ic_rw c)%Z
            && (height =? rows)%Z && (par =? 0)%Z && (inline =? 1)%Z
            (* one well-formed base64 text of size= bytes *)
            && shape_wf (o_b64 o) && (shape_declen (o_b64 o) =? size)%Z
        | _ => false
        end) (ic_oscs c)
  (* the untouched source file only under the documented conditions *)
  && (negb (ic_untouched c)
      || (ic_readable c
          && (((method_eqb sm Whole || method_eqb sm Anim)
               && ic_rff c && negb (ic_animated c))       (* ANIM on a non-animated image = WHOLE *)
              || (method_eqb sm Anim && ic_animated c))))
  (* re-encoded: PNG, or JPEG only when enabled and the render has no transparency;
     a native animation may be any animated format *)
  && (ic_untouched c
      || forallb (fun o =>
            match o_kind o with
            | 0 => true
            | 1 => (0 <=? ic_jq c)%Z && negb rgba
            | 2 => method_eqb sm Anim && ic_animated c
            | _ => false
            end) (ic_oscs c)).

Definition check_iterm2 (c : icase) : nat :=
  (if iterm2_ok_model c then 0 else 1) + (if iterm2_ok_spec c then 0 else 2).

(* ------------------------------------------------------------------ driver *)

Fixpoint index_from {A} (k : nat) (l : list A) : list (nat * A) :=
  match l with [] => [] | x :: r => (k, x) :: index_from (S k) r end.
Definition bad {A} (chk : A -> nat) (cases : list A) : list (nat * nat) :=
  filter (fun p => negb (Nat.eqb (snd p) 0)) (index_from 0 (map chk cases)).
