(** * Exchange — "every query receives exactly its own reply" on observed terminal I/O (C14)

    The second half of the property, judged on what threads are SEEN to do with the
    terminal (no lock in sight): an executable specification [xchg_ok] over traces of

    - [XWrite n] by [t]: [t] wrote a request; the (FIFO) terminal queues [n] reply bytes,
      which belong to [t];
    - [XRead n] by [t]: [t] read [n] bytes from the terminal;
    - [XFlush] by [t]: [t] discarded the pending input ([TCSAFLUSH]);
    - [XAcq] / [XRel] by [t]: one acquisition / release of the terminal lock (ignored by
      the specification; used by the discipline below).

    [xchg_ok]: every byte read (or discarded) by [t] belongs to a reply to [t] — nothing
    is delivered to another caller — and when everybody is done nothing is left unread
    — nothing is lost.

    [disc_ok] is the locking DISCIPLINE the library follows (and which the translated
    obligation [C14_all_terminal_io_under_lock] checks on the source): holds never overlap
    (what the lock is for: C14_mutex), the terminal is only touched by the holder, and an
    exchange is over (nothing pending) when the hold is fully released.
    [proofs/ExchangeProofs.v]: [disc_ok tr = true -> xchg_ok tr = true].

    Definitions only. *)
From Coq Require Import List Arith Bool.
Import ListNotations.

Inductive xev := XAcq | XRel | XFlush | XWrite (n : nat) | XRead (n : nat).
Definition xtrace := list (nat * xev).

Definition is_nil {A} (l : list A) : bool := match l with [] => true | _ => false end.

(** [q]: the terminal's input queue, one owner per pending byte *)
Fixpoint xchg_from (q : list nat) (tr : xtrace) : bool :=
  match tr with
  | [] => is_nil q
  | (t, XWrite n) :: r => xchg_from (q ++ repeat t n) r
  | (t, XRead n) :: r =>
    (n <=? length q) && forallb (Nat.eqb t) (firstn n q) && xchg_from (skipn n q) r
  | (t, XFlush) :: r => forallb (Nat.eqb t) q && xchg_from [] r
  | _ :: r => xchg_from q r
  end.

Definition xchg_ok (tr : xtrace) : bool := xchg_from [] tr.

Definition holds (h : option (nat * nat)) (t : nat) : bool :=
  match h with Some (u, _) => Nat.eqb u t | None => false end.

(** [h]: who holds the terminal lock, how many times *)
Fixpoint disc_from (h : option (nat * nat)) (q : list nat) (tr : xtrace) : bool :=
  match tr with
  | [] => match h with None => true | Some _ => false end
  | (t, XAcq) :: r =>
    match h with
    | None => disc_from (Some (t, 1)) q r
    | Some (u, d) => Nat.eqb u t && disc_from (Some (u, S d)) q r
    end
  | (t, XRel) :: r =>
    match h with
    | Some (u, 1) => Nat.eqb u t && is_nil q && disc_from None q r
    | Some (u, S d) => Nat.eqb u t && disc_from (Some (u, d)) q r
    | _ => false
    end
  | (t, XWrite n) :: r => holds h t && disc_from h (q ++ repeat t n) r
  | (t, XRead n) :: r => holds h t && (n <=? length q) && disc_from h (skipn n q) r
  | (t, XFlush) :: r => holds h t && disc_from h [] r
  end.

Definition disc_ok (tr : xtrace) : bool := disc_from None [] tr.
