(** * TrimCanvas — the urwid image canvas as a SNAPSHOT ([widget/_urwid.py:243-256, 261-277])

    [UrwidImageCanvas.__init__] stores the canvas size, the image size the render was made
    with and the render's lines; [content] works from these ([size = self.size],
    [image_size = self._ti_image_size], [self._ti_lines]) and from the widget's alignment
    (fixed at widget construction).  The widget's image is shared and mutable —
    [UrwidImage.render] sets [image._size] on every call — so the image's size at the
    time [content] is iterated ([live] below) may belong to a later render; the code
    does not look at it.  Only the disguise suffix of graphics rows follows live state
    ([self._ti_disguise_state + widget._ti_disguise_state], :402-410), by design. *)
From Coq Require Import List ZArith Bool.
Import ListNotations.
From TI Require Import lib.Term model.Trim.
Open Scope Z_scope.

Record canvas := {
  cv_gfx : bool;                  (* graphics-based image (class of the widget's image) *)
  cv_size : Z * Z;                (* self.size *)
  cv_image_size : Z * Z;          (* self._ti_image_size *)
  cv_align : nat * nat;           (* widget._ti_h_align, widget._ti_v_align *)
  cv_lines : list (list tok)      (* self._ti_lines *)
}.

(** [UrwidImageCanvas(render, size, image_size)] as made by [UrwidImage.render], :161 *)
Definition build (gfx : bool) (render : list tok) (size image_size : Z * Z) (align : nat * nat) : canvas :=
  {| cv_gfx := gfx; cv_size := size; cv_image_size := image_size; cv_align := align;
     cv_lines := ti_lines render |}.

(** what the widget / its image / the canvas class look like when [content] is iterated *)
Record live := {
  lv_image_size : Z * Z;          (* image.rendered_size NOW (after whatever renders came later) *)
  lv_disguise : nat               (* disguise pairs NOW *)
}.

(** [content], :261-412 *)
Definition content (cv : canvas) (lv : live) (trim_left trim_top : Z) (cols rows : option Z)
  : list (list tok * nat) :=
  let '(W, H) := cv_size cv in
  let '(w, h) := cv_image_size cv in         (* :263 — NOT [lv_image_size lv] *)
  let '(ha, va) := cv_align cv in
  if cv_gfx cv then content_gfx W H (cv_lines cv) (lv_disguise lv) trim_left trim_top cols rows
  else map (fun r => (r, O)) (content_text ha va W H w h (cv_lines cv) trim_left trim_top cols rows).

(** ** flow widgets under a changing ENVIRONMENT ([_urwid.py:131-142, 165-177])

    The image's [_valid_size] depends on the environment in force WHEN IT IS CALLED: the
    global cell ratio ([term_image.set_cell_ratio], or the terminal's cell size under
    [AutoCellRatio.DYNAMIC]; text images: [_pixel_ratio = 2 * get_cell_ratio()]), the cell
    size (graphics images), the terminal size (relative frame sizes).  It is a parameter
    here: [valid_size e None] = [_valid_size(Size.ORIGINAL)], [valid_size e (Some c)] =
    [_valid_size(c)], both evaluated in environment [e].  [rows] and [render] each evaluate
    it in the environment current at THEIR call. *)
Section Flow.
Variable env : Type.
Variable valid_size : env -> option Z -> Z * Z.

(** [UrwidImage.rows((maxcol,))] called in environment [e] *)
Definition rows_in (e : env) (upscale : bool) (maxcol : Z) : Z :=
  rows upscale (valid_size e (Some maxcol)) (valid_size e None).

(** the canvas size / image size of [UrwidImage.render((maxcol,))] called in environment [e] *)
Definition flow_canvas_in (e : env) (upscale : bool) (maxcol : Z) : Z * Z :=
  flow_canvas_size maxcol upscale (valid_size e (Some maxcol)) (valid_size e None).
Definition flow_image_in (e : env) (upscale : bool) (maxcol : Z) : Z * Z :=
  flow_image_size upscale (valid_size e (Some maxcol)) (valid_size e None).

(** what a widget that memoised the ORIGINAL size in the environment [e0] of its
    construction would announce in environment [e] (NOT what the code does) *)
Definition rows_stale (e0 e : env) (upscale : bool) (maxcol : Z) : Z :=
  rows upscale (valid_size e (Some maxcol)) (valid_size e0 None).
End Flow.
