(** Executable comparison for the C05 correspondence with an arbitrary one-column FILL
    SEGMENT ([model/PadGen.v]): the fill of a case is the token list of the fill string
    (one glyph; a blank or a glyph wrapped in SGR sequences; ...) or absent (empty fill). *)
From Coq Require Import List ZArith Bool Lia.
Import ListNotations.
From TI Require Import lib.Term lib.TermFacts lib.Rect lib.RectCheck lib.Lines model.Padding model.PadTie
     model.PadGen.
Open Scope Z_scope.

Record gcase := {
  g_kind : pkind;
  g_fill : option (list tok);          (* tokens of the fill string; None = empty fill *)
  g_tw : Z; g_th : Z;                  (* terminal size used for resolution *)
  g_w : Z; g_h : Z;                    (* render size *)
  g_inner : list tok;                  (* the inner render, as observed *)
  g_obs : list tok;                    (* the padded output, as observed *)
  g_obs_dims : list Z;                 (* observed [l; t; r; b; padded_w; padded_h] *)
}.

Definition gdims_of (c : gcase) : Z * Z * Z * Z :=
  dims_of {| p_kind := g_kind c; p_fill := None; p_tw := g_tw c; p_th := g_th c; p_w := g_w c;
             p_h := g_h c; p_inner := []; p_obs := []; p_obs_dims := [] |}.

(** what ONE fill shows in the cell it is written into: the fill drawn alone, with default
    attributes, at (r, c) *)
Definition fill_view (f : list tok) (r c : Z) : cellview :=
  view (log (exec c (start r c) f)) r c.

(** the property oracle on the observed padded output, drawn at (r0, lm): the padded box
    meets the contract; every cell outside the inner render shows exactly what one fill
    shows in its cell (or is untouched for the empty fill); every inner cell shows what the
    inner render alone shows when drawn at the offset (t, l); the margins are non-negative *)
Definition goracle (c : gcase) (r0 lm : Z) : bool :=
  let '(l, t, r, b) := gdims_of c in
  let w := g_w c in let h := g_h c in
  let W' := l + w + r in let H' := t + h + b in
  let inner i j := (t <=? i) && (i <? t + h) && (l <=? j) && (j <? l + w) in
  let need i j := if inner i j then true else match g_fill c with Some _ => true | None => false end in
  let evs := log (exec lm (start r0 lm) (g_obs c)) in
  let ievs := log (exec (lm + l) (start (r0 + t) (lm + l)) (g_inner c)) in
  rect_checkb_need need W' H' lm r0 (g_obs c)
  && forallb (fun i => forallb (fun j =>
        if inner i j then
          cellview_eqb (view evs (r0 + i) (lm + j)) (view ievs (r0 + i) (lm + j))
          && Bool.eqb (covered evs (r0 + i) (lm + j)) (covered ievs (r0 + i) (lm + j))
        else match g_fill c with
             | Some f => cellview_eqb (view evs (r0 + i) (lm + j)) (fill_view f (r0 + i) (lm + j))
                         && covered evs (r0 + i) (lm + j)
             | None => negb (covered evs (r0 + i) (lm + j))
             end) (zrange 0 W')) (zrange 0 H')
  && (0 <=? l) && (0 <=? t) && (0 <=? r) && (0 <=? b).

(** the case's fill is in the decidable class of one-column fills ([PadGenProofs.styled_fill_one_cell]) *)
Definition gfill_ok (c : gcase) : bool :=
  match g_fill c with Some f => styled_fillb f | None => true end.

(** 0 = agrees; +1 differs from the model (tokens or dimensions; or the case's fill is not a
    one-column fill of the decidable class); +2 the oracle fails *)
Definition gcheck (c : gcase) : nat :=
  let '(l, t, r, b) := gdims_of c in
  let '(pw, ph) := padded_size (l, t, r, b) (g_w c) (g_h c) in
  (if gfill_ok c
      && toks_eqb (pad_gen (g_fill c) (l, t, r, b) (g_w c) (g_inner c)) (g_obs c)
      && (match g_obs_dims c with [] => true | d => zl_eqb [l; t; r; b; pw; ph] d end)
   then 0 else 1)
  + (if goracle c 0 0 && goracle c 2 3 then 0 else 2).

Definition gbad (cases : list gcase) : list (nat * nat) :=
  filter (fun p => negb (Nat.eqb (snd p) 0)) (index_from 0 (map gcheck cases)).

(** (margins, fill is one-column, first token difference from the model, oracle at (0,0),
    the nine clauses of the box contract at (0,0)) *)
Definition gexplain (c : gcase) :=
  let '(l, t, r, b) := gdims_of c in
  (gdims_of c, gfill_ok c,
   first_diff (pad_gen (g_fill c) (gdims_of c) (g_w c) (g_inner c)) (g_obs c) 0,
   goracle c 0 0,
   rect_check_need (fun _ _ => false) (l + g_w c + r) (t + g_h c + b) 0 0 (g_obs c)).
