(** * LockSites — vocabulary of the translated obligation "all terminal I/O of an exchange
    happens under ONE hold of the terminal lock" (C14)

    [harness/tx/tx_locks.py] reads the library's source and emits [gen/LockRegions.v]:
    one [io_site] per place where the terminal is touched.

    - [KPrim]: the OS layer is used on the terminal's file descriptor ([os.read],
      [os.write], [termios.tc*], any other use of [_tty_fd] that is not a comparison with
      -1 or one of the two size ioctls).  Such a site has to be HELD: lexically inside a
      [with _tty_lock, _tty_lock:] block, or inside a function decorated with [@lock_tty].
    - [KSync]: a call of one of the library's own synchronized terminal functions
      ([query_terminal], [read_tty], [read_tty_all], [write_tty]).  On its own such a call
      needs nothing (the callee takes the lock).  But a READ that comes after a QUERY /
      WRITE in the same function continues an exchange ([s_continues]): the reply of the
      first call is not read all at once, and its remainder sits in the terminal's input
      queue in between.  Such a read has to be held, in the SAME region as the call it
      continues ([s_same_region]) — otherwise another synchronized reader can be scheduled
      in between and receive the remainder.

    Definitions only. *)
From Coq Require Import List String Bool Arith.
Import ListNotations.

Inductive io_kind := KPrim | KSync.

Record io_site := {
  s_mod : string;          (* module, relative to src/term_image *)
  s_func : string;         (* top-level function, or Class.method *)
  s_line : nat;
  s_callee : string;
  s_kind : io_kind;
  s_held : bool;           (* lexically under [with _tty_lock, _tty_lock] / in a [@lock_tty] function *)
  s_continues : bool;      (* a read that follows a query / write of the same function *)
  s_same_region : bool     (* ... and is held in the same region as that query / write *)
}.

Definition io_locked (s : io_site) : bool :=
  match s_kind s with
  | KPrim => s_held s
  | KSync => if s_continues s then s_held s && s_same_region s else true
  end.

(** the functions that must have been seen by the translator (so that an empty or
    truncated table cannot pass) and the two-step exchanges among them *)
Definition has_site (tbl : list io_site) (p : io_site -> bool) : bool := existsb p tbl.

Definition in_func (m f : string) (s : io_site) : bool :=
  String.eqb (s_mod s) m && String.eqb (s_func s) f.

Definition expected_funcs : list string :=
  ["query_terminal"; "read_tty"; "read_tty_all"; "write_tty";
   "get_cell_size"; "get_fg_bg_colors"; "get_terminal_name_version"]%string.

Definition expected_exchanges : list string :=
  ["query_terminal"; "get_fg_bg_colors"; "get_terminal_name_version"]%string.

Definition covers (tbl : list io_site) : bool :=
  forallb (fun f => has_site tbl (in_func "utils.py" f)) expected_funcs
  && forallb (fun f => has_site tbl (fun s => in_func "utils.py" f s && s_continues s))
             expected_exchanges.

(** ** The urwid screen ([widget/_urwid.py], class [UrwidImageScreen])

    urwid's event loop reads the terminal ([get_available_raw_input]) and its screen writes
    to it ([write] / [flush], [draw_screen] through them) from whatever thread runs the
    loop.  The library synchronizes them by OVERRIDING those methods of
    [urwid.raw_display.Screen] with [@lock_tty] delegates.  One [screen_method] per method
    of the base classes that reaches the terminal's files (by [self.<method>()] calls inside
    urwid's screen classes), read from the INSTALLED urwid by the translator:

    - [m_direct]: a public method whose own body writes / flushes the output file;
    - [m_overridden] / [m_locked]: the library's class defines it / with [@lock_tty] (or its
      whole body inside [with _tty_lock, _tty_lock:]).

    REQUIRED to be overridden and locked: every direct public writer of the installed urwid
    (so that a new one cannot go unnoticed), and the methods the library itself wraps and
    documents ("[@lock_tty] prevents queries during a synced update"; the input reader of the
    event loop).  Not demanded (the unchanged code does not provide it, and they run in the
    thread that starts / stops the screen): [_start], [_stop], [get_input]. *)
Record screen_method := {
  m_name : string;
  m_in_base : bool;
  m_touches_tty : bool;
  m_direct : bool;
  m_overridden : bool;
  m_locked : bool
}.

Definition expected_screen_methods : list string :=
  ["draw_screen"; "flush"; "get_available_raw_input"; "write"]%string.

Definition screen_required (m : screen_method) : bool :=
  m_direct m || existsb (String.eqb (m_name m)) expected_screen_methods.

Definition screen_locked (m : screen_method) : bool :=
  if screen_required m then m_overridden m && m_locked m else true.

Definition screen_covers (tbl : list screen_method) : bool :=
  forallb (fun n => existsb (fun m => String.eqb (m_name m) n && m_in_base m && m_touches_tty m) tbl)
          expected_screen_methods.

(** ** The hand-over decision of [_process_start_wrapper] ([utils.py:759-779])

    The translator also reads the [if] / [elif] / [else] chain that decides, inside
    [with _tty_lock:], what the child process is handed ([self._tty_lock = ...]) into a
    decision table.  Its conditions are boolean expressions over
    - [CThreadLock]: [isinstance(_tty_lock, _rlock_type)] (the global is still the thread lock),
    - [CConf f]: a module global of [utils.py] that holds a library SETTING, read as a truth
      value (0 = [_queries_enabled], 1 = [_swap_win_size], 2 = [_query_timeout],
      3 = [_tty_fd], 9 = any other module global);
    anything else in a condition is refused by the translator.  The outcome of a branch:
    - [ONew]: [self._tty_lock = _tty_lock = mp_RLock()] (a new shared lock replaces the
      global and is handed over; the [except ImportError] arm of a platform without
      [multiprocessing.synchronize] is outside the property),
    - [OGlobal]: [self._tty_lock = _tty_lock] (the current global is handed over),
    - [ONone]: [self._tty_lock = None] (the child is handed nothing).
    [h_run_installs]: [_process_run_wrapper] begins with
    [if self._tty_lock: _tty_lock = self._tty_lock] (the child installs what it was handed,
    unconditionally otherwise). *)
Inductive hcond :=
| CTrue | CFalse
| CThreadLock
| CConf (f : nat)
| CNot (a : hcond)
| CAnd (a b : hcond)
| COr (a b : hcond).

Inductive houtcome := ONew | OGlobal | ONone.

Record handover_table := {
  h_under_lock : bool;                     (* the chain is the body of [with _tty_lock:] *)
  h_branches : list (hcond * houtcome);    (* [if] / [elif], in source order *)
  h_else : houtcome;
  h_run_installs : bool
}.

Fixpoint eval_hcond (c : hcond) (is_t : bool) (q : nat -> bool) : bool :=
  match c with
  | CTrue => true
  | CFalse => false
  | CThreadLock => is_t
  | CConf f => q f
  | CNot a => negb (eval_hcond a is_t q)
  | CAnd a b => eval_hcond a is_t q && eval_hcond b is_t q
  | COr a b => eval_hcond a is_t q || eval_hcond b is_t q
  end.

Fixpoint eval_branches (l : list (hcond * houtcome)) (d : houtcome) (is_t : bool) (q : nat -> bool)
  : houtcome :=
  match l with
  | [] => d
  | (c, o) :: r => if eval_hcond c is_t q then o else eval_branches r d is_t q
  end.

(** what the child is handed when the global is / is not the thread lock, under the
    configuration [q] of the starting process *)
Definition eval_handover (tbl : handover_table) (is_t : bool) (q : nat -> bool) : houtcome :=
  eval_branches (h_branches tbl) (h_else tbl) is_t q.
