(** * RArgsShape — where the initial set is validated; the shape of a render class statement (C16)

    Two dimensions of the property's quantifier that [RArgs.v] leaves implicit.

    1. THE INITIAL SET x WHAT FOLLOWS.  [RenderArgs(cls, init, *namespaces)]: the initial set
       may be [BASE_RENDER_ARGS], the interned DEFAULT set of its class, or any other set; its
       class may be the target, an ancestor, a descendant, a sibling or unrelated; namespaces
       may or may not follow.  The code validates it FIRST and unconditionally
       (_types.py:911-916, [RArgs.rnew]); the excluded design validates it only where the set
       "is actually used" ([CheckWhenUsed]: in the namespace-less fast path of [__new__] and in
       the branch of [__init__] that copies a non-default initial set).

    2. MIX-INS.  A render class statement may list ordinary (non-render) classes among its
       bases: [class Q(Mixin, B)], [class P(B, Mixin)].  The render classes still form the
       forest of [RArgs.v] (one DIRECT render base [par c] per class); class [c] lists
       [m_before c] mix-ins before its render base, [m_after c] after everything else and,
       when [m_mid c > 0], [m_mid c] mix-ins BETWEEN its render base and a second, redundant
       render base [m_g c] (a proper ancestor of [par c]: [class Q(B, Mixin, A)]), which
       C3 places right before [m_g c] in the MRO.  Every mix-in is a fresh plain subclass of
       [object].  [mro] is [c.__mro__] without [object] (C3 on these statements; validated
       against the real [__mro__] by the correspondence).  [RenderableMeta.__new__]
       (_renderable.py:81-87) walks the MRO and SKIPS ([continue]) what is not a render class;
       the excluded design STOPS ([break]) at the first one.

    Definitions only; proofs in [proofs/RArgsShapeProofs.v]. *)
From Coq Require Import List ZArith Bool Arith.
Import ListNotations.
From TI Require Import model.RArgs.

(** ** 1. Where the initial set is validated *)

Inductive init_check :=
| CheckAlways       (* the code *)
| CheckWhenUsed.    (* excluded *)

(** does the constructor run the compatibility test of the initial set at all *)
Definition init_checked (p : init_check) (h : heap) (k : nat)
           (ii : option (nat * nat * nat * dict)) (nss : list nsv) : bool :=
  match p with
  | CheckAlways => true
  | CheckWhenUsed => match nss with
                     | [] => true                           (* the fast paths of [__new__] *)
                     | _ => negb (default_like h k ii)      (* the copying branch of [__init__] *)
                     end
  end.

(** [K(cls, init, *nss)] under a placement of the test: an initial set that escapes the test
    is default-like, so [__init__] ignores it *)
Definition construct_p (p : init_check) (F : forest) (h : heap) (k cls : nat) (init : option nat)
           (nss : list nsv) : heap * res nat :=
  match init_info h init with
  | Some (Some (i, ki, ci, di)) =>
    if negb (anc F ci cls) && negb (init_checked p h k (Some (i, ki, ci, di)) nss)
    then construct F h k cls None nss
    else construct F h k cls init nss
  | _ => construct F h k cls init nss
  end.

(** ** 2. Class statements with mix-ins *)

Inductive mitem :=
| MR (c : nat)          (* render class c *)
| MX (c j : nat).       (* the j-th mix-in listed by the statement of class c *)

Record mixes := { m_before : nat -> nat; m_after : nat -> nat; m_mid : nat -> nat; m_g : nat -> nat }.

Definition mix_items (c lo n : nat) : list mitem := map (MX c) (seq lo n).

(** [mid] placed right before render class [g] *)
Fixpoint ins_before (g : nat) (mid l : list mitem) : list mitem :=
  match l with
  | [] => []
  | MR c :: r => if Nat.eqb c g then mid ++ MR c :: r else MR c :: ins_before g mid r
  | x :: r => x :: ins_before g mid r
  end.

(** [c.__mro__] without [object]: [class c(before..., par c, [mid..., m_g c,] after...)] *)
Fixpoint mro_f (p : nat -> nat) (mx : mixes) (fuel c : nat) : list mitem :=
  MR c :: mix_items c 0 (m_before mx c)
       ++ ins_before (m_g mx c) (mix_items c (m_before mx c + m_after mx c) (m_mid mx c))
                     match fuel with
                     | 0 => []
                     | S f => if Nat.eqb c 0 then [] else mro_f p mx f (p c)
                     end
       ++ mix_items c (m_before mx c) (m_after mx c).
Definition mro (F : forest) (mx : mixes) (c : nat) : list mitem := mro_f (par F) mx c c.

Inductive walk_policy :=
| SkipNonRender     (* the code: [if not issubclass(mro_cls, Renderable): continue] *)
| StopAtNonRender.  (* excluded: [break] *)

(** the render classes the loop of [RenderableMeta.__new__] visits *)
Fixpoint walk (pol : walk_policy) (l : list mitem) : list nat :=
  match l with
  | [] => []
  | MR c :: r => c :: walk pol r
  | MX _ _ :: r => match pol with SkipNonRender => walk pol r | StopAtNonRender => [] end
  end.

(** the keys of [c._ALL_DEFAULT_ARGS]: the owner classes whose default namespace
    [RenderArgs(c)] holds, in order *)
Definition held (pol : walk_policy) (F : forest) (mx : mixes) (c : nat) : list nat :=
  filter (hasns F) (walk pol (mro F mx c)).

(** the rule: the hierarchy of [c] is [c] and its ancestors BY INHERITANCE; a set for [c]
    holds a namespace for class [a] exactly when [a] is in the hierarchy and owns a
    namespace class — no mention of mix-ins or of the MRO *)
Definition in_hierarchy (F : forest) (c a : nat) : bool := ns_compatible F c (a, []).

Definition no_mixes : mixes :=
  {| m_before := fun _ => 0; m_after := fun _ => 0; m_mid := fun _ => 0; m_g := fun _ => 0 |}.
Definition mk_mixes (b a m g : list nat) : mixes :=
  {| m_before := fun c => nth c b 0; m_after := fun c => nth c a 0;
     m_mid := fun c => nth c m 0; m_g := fun c => nth c g 0 |}.
