(** * RenderOps — finalisation bookkeeping of the one-shot render operations (C10)

    Mirrors the control structure of

    - [Renderable._init_render_]   [_renderable.py:1112-1142]
      (argument compatibility, [_get_render_data_], padding resolution, size validation,
       the renderer call, [finally: if finalize: render_data.finalize()])
    - [Renderable.render] / [__str__]   [_renderable.py:393-402,593-623]
    - [Renderable.draw]                 [_renderable.py:535-591]
    - [Renderable._animate_]            [_renderable.py:727-813]
      (a [RenderIterator._from_render_data_(..., finalize=False)] driven by [next] until it
       stops or fails, [set_padding(NO_PADDING)] after the first frame,
       [finally: render_iter.close()])

    with the render data's ghost state of [Iter] ([finalized], [fin_calls], the log of
    [_render_] invocations with the [finalized] flag they saw).  Terminal writes, cursor
    and termios handling are C06 / C07 / C13's business and are not modelled.

    "Garbage collection": when [_init_render_] raises out of size validation with
    [finalize=False] ([draw]), nobody holds the render data any more and
    [RenderData.__del__] finalizes it ([_types.py:1286-1290]); the model records that this
    path was taken in [o_by_gc] (relies on CPython reference counting). *)
From Coq Require Import List ZArith Bool Lia.
Import ListNotations.
From TI Require Import model.Iter.
Open Scope Z_scope.

Record oresult := {
  o_created : nat;        (* render data objects created by [_get_render_data_] *)
  o_gh : ghost;           (* ... and the ghost state of that object at the end *)
  o_exc : option err;     (* the exception the operation propagated *)
  o_by_gc : bool          (* finalized by [RenderData.__del__] rather than explicitly *)
}.

(** render data fresh from [_get_render_data_] *)
Definition g0 : ghost := {| owns := false; finalized := false; fin_calls := 0; log := [] |}.

Section Ops.
  Variable RS : Type.
  Variable render : RS -> Z -> whence -> size -> dur -> Z -> rres * RS.
  Variable n : option Z.
  Variable term : size.

  Definition exc_of (r : rres) : option err :=
    match r with ROk _ => None | RStop => Some (ERender 0) | RErr e => Some (ERender e) end.

  (** one [_render_] of the current frame ([iteration=False]: [frame_offset] is the
      renderable's own current frame, whence START) on data with ghost [g] *)
  Definition render_current (c : config) (a : Z) (rs0 : RS) (g : ghost) : ghost * rres :=
    let g1 := {| owns := owns g; finalized := finalized g; fin_calls := fin_calls g;
                 log := {| rc_fo := c_frame c; rc_wh := WStart; rc_size := c_size c; rc_dur := c_dur c;
                           rc_args := a; rc_finalized := finalized g |} :: log g |} in
    (g1, fst (render rs0 (c_frame c) WStart (c_size c) (c_dur c) a)).

  (** [render()] and [__str__]: [_init_render_(self._render_, ..., finalize=True)] *)
  Definition op_render (c : config) (rs0 : RS) : oresult :=
    match c_args c with
    | None => {| o_created := 0; o_gh := g0; o_exc := Some EIncompat; o_by_gc := false |}
    | Some a =>
      let '(g1, res) := render_current c a rs0 g0 in
      {| o_created := 1; o_gh := data_finalize g1; o_exc := exc_of res; o_by_gc := false |}
    end.

  (** size validation of [_init_render_], lines 1121-1137 *)
  Definition fits (c : config) (allow_scroll : bool) : bool :=
    let '(w, h) := padded_size (resolve term (c_pad c)) (c_size c) in
    (w <=? fst term) && (allow_scroll || (h <=? snd term)).

  (** [draw(animate=False)] (or a non-animated renderable) *)
  Definition op_draw_still (c : config) (check_size allow_scroll : bool) (rs0 : RS) : oresult :=
    match c_args c with
    | None => {| o_created := 0; o_gh := g0; o_exc := Some EIncompat; o_by_gc := false |}
    | Some a =>
      if check_size && negb (fits c allow_scroll)
      then (* raised out of [_init_render_(finalize=False)]: the data is dropped *)
        {| o_created := 1; o_gh := data_finalize g0; o_exc := Some ESizeRange; o_by_gc := true |}
      else
        let '(g1, res) := render_current c a rs0 g0 in
        (* draw:584-591 [finally: ... render_data.finalize()] *)
        {| o_created := 1; o_gh := data_finalize g1; o_exc := exc_of res; o_by_gc := false |}
    end.

  (** what [_animate_] does with its iterator: [next]; after the first frame
      [set_padding(NO_PADDING)]; then [next] until it stops or fails ([fuel]: an upper
      bound on the number of frames, or the moment of a KeyboardInterrupt) *)
  Fixpoint drive (s : state RS) (fuel : nat) : state RS * option err :=
    match fuel with
    | O => (s, None)
    | S f =>
      let '(s', x) := step RS render n term s Next in
      match x with
      | OFrame _ => drive s' f
      | OErr e => (s', Some e)
      | _ => (s', None)
      end
    end.

  Definition animate (s : state RS) (fuel : nat) : state RS * option err :=
    let '(s1, x) := step RS render n term s Next in
    match x with
    | OFrame _ =>
      let s2 := fst (step RS render n term s1 (SetPadding (PExact 0 0 0 0))) in
      let '(s3, e) := drive s2 fuel in
      (close RS s3, e)                      (* finally: render_iter.close() *)
    | OErr e => (close RS s1, Some e)
    | _ => (close RS s1, None)
    end.

  (** [draw()] of an animation *)
  Definition op_draw_anim (c : config) (fuel : nat) (rs0 : RS) : oresult :=
    match c_args c with
    | None => {| o_created := 0; o_gh := g0; o_exc := Some EIncompat; o_by_gc := false |}
    | Some a =>
      if negb (fits c false)
      then {| o_created := 1; o_gh := data_finalize g0; o_exc := Some ESizeRange; o_by_gc := true |}
      else
        (* _animate_:732-740: caller-owned data, [False if loops == 1 else cache] *)
        let c' := {| c_loops := c_loops c; c_cache := animate_cache (c_loops c) (c_cache c);
                     c_size := c_size c; c_dur := c_dur c; c_args := c_args c; c_pad := c_pad c;
                     c_owns := false; c_frame := c_frame c |} in
        match mk RS n term c' rs0 with
        | inr e => {| o_created := 1; o_gh := data_finalize g0; o_exc := Some e; o_by_gc := false |}
        | inl s =>
          let '(s', e) := animate s fuel in
          (* draw:584-591 [finally: ... render_data.finalize()] *)
          {| o_created := 1; o_gh := data_finalize (gh s'); o_exc := e; o_by_gc := false |}
        end
    end.
End Ops.
