(** Executable comparison used by the C15 correspondence for histories run against the
    library's REAL [get_terminal_size()] on a pty whose window is resized with TIOCSWINSZ,
    in a process environment that holds — or not — [COLUMNS] / [LINES]
    (harness/impl/impl_c15.py, cases with a "real" part).

    A case is a case of [model/CachesTie.v] whose history may contain environment changes
    ([EnvSet]) and which starts in the environment [ec_pe]; rows are reported for library
    operations only.  The twin's fresh values are computed for the WINDOW the driver has set
    (the twin never sees the environment nor the function under test).

    [echeck]: 1 = differs from the model ([etrace key_window]: the window is the key);
    2 = the observed behaviour contradicts the SPECIFICATION — [spec_trace] of the history of
    library operations and the twin's fresh values for the current window and settings —
    (only judged when the history satisfies the property's side condition [px_okb]). *)
From Coq Require Import List ZArith Bool Arith.
Import ListNotations.
From TI Require Import lib.Sched model.Caches model.CachesTie model.CachesEnv.
Open Scope Z_scope.

Record ecase := {
  ec_env : tenv;
  ec_pe : penv;
  ec_t0 : tsize;
  ec_ops : list eop;
  ec_obs : list (list Z * list Z);
  ec_fc : list (list Z);
  ec_fe : list (list Z)
}.

Definition echeck (c : ecase) : nat :=
  let e := ec_env c in
  let ops := strip (ec_ops c) in
  let ok_model :=
      rows_eqb true ops (ec_obs c) (etrace key_window e (einit key_window (ec_pe c) (ec_t0 c)) (ec_ops c))
      && fresh_ok e (hinit (ec_t0 c)) ops (ec_fc c) (ec_fe c) in
  let ok_spec :=
      negb (wf_sizes (ec_t0 c) ops && px_okb e (hinit (ec_t0 c)) ops)
      || (rows_eqb false ops (ec_obs c) (spec_trace e (hinit (ec_t0 c)) ops)
          && obs_ok e (hinit (ec_t0 c)) ops (ec_obs c) (ec_fc c) (ec_fe c)) in
  ((if ok_model then 0 else 1) + (if ok_spec then 0 else 2))%nat.

(** all cases: (index, check code + 10 if the history satisfies the side condition) *)
Definition ereport (cases : list ecase) : list (nat * nat) :=
  index_from 0 (map (fun c => (echeck c
                               + (if wf_sizes (ec_t0 c) (strip (ec_ops c))
                                     && px_okb (ec_env c) (hinit (ec_t0 c)) (strip (ec_ops c)) then 10 else 0))%nat)
                    cases).
