(** * PadContent — [Padding.pad] ([padding.py:161-194]) and the CONTENT of the render.

    [pad] is a public function on arbitrary render outputs: "a string of [height] lines
    separated by "\n"" ([Renderable._render_]: exactly [height - 1] occurrences of "\n"),
    each line occupying [width] columns.  What the lines are made of is the caller's: glyphs,
    escape sequences in the middle of a line, characters that occupy no column (U+2028,
    U+2029, U+0085, U+001C..U+001E, ... — ignored by the terminal, token [TNul] / any other
    zero-width token here).  The LINES of a render are what [split_lf] returns: the pieces
    between the [TLF] tokens and nothing else; every other token belongs to the line it is in.

    [model/Padding.v] / [model/PadGen.v] define [pad] by substitution of every [TLF]
    ([render.replace("\n", right + "\n" + left)]).  Here: the line view for EVERY token list
    ([split_lf], the inverse of [Lines.joinlf]), the padded lines with an arbitrary per-line
    content map ([pad_lines_map]), substitution of the content token by token
    ([subst_content]) — and an EXCLUDED design, [pad_splitlines]: the output built line by
    line from a split that ALSO breaks (and drops) at further separator tokens
    ([str.splitlines()]: "\r", "\v", "\f", U+001C..U+001E, U+0085, U+2028, U+2029). *)
From Coq Require Import List ZArith Bool Lia.
Import ListNotations.
From TI Require Import lib.Term lib.Lines model.Padding model.PadGen.
Open Scope Z_scope.

(** the pieces of [R] between the tokens [sep] accepts (which are dropped); never empty *)
Fixpoint split_on (sep : tok -> bool) (R : list tok) : list (list tok) :=
  match R with
  | [] => [[]]
  | x :: rest =>
    if sep x then [] :: split_on sep rest
    else match split_on sep rest with
         | [] => [[x]]
         | ln :: more => (x :: ln) :: more
         end
  end.

(** the lines of a render output: [render.split("\n")] *)
Definition split_lf : list tok -> list (list tok) := split_on is_lf.

(** the padded lines of a render whose line [ln] has the content [f ln]
    ([PadGen.pad_lines_gen] is the instance [f = id]) *)
Definition pad_lines_map (f : list tok -> list tok) (fill : option (list tok)) (d : Z * Z * Z * Z) (w : Z)
           (ls : list (list tok)) : list (list tok) :=
  let '(l, t, r, b) := d in
  let width := l + w + r in
  repeat (gfillseg fill width) (Z.to_nat t)
  ++ map (fun ln => gfillseg fill l ++ f ln ++ gfillseg fill r) ls
  ++ repeat (gfillseg fill width) (Z.to_nat b).

(** every token of the content replaced by the tokens [s] gives for it; line feeds stay *)
Definition subst_content (s : tok -> list tok) (R : list tok) : list tok :=
  flat_map (fun x => if is_lf x then [TLF] else s x) R.

(** the fill has no line feed in it *)
Definition fill_nolf (fill : option (list tok)) : Prop := forall f, fill = Some f -> nolf f.

(** ** an EXCLUDED design: the output built line by line, the lines obtained by a split that
    also breaks at (and drops) the tokens [issep] accepts *)
Definition pad_splitlines (issep : tok -> bool) (fill : option (list tok)) (d : Z * Z * Z * Z) (w : Z)
           (R : list tok) : list tok :=
  let '(l, t, r, b) := d in
  let width := l + w + r in
  let line := gfillseg fill width in
  if (l =? 0) && (t =? 0) && (r =? 0) && (b =? 0) then R
  else joinlf (repeat line (Z.to_nat t)
               ++ (if negb (l =? 0) || negb (r =? 0)
                   then map (fun ln => gfillseg fill l ++ ln ++ gfillseg fill r)
                            (split_on (fun x => is_lf x || issep x) R)
                   else [R])
               ++ repeat line (Z.to_nat b)).

(** a zero-width character standing for U+2028 etc.: ignored by the terminal *)
Definition is_nul (x : tok) : bool := match x with TNul => true | _ => false end.
