(** Executable comparison for the environment part of the C19 correspondence
    (harness/props/c19.py, harness/impl/impl_c19env.py).

    One case = one specifier pushed through one route (0 format(image, spec);
    1 next(ImageIterator(animated image, 1, spec)); 2 str(image), specifier ignored) in a
    child process whose standard streams are the recorded combination of pipes and
    pseudo-terminal, with the recorded terminal size.  Observed: the outcome class, the
    geometry MEASURED on the returned string, the explicit parameters the driver derived
    from the documentation, and whether the string equals the explicit-parameter route's.

    [gcheck]: 0 agrees; +1 differs from the model of the code ([FmtEnv.impl_format] in the
    recorded environment); +2 contradicts the documentation ([FmtSpecTie.doc_outcome] +
    [FmtEnv.geom_ok]: outcome class, documented geometry, explicit parameters =
    [draw_params], same string as the explicit route). *)
From Coq Require Import List Bool Arith NArith ZArith.
Import ListNotations.
From TI Require Import lib.Re lib.CRe gen.Regexes model.FmtSpec model.FmtSpecTie model.FmtEnv.

Record gcase := {
  q_sty : style;
  q_spec : list N;
  q_cols : Z; q_lines : Z;                  (* terminal size of the environment *)
  q_in : bool; q_out : bool; q_err : bool;  (* standard streams on the terminal? *)
  q_route : nat;                            (* 0 format()  1 ImageIterator  2 str() *)
  q_rc : Z; q_rl : Z;                       (* image.rendered_size *)
  q_kind : nat;                             (* observed: 0 a string, 1 ValueError, 2 StyleError *)
  q_geom : list Z;                          (* [lines; line width | -1; top | -1; left | -1] *)
  q_x : list Z;                             (* explicit route: [h 0/1/2; pad_width; v 0/1/2; pad_height] *)
  q_same : nat                              (* 1 same string as the explicit route; 0 not; 2 that route raised *)
}.

Definition env_of (c : gcase) : env :=
  {| e_ts := {| cols := q_cols c; lines := q_lines c |};
     e_in_tty := q_in c; e_out_tty := q_out c; e_err_tty := q_err c |}.

Definition fields_of (sty : style) (s : list N) : option (fields * option sfields) :=
  match parse s with
  | None => None
  | Some f =>
      match f_style f with
      | None => Some (f, None)
      | Some t => match parse_style sty t with Some sf => Some (f, Some sf) | None => None end
      end
  end.

(** format() on a string, in an environment: the regular expressions, then [impl_format] *)
Definition impl_format_str (e : env) (sty : style) (rs : rsize) (s : list N) : option formatted :=
  if negb (matches A_impl_main (cls s)) then Some FValueErr
  else if negb (matches (A_impl sty) (cls s)) then Some FStyleErr
  else match fields_of sty s with
       | Some (f, sf) => Some (impl_format e sty rs f sf)
       | None => None
       end.

Definition geom_of (l : list Z) : option geom :=
  match l with
  | [n; w; t; x]%Z => Some {| g_lines := n; g_width := w; g_top := t; g_left := x |}
  | _ => None
  end.

Definition geom_list (g : geom) : list Z := [g_lines g; g_width g; g_top g; g_left g].

Definition gcheck (c : gcase) : nat :=
  let e := env_of c in
  let rs := {| rc := q_rc c; rl := q_rl c |} in
  let plain := match q_route c with 2 => true | _ => false end in
  let ok_model :=
    if plain then (q_kind c =? 0) && zl_eqb (q_geom c) [q_rl c; q_rc c; 0; 0]%Z
    else
      match impl_format_str e (q_sty c) rs (q_spec c) with
      | None => false
      | Some (FOk g _ _) => (q_kind c =? 0) && zl_eqb (q_geom c) (geom_list g)
      | Some FValueErr => q_kind c =? 1
      | Some FStyleErr => q_kind c =? 2
      end in
  let ok_spec :=
    if plain then
      (q_kind c =? 0) && (q_same c =? 1)
      && match geom_of (q_geom c) with Some g => geom_plain rs g | None => false end
    else
      match doc_outcome (e_ts e) (q_sty c) (q_spec c) with
      | None => false
      | Some (k, om) =>
          (k =? q_kind c)
          && match om with
             | None => true
             | Some m =>
                 match geom_of (q_geom c) with
                 | Some g => geom_ok m rs g
                 | None => false
                 end
                 && zl_eqb (q_x c) (fst (draw_params (q_sty c) m))
                 && (q_same c =? 1)
             end
      end in
  (if ok_model then 0 else 1) + (if ok_spec then 0 else 2).

Definition gbad (cases : list gcase) : list (nat * nat) :=
  filter (fun p => negb (Nat.eqb (snd p) 0)) (index_from 0 (map gcheck cases)).
