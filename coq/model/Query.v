(** C12 — executable model of the terminal-query machinery of term_image.

    Mirrors, branch for branch:
      utils.py:587-628   query_terminal          -> [query]
      utils.py:631-717   read_tty                -> [read_loop] (timed branch, min = 0),
                                                    [drain_loop] (timeout is None)
      utils.py:403-473   get_cell_size           -> [get_cell_size]
      utils.py:486-527   get_fg_bg_colors        -> [get_fg_bg]
      utils.py:530-558   get_terminal_name_version -> [get_name_version]
      _ctlseqs.py:207-227 response regexes       -> [match_rgb_at]/[parse_rgb_replies],
                                                    [parse_xtversion], [parse_xtwinops],
                                                    [parse_kitty_reply]
      _ctlseqs.py:260-275 x_parse_color          -> [x_parse_color]  (per-component scale: /repo 54d19bd,
                                   the repair of F7)
      image/kitty.py:296-335  KittyImage.is_supported   -> [kitty_supported], [kitty_is_supported]
                                   (stop at the "c" that ends the DA1 reply: /repo ea400a1,
                                    the repair of F10)
      image/iterm2.py:488-504 ITerm2Image.is_supported  -> [iterm2_supported]
      image/__init__.py:42-51,102 auto_image_class      -> [auto_style], [auto_image_class]

    Time is an abstract clock ([Z] ticks).  The terminal is a function from the request
    written to an arrival schedule (times relative to the write).  Every loop iteration /
    system call takes [cost i] ticks, [i] a global step counter — theorems quantify over
    every bounded [cost].  Definitions only; proofs are in proofs/Query{Read,Parse,Get,End}Proofs.v. *)
From Coq Require Import Ascii String List ZArith Bool Arith.
Import ListNotations.
Open Scope Z_scope.

Notation byte := Z (only parsing).

Definition bs (s : string) : list byte :=
  map (fun a => Z.of_N (N_of_ascii a)) (list_ascii_of_string s).

Definition ESC : byte := 27.
Definition BEL : byte := 7.
Definition CSI : list byte := [27; 91].   (* ESC [ *)
Definition OSC : list byte := [27; 93].   (* ESC ] *)
Definition ST  : list byte := [27; 92].   (* ESC \ *)
Definition DCS : list byte := [27; 80].   (* ESC P *)
Definition APC : list byte := [27; 95].   (* ESC _ *)

(** requests (_ctlseqs.py:56-58,123-124,140-141,169-172) *)
Definition DA1_q : list byte := CSI ++ bs "c".
Definition XTVERSION_q : list byte := CSI ++ bs ">q".
Definition TEXT_FG_q : list byte := OSC ++ bs "10;?" ++ ST.
Definition TEXT_BG_q : list byte := OSC ++ bs "11;?" ++ ST.
Definition CELL_SIZE_PX_q : list byte := CSI ++ bs "16t".
Definition TEXT_AREA_SIZE_PX_q : list byte := CSI ++ bs "14t".
Definition KITTY_SUPPORT_q : list byte :=
  APC ++ bs "Ga=q,t=d,i=31,f=24,s=1,v=1,C=1,c=1,r=1;AAAA" ++ ST.

(** ** byte-list helpers *)

Fixpoint beq (a b : list byte) : bool :=
  match a, b with
  | [], [] => true
  | x :: a', y :: b' => (x =? y) && beq a' b'
  | _, _ => false
  end.

(** [strip p s = Some r] iff [s = p ++ r] *)
Fixpoint strip (p s : list byte) : option (list byte) :=
  match p with
  | [] => Some s
  | x :: p' => match s with
               | y :: s' => if x =? y then strip p' s' else None
               | [] => None
               end
  end.

Definition starts_with (p s : list byte) : bool :=
  match strip p s with Some _ => true | None => false end.

(** bytes.endswith *)
Definition ends_with (suffix s : list byte) : bool := starts_with (rev suffix) (rev s).

Fixpoint span (p : byte -> bool) (s : list byte) : list byte * list byte :=
  match s with
  | [] => ([], [])
  | b :: r => if p b then let (a, t) := span p r in (b :: a, t) else ([], s)
  end.

Definition is_nil {A} (l : list A) : bool := match l with [] => true | _ => false end.

(** str.split(sep): n separators give n+1 parts *)
Fixpoint split_on (sep : byte) (s : list byte) : list (list byte) :=
  match s with
  | [] => [[]]
  | b :: r =>
      match split_on sep r with
      | [] => [[]]  (* unreachable *)
      | p :: ps => if b =? sep then [] :: p :: ps else (b :: p) :: ps
      end
  end.

(** str.partition(sep)[2] *)
Fixpoint after_first (sep : byte) (s : list byte) : list byte :=
  match s with
  | [] => []
  | b :: r => if b =? sep then r else after_first sep r
  end.

Definition in_range (lo hi b : byte) : bool := (lo <=? b) && (b <=? hi).
Definition is_digit (b : byte) : bool := in_range 48 57 b.
Definition is_lower (b : byte) : bool := in_range 97 122 b.
Definition is_upper (b : byte) : bool := in_range 65 90 b.
(** [\da-fA-F] *)
Definition is_hex (b : byte) : bool := is_digit b || in_range 97 102 b || in_range 65 70 b.
(** \w under re.ASCII *)
Definition is_word (b : byte) : bool := is_digit b || is_lower b || is_upper b || (b =? 95).

(** str.lower() on ASCII *)
Definition lower (s : list byte) : list byte := map (fun b => if is_upper b then b + 32 else b) s.

Definition dec_int (ds : list byte) : Z := fold_left (fun acc d => acc * 10 + (d - 48)) ds 0.

(** ** reading: utils.py:686-717 *)

Notation arrival := (Z * Z)%type (only parsing).         (* absolute arrival time, byte *)
Notation schedule := (list (Z * list Z)) (only parsing).   (* write bursts of the terminal *)

Definition flatten (s : schedule) : list arrival :=
  flat_map (fun u => map (pair (fst u)) (snd u)) s.

Definition shift (d : Z) (s : schedule) : schedule := map (fun u => (fst u + d, snd u)) s.

Fixpoint take_while {A} (p : A -> bool) (l : list A) : list A :=
  match l with
  | [] => []
  | x :: r => if p x then x :: take_while p r else []
  end.

Section Clock.
(** cost of the i-th step (loop iteration / system call) *)
Variable cost : nat -> Z.

Section ReadLoop.
Variable more : list byte -> bool.
Variable timeout : Z.

(** utils.py:698,706-712 — [pend]: bytes on their way, in order, with arrival times.
      start = monotonic(); duration = monotonic() - start
      while (timeout < 0 or duration < timeout) and more(input):
          if select(r, w, x, timeout - duration)[0]: input.extend(os.read(_tty_fd, 1))
          duration = monotonic() - start
    (timeout is positive here: query_terminal passes [timeout or _query_timeout] and
    set_query_timeout refuses values <= 0.)
    Result: input read, bytes still on their way / unread, clock, step counter. *)
Fixpoint read_loop (pend : list arrival) (i : nat) (start now : Z) (input : list byte)
  : list byte * list arrival * Z * nat :=
  if (now - start <? timeout) && more input then
    match pend with
    | [] => (input, [], start + timeout + cost i, S i)        (* select times out *)
    | (t, b) :: rest =>
        if t <? start + timeout
        then read_loop rest (S i) start (Z.max now t + cost i) (input ++ [b])
        else (input, pend, start + timeout + cost i, S i)     (* select times out *)
    end
  else (input, pend, now, i).

End ReadLoop.

(** utils.py:693-696 — timeout is None:
      while select(r, w, x, 0.0)[0]: input.extend(os.read(_tty_fd, 100)) *)
Definition arrived (now : Z) (pend : list arrival) : nat :=
  length (take_while (fun a => fst a <=? now) pend).

Fixpoint drain_loop (fuel : nat) (pend : list arrival) (i : nat) (now : Z) (input : list byte)
  : list byte * list arrival * Z * nat :=
  match fuel with
  | O => (input, pend, now, i)
  | S f =>
      match arrived now pend with
      | O => (input, pend, now + cost i, S i)
      | S _ as n =>
          let k := Nat.min 100 n in
          drain_loop f (skipn k pend) (S i) (now + cost i) (input ++ map snd (firstn k pend))
      end
  end.

Definition drain (pend : list arrival) (i : nat) (now : Z) :=
  drain_loop (S (length pend)) pend i now [].

(** ** the terminal as seen from the library *)

Record tty := {
  now : Z;                      (* clock *)
  pend : list arrival;          (* written by the terminal, not read yet (sorted by time) *)
  tick : nat;                   (* steps taken so far *)
  written : list (list byte)    (* requests written to the terminal *)
}.

Definition terminal := list byte -> schedule.  (* request -> replies, times relative to the write *)

Fixpoint insert (a : arrival) (l : list arrival) : list arrival :=
  match l with
  | [] => [a]
  | x :: r => if fst x <=? fst a then x :: insert a r else a :: l
  end.
Definition merge (old new : list arrival) : list arrival :=
  fold_left (fun acc a => insert a acc) new old.

Record config := {
  enabled : bool;        (* utils._queries_enabled *)
  qtimeout : Z;          (* utils._query_timeout, > 0 *)
  swap : bool;           (* utils._swap_win_size *)
  termux : bool;         (* $SHELL starts with /data/data/com.termux/ *)
  env_name : option (list byte);      (* $TERM_PROGRAM *)
  env_version : option (list byte);   (* $TERM_PROGRAM_VERSION *)
  ws_cols : Z; ws_rows : Z;           (* TIOCGWINSZ / os.get_terminal_size *)
  ws_xpix : Z; ws_ypix : Z;
  ioctl_ok : bool
}.

Section Getters.
Variable cfg : config.
Variable term : terminal.

(** utils.py:617-628 query_terminal: None when disabled; TCSAFLUSH discards the input
    received so far; write; timed read. *)
Definition query (more : list byte -> bool) (request : list byte) (st : tty)
  : option (list byte) * tty :=
  if negb (enabled cfg) then (None, st) else
  let kept := filter (fun a => now st <? fst a) (pend st) in
  let t_w := now st + cost (tick st) in
  let pend' := merge kept (flatten (shift t_w (term request))) in
  match read_loop more (qtimeout cfg) pend' (S (tick st)) t_w t_w [] with
  | (inp, rest, t, i) =>
      (Some inp, {| now := t; pend := rest; tick := i; written := written st ++ [request] |})
  end.

(** read_tty() with no argument *)
Definition drain_tty (st : tty) : list byte * tty :=
  match drain (pend st) (tick st) (now st) with
  | (inp, rest, t, i) => (inp, {| now := t; pend := rest; tick := i; written := written st |})
  end.

Definition more_not_csi (s : list byte) : bool := negb (ends_with CSI s).
Definition more_not_c (s : list byte) : bool := negb (ends_with [99] s).

(** utils.py:505-514 / 539-549: query until the buffer ends with CSI, then, if queries
    are enabled, read_tty() for "the rest of the response to DA1" *)
Definition two_phase (request : list byte) (st : tty) : option (list byte) * tty :=
  let (resp, st1) := query more_not_csi request st in
  (resp, if enabled cfg then snd (drain_tty st1) else st1).

End Getters.
End Clock.

(** ** reply parsers *)

(** [(?:ESC \\|BEL)] : length matched *)
Definition st_or_bel (s : list byte) : option nat :=
  match s with
  | 27 :: 92 :: _ => Some 2%nat
  | 7 :: _ => Some 1%nat
  | _ => None
  end.

(** RGB_SPEC_re = ESC \] (\d+) ; (rgb:[\da-fA-F/]+) (?:ESC \\|BEL)   matched at the head of [s]:
    groups and length of the match.  (No backtracking can succeed: ';' is not a digit,
    ESC and BEL are not in the class.) *)
Definition match_rgb_at (s : list byte) : option ((list byte * list byte) * nat) :=
  match strip OSC s with
  | None => None
  | Some s1 =>
      let (ds, s2) := span is_digit s1 in
      if is_nil ds then None else
      match s2 with
      | 59 :: s3 =>
          match strip (bs "rgb:") s3 with
          | None => None
          | Some s4 =>
              let (body, s5) := span (fun b => is_hex b || (b =? 47)) s4 in
              if is_nil body then None else
              match st_or_bel s5 with
              | Some tl => Some ((ds, bs "rgb:" ++ body),
                                 (2 + length ds + 1 + 4 + length body + tl)%nat)
              | None => None
              end
          end
      | _ => None
      end
  end.

(** re.findall: leftmost, non-overlapping; [skip] = bytes of the current match still to pass *)
Fixpoint findall_rgb (s : list byte) (skip : nat) : list (list byte * list byte) :=
  match s with
  | [] => []
  | _ :: r =>
      match skip with
      | S k => findall_rgb r k
      | O => match match_rgb_at s with
             | Some (g, len) => g :: findall_rgb r (Nat.pred len)
             | None => findall_rgb r 0
             end
      end
  end.
Definition parse_rgb_replies (s : list byte) := findall_rgb s 0.

Definition hexval (b : byte) : Z :=
  if is_digit b then b - 48 else if in_range 97 102 b then b - 87 else b - 55.
Definition hex_int (ds : list byte) : Z := fold_left (fun acc d => acc * 16 + hexval d) ds 0.

(** int(component, 16) * 255 // ((1 << len(component) * 4) - 1); None = ValueError *)
Definition scale_component (c : list byte) : option Z :=
  if is_nil c then None
  else if forallb is_hex c then Some (hex_int c * 255 / (16 ^ Z.of_nat (length c) - 1))
  else None.

(** _ctlseqs.py:260-275.  None = the call raises (ValueError: a component is
    empty or not hexadecimal, or there are not exactly three). *)
Definition x_parse_color (spec : list byte) : option (Z * Z * Z) :=
  match map scale_component (split_on 47 (after_first 58 spec)) with
  | [Some r; Some g; Some b] => Some (r, g, b)
  | _ => None
  end.

(** XTVERSION_re = ESC P > \| (\w+) [( ] ([^)ESC]+) \)? (?:ESC \\|BEL)   via .match() *)
Definition ver_char (b : byte) : bool := negb (b =? 41) && negb (b =? 27).
(** [\)? (?:ESC \\|BEL)] at the head *)
Definition ver_tail_ok (s : list byte) : bool :=
  match s with
  | 41 :: r => match st_or_bel r with Some _ => true | None => false end
  | _ => match st_or_bel s with Some _ => true | None => false end
  end.
(** greedy [^)ESC]+ with backtracking: the longest run after which the tail matches
    (BEL belongs to the class, so a BEL-terminated reply needs the backtracking) *)
Fixpoint ver_match (s : list byte) : option (list byte) :=
  match s with
  | [] => None
  | c :: r =>
      if ver_char c then
        match ver_match r with
        | Some v => Some (c :: v)
        | None => if ver_tail_ok r then Some [c] else None
        end
      else None
  end.

Definition parse_xtversion (s : list byte) : option (list byte * list byte) :=
  match strip (DCS ++ bs ">|") s with
  | None => None
  | Some s1 =>
      let (name, s2) := span is_word s1 in
      if is_nil name then None else
      match s2 with
      | sep :: s3 =>
          if (sep =? 40) || (sep =? 32) then
            match ver_match s3 with
            | Some v => Some (name, v)
            | None => None
            end
          else None
      | [] => None
      end
  end.

(** XTWINOPS = ESC \[ n ; (\d+) ; (\d+) t   via .match() *)
Definition parse_xtwinops (n : byte) (s : list byte) : option (Z * Z) :=
  match strip (CSI ++ [n; 59]) s with
  | None => None
  | Some s1 =>
      let (a, s2) := span is_digit s1 in
      if is_nil a then None else
      match s2 with
      | 59 :: s3 =>
          let (b, s4) := span is_digit s3 in
          if is_nil b then None else
          match s4 with
          | 116 :: _ => Some (dec_int a, dec_int b)
          | _ => None
          end
      | _ => None
      end
  end.

(** (?P<message>.+?) ESC \\ : the shortest non-empty run without newline that is followed by ST *)
Fixpoint lazy_message (s : list byte) : option (list byte) :=
  match s with
  | [] => None
  | c :: r =>
      if c =? 10 then None
      else if starts_with ST r then Some [c]
      else match lazy_message r with Some m => Some (c :: m) | None => None end
  end.

(** KITTY_RESPONSE_re = ESC _ G i=(\d+) (?:,I=(\d+))? ; (.+?) ESC \\  via .match():
    the groups "id" and "message" *)
Definition parse_kitty_reply (s : list byte) : option (list byte * list byte) :=
  match strip (APC ++ bs "Gi=") s with
  | None => None
  | Some s1 =>
      let (id, s2) := span is_digit s1 in
      if is_nil id then None else
      let s3 :=
        match strip (bs ",I=") s2 with
        | Some t => let (n, t') := span is_digit t in if is_nil n then s2 else t'
        | None => s2
        end in
      match s3 with
      | 59 :: s4 => match lazy_message s4 with Some m => Some (id, m) | None => None end
      | _ => None
      end
  end.

(** ** version tuples: tuple(map(int, version.split("."))) *)

Definition is_space (b : byte) : bool := in_range 9 13 b || in_range 28 32 b.
Fixpoint lstrip (s : list byte) : list byte :=
  match s with b :: r => if is_space b then lstrip r else s | [] => [] end.
Definition pystrip (s : list byte) : list byte := rev (lstrip (rev (lstrip s))).

(** decimal digits with single underscores between digits *)
Fixpoint digits_us (s : list byte) (acc : Z) (prev_digit : bool) : option Z :=
  match s with
  | [] => if prev_digit then Some acc else None
  | b :: r =>
      if is_digit b then digits_us r (acc * 10 + (b - 48)) true
      else if (b =? 95) && prev_digit then digits_us r acc false
      else None
  end.

(** int(s) for ASCII s; None = ValueError.  (A byte >= 128 gives None: Unicode digits and
    Unicode white space are not modelled.) *)
Definition py_int (s : list byte) : option Z :=
  match pystrip s with
  | 43 :: r => digits_us r 0 false
  | 45 :: r => option_map Z.opp (digits_us r 0 false)
  | r => digits_us r 0 false
  end.

Fixpoint all_some {A} (l : list (option A)) : option (list A) :=
  match l with
  | [] => Some []
  | Some x :: r => option_map (cons x) (all_some r)
  | None :: _ => None
  end.

Definition version_tuple (v : list byte) : option (list Z) :=
  all_some (map py_int (split_on 46 v)).

(** tuple >= tuple *)
Fixpoint tuple_geb (a b : list Z) : bool :=
  match a, b with
  | _, [] => true
  | [], _ :: _ => false
  | x :: a', y :: b' => if y <? x then true else if x <? y then false else tuple_geb a' b'
  end.

(** ** decision rules *)

(** kitty.py:298-335, given the terminal's name/version and the response to the graphics
    query (None: queries disabled) *)
Definition kitty_reply_ok (resp : option (list byte)) : bool :=
  match resp with
  | Some ((_ :: _) as r) =>
      match parse_kitty_reply r with
      | Some (id, msg) => beq id (bs "31") && beq msg (bs "OK")
      | None => false
      end
  | _ => false
  end.

Definition truthy (o : option (list byte)) : bool :=
  match o with Some (_ :: _) => true | _ => false end.
Definition name_is (name : option (list byte)) (lit : string) : bool :=
  match name with Some n => beq n (bs lit) | None => false end.

(** kitty.py:318-333 *)
Definition kitty_version_rule (name version : option (list byte)) : bool :=
  if name_is name "kitty" && truthy version then
    match version with
    | Some v => match version_tuple v with
                | Some t => tuple_geb t [0; 20; 0]
                | None => false          (* ValueError: version string not "understood" *)
                end
    | None => false
    end
  else name_is name "konsole".

Definition kitty_supported (name version : option (list byte)) (resp : option (list byte)) : bool :=
  if name_is name "iterm2" then false                                    (* :302-303 *)
  else kitty_reply_ok resp && kitty_version_rule name version.           (* :315-333 *)

(** kitty.py:308-313: stop at the "c" that ends the DA1 reply, i.e. a "c" after
    a CSI has been seen — the reply to the graphics query may itself contain a "c" *)
Fixpoint contains (p s : list byte) : bool :=
  starts_with p s || match s with [] => false | _ :: r => contains p r end.
Definition more_kitty (s : list byte) : bool := negb (ends_with [99] s && contains CSI s).

(** iterm2.py:490-506; never None (an unknown version of konsole counts as unsupported) *)
Definition iterm2_supported (name version : option (list byte)) : option bool :=
  if name_is name "iterm2" || name_is name "konsole" || name_is name "wezterm" then
    if negb (name_is name "konsole") then Some true
    else match version with
         | None => Some false                   (* version unknown *)
         | Some v => match version_tuple v with
                     | Some t => Some (tuple_geb t [22; 4; 0])
                     | None => Some false       (* ValueError *)
                     end
         end
  else Some false.

Inductive style := Kitty | Iterm2 | Block.

(** image/__init__.py:48-51,102: for cls in (KittyImage, ITerm2Image, BlockImage):
    if cls.is_supported(): break  — the last class is the result even if unsupported *)
Definition auto_style (kitty iterm2 block : bool) : style :=
  if kitty then Kitty else if iterm2 then Iterm2 else Block.

(** ** the composite getters *)

Definition rgb := (Z * Z * Z)%type.

(** utils.py:516-522: for c, spec in findall: "10" -> fg, "11" -> bg; None = raised *)
Fixpoint fold_colors (l : list (list byte * list byte)) (fg bg : option rgb)
  : option (option rgb * option rgb) :=
  match l with
  | [] => Some (fg, bg)
  | (c, spec) :: r =>
      if beq c (bs "10") then
        match x_parse_color spec with Some v => fold_colors r (Some v) bg | None => None end
      else if beq c (bs "11") then
        match x_parse_color spec with Some v => fold_colors r fg (Some v) | None => None end
      else fold_colors r fg bg
  end.

Definition colors_of_response (resp : option (list byte)) : option (option rgb * option rgb) :=
  match resp with
  | Some ((_ :: _) as r) => fold_colors (parse_rgb_replies r) None None
  | _ => Some (None, None)
  end.

(** utils.py:551-558 *)
Definition name_version_of_response (cfg : config) (resp : option (list byte))
  : option (list byte) * option (list byte) :=
  let m := match resp with Some ((_ :: _) as r) => parse_xtversion r | _ => None end in
  let (name, version) :=
      match m with
      | Some (n, v) => (Some n, Some v)
      | None => (env_name cfg, env_version cfg)
      end in
  (option_map lower name, version).

Inductive cell_result := CsNone | CsSize (w h : Z) | CsRaise.

Definition has_zero (p : Z * Z) : bool := (fst p =? 0) || (snd p =? 0).
Definition cell_ret (p : Z * Z) : cell_result :=
  if has_zero p then CsNone else CsSize (fst p) (snd p).

Definition cache := (Z * Z * Z * Z)%type.  (* columns, lines, cell width, cell height *)

(** utils.py:428-473 without the query: [resp] is the response to the XTWINOPS query
    (used only when [cell_query_needed]) *)
Definition cache_hit (cfg : config) (c : cache) : bool :=
  match c with (c0, c1, _, _) => (ws_cols cfg =? c0) && (ws_rows cfg =? c1) end.   (* :429 *)
Definition ioctl_area (cfg : config) : Z * Z :=
  if ioctl_ok cfg then (ws_xpix cfg, ws_ypix cfg) else (0, 0).                     (* :434-441 *)
Definition ioctl_got (cfg : config) : bool := ioctl_ok cfg && negb (has_zero (ioctl_area cfg)).
Definition cell_query_needed (cfg : config) (c : cache) : bool :=
  negb (cache_hit cfg c) && negb (ioctl_got cfg).                                   (* :443 *)

Definition cell_of_response (cfg : config) (c : cache) (resp : option (list byte))
  : cell_result * cache :=
  match c with
  | (c0, c1, cw, ch) =>
  let cols := ws_cols cfg in
  let rows := ws_rows cfg in
  if cache_hit cfg c then (cell_ret (cw, ch), c)                            (* :429-431 *)
  else
    let tas0 := ioctl_area cfg in
    let '(cell, tas, got) :=
      if ioctl_got cfg then ((0, 0), tas0, true)
      else
        match resp with
        | Some ((_ :: _) as r) =>
            match parse_xtwinops 54 r with                                  (* :453-454 *)
            | Some (h, w) => ((w, h), tas0, false)
            | None =>
                match parse_xtwinops 52 r with                              (* :455-464 *)
                | Some (h, w) => ((0, 0), (if termux cfg then (w, h * 2) else (w, h)), true)
                | None => ((0, 0), tas0, false)
                end
            end
        | _ => ((0, 0), tas0, false)
        end in
    if got then                                                             (* :466-469 *)
      let tas' := if swap cfg then (snd tas, fst tas) else tas in
      if (cols =? 0) || (rows =? 0) then (CsRaise, c)       (* ZeroDivisionError *)
      else
        let cell' := (fst tas' / cols, snd tas' / rows) in
        (cell_ret cell', (cols, rows, fst cell', snd cell'))                (* :471-473 *)
    else (cell_ret cell, (cols, rows, fst cell, snd cell))
  end.

Section IO.
Variable cost : nat -> Z.
Variable cfg : config.
Variable term : terminal.

(** utils.py:486-527 *)
Definition get_fg_bg (st : tty) : option (option rgb * option rgb) * tty :=
  let (resp, st') := two_phase cost cfg term (TEXT_FG_q ++ TEXT_BG_q ++ DA1_q) st in
  (colors_of_response resp, st').

(** utils.py:530-558 *)
Definition get_name_version (st : tty) : (option (list byte) * option (list byte)) * tty :=
  let (resp, st') := two_phase cost cfg term (XTVERSION_q ++ DA1_q) st in
  (name_version_of_response cfg resp, st').

(** utils.py:403-473 *)
Definition get_cell_size (c : cache) (st : tty) : cell_result * cache * tty :=
  if cell_query_needed cfg c then
    let (resp, st1) :=
        query cost cfg term more_not_c
              (CELL_SIZE_PX_q ++ TEXT_AREA_SIZE_PX_q ++ DA1_q) st in        (* :447-450 *)
    (cell_of_response cfg c resp, st1)
  else (cell_of_response cfg c None, st).

(** @cached get_terminal_name_version: [nv] is the memo *)
Definition nv_memo := option (option (list byte) * option (list byte)).
Definition cached_name_version (w : tty * nv_memo)
  : (option (list byte) * option (list byte)) * (tty * nv_memo) :=
  match snd w with
  | Some r => (r, w)
  | None => let (r, st') := get_name_version (fst w) in (r, (st', Some r))
  end.

(** kitty.py:296-335, from [_supported is None] *)
Definition kitty_is_supported (w : tty * nv_memo) : bool * (tty * nv_memo) :=
  let (nv, w1) := cached_name_version w in
  if name_is (fst nv) "iterm2" then (false, w1)
  else
    let (resp, st2) := query cost cfg term more_kitty (KITTY_SUPPORT_q ++ DA1_q) (fst w1) in
    (kitty_supported (fst nv) (snd nv) resp, (st2, snd w1)).

Definition iterm2_is_supported (w : tty * nv_memo) : option bool * (tty * nv_memo) :=
  let (nv, w1) := cached_name_version w in
  (iterm2_supported (fst nv) (snd nv), w1).

(** auto_image_class(); None = ITerm2Image.is_supported raised *)
Definition auto_image_class (w : tty * nv_memo) : option style * (tty * nv_memo) :=
  let (k, w1) := kitty_is_supported w in
  if k then (Some Kitty, w1)
  else
    let (i, w2) := iterm2_is_supported w1 in
    match i with
    | Some true => (Some Iterm2, w2)
    | Some false => (Some Block, w2)
    | None => (None, w2)
    end.

(** ** one cache epoch: utils.cached (utils.py:160-194) around get_fg_bg_colors and
    get_terminal_name_version.  The memo key is [(args, tuple(kwargs.items()))]: for
    get_fg_bg_colors (keyword-only [hex], default False) the three call forms [()], [(hex=False)], [(hex=True)] are
    three different keys (keyword NAME AND VALUE), each computed by its own query. *)
Inductive fg_form := FDefault | FHex (h : bool).
Definition form_hex (f : fg_form) : bool := match f with FDefault => false | FHex h => h end.
Definition form_eqb (a b : fg_form) : bool :=
  match a, b with
  | FDefault, FDefault => true
  | FHex x, FHex y => Bool.eqb x y
  | _, _ => false
  end.

(** HEX_RGB_FMT = "#%02x%02x%02x" (utils.py:524-527), components in 0..255 *)
Definition hex_digit_lc (d : Z) : byte := if d <? 10 then 48 + d else 87 + d.
Definition hex2 (v : Z) : list byte := [hex_digit_lc (v / 16); hex_digit_lc (v mod 16)].
Definition hex_rgb (c : rgb) : list byte := let '(r, g, b) := c in 35 :: hex2 r ++ hex2 g ++ hex2 b.

Inductive colour_value :=
| VRgb (c : option rgb * option rgb)
| VHex (c : option (list byte) * option (list byte)).
(** fg and (HEX_RGB_FMT % fg if hex else fg) *)
Definition represent (hex : bool) (c : option rgb * option rgb) : colour_value :=
  if hex then VHex (option_map hex_rgb (fst c), option_map hex_rgb (snd c)) else VRgb c.

Inductive scall := SFg (f : fg_form) | SNv.
Inductive sres :=
| RFg (v : option colour_value)                   (* None = the call raised (nothing is cached) *)
| RNv (n v : option (list byte)).

Definition fg_memo := list (fg_form * colour_value).
Fixpoint lookup_form (f : fg_form) (m : fg_memo) : option colour_value :=
  match m with
  | [] => None
  | (g, v) :: r => if form_eqb f g then Some v else lookup_form f r
  end.

Definition epoch := (tty * fg_memo * nv_memo)%type.

Definition session_step (call : scall) (w : epoch) : sres * epoch :=
  let '(st, mfg, mnv) := w in
  match call with
  | SFg f =>
      match lookup_form f mfg with
      | Some v => (RFg (Some v), w)                                  (* cache[arguments] *)
      | None =>
          let (r, st') := get_fg_bg st in
          match r with
          | None => (RFg None, (st', mfg, mnv))
          | Some cs => let v := represent (form_hex f) cs in
                       (RFg (Some v), (st', (f, v) :: mfg, mnv))      (* cache.setdefault *)
          end
      end
  | SNv =>
      let (r, w') := cached_name_version (st, mnv) in
      (RNv (fst r) (snd r), (fst w', mfg, snd w'))
  end.

Fixpoint session (calls : list scall) (w : epoch) : list sres * epoch :=
  match calls with
  | [] => ([], w)
  | call :: rest =>
      let (r, w1) := session_step call w in
      let (rs, w2) := session rest w1 in
      (r :: rs, w2)
  end.

End IO.
