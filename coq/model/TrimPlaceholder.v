(** * TrimPlaceholder — [UrwidImage.render] INCLUDING the failure branch ([widget/_urwid.py:126-163])

    [render(size)]: the size of the canvas to produce is settled BEFORE rendering is attempted
    (:129-144: a box size as given; a flow size [(maxcol,)] becomes [(maxcol, image rows)],
    the local [size] is REBOUND to that 2-tuple, :142).  If rendering the image raises (:146-156)
    and an error placeholder is installed ([set_error_placeholder], :179-195), the placeholder
    widget is rendered with that settled 2-tuple (:159) — as a BOX of exactly the size the image
    canvas would have had — otherwise the exception propagates (:157-158).

    The placeholder is any urwid widget: environment.  What matters of it is whether it accepts
    a box size (it then renders a canvas of exactly that size: urwid's box-widget contract) and
    what it does with a flow size (its own number of rows for a width, or refusal).

    [render_outcome_flowsize] is the EXCLUDED design that hands the placeholder the size urwid
    passed in (NOT what the code does; refuted in [proofs/TrimPlaceholderProofs.v]).

    Definitions only. *)
From Coq Require Import List ZArith Bool.
Import ListNotations.
From TI Require Import model.Trim.
Open Scope Z_scope.

(** the placeholder widget *)
Record phw := {
  ph_box : bool;                 (* accepts a box size [(cols, rows)] *)
  ph_flow : Z -> option Z        (* rows of its own flow render at a width; [None]: refuses a flow size *)
}.

Inductive outcome :=
| Raised                         (* [render] raised *)
| Canvas (cols rows : Z).        (* [render] returned a canvas of this size *)

(** [placeholder.render(size)] *)
Definition ph_render (p : phw) (size : list Z) : outcome :=
  match size with
  | [c; r] => if ph_box p then Canvas c r else Raised
  | [c] => match ph_flow p c with Some r => Canvas c r | None => Raised end
  | _ => Raised
  end.

(** the size of the canvas to produce, :129-144 ([None]: "Not a fixed widget") *)
Definition settled_size (size : list Z) (upscale : bool) (fit ori : Z * Z) : option (Z * Z) :=
  match size with
  | [c; r] => Some (c, r)                                                   (* :129-130 *)
  | [c] => Some (flow_canvas_size c upscale fit ori)                        (* :131-142 *)
  | _ => None                                                               (* :143-144 *)
  end.

(** [UrwidImage.render(size)]; [fails]: rendering the image raises; [ph]: the installed
    error placeholder *)
Definition render_outcome (size : list Z) (upscale : bool) (fit ori : Z * Z)
           (fails : bool) (ph : option phw) : outcome :=
  match settled_size size upscale fit ori with
  | None => Raised
  | Some (c, r) =>
    if fails then
      match ph with
      | None => Raised                                                      (* :157-158 *)
      | Some p => ph_render p [c; r]                                        (* :159 *)
      end
    else Canvas c r                                                         (* :161 *)
  end.

Definition render_rows (size : list Z) (upscale : bool) (fit ori : Z * Z)
           (fails : bool) (ph : option phw) : option Z :=
  match render_outcome size upscale fit ori fails ph with
  | Canvas _ r => Some r
  | Raised => None
  end.

(** the excluded design: the placeholder gets the size urwid passed in *)
Definition render_outcome_flowsize (size : list Z) (upscale : bool) (fit ori : Z * Z)
           (fails : bool) (ph : option phw) : outcome :=
  match settled_size size upscale fit ori with
  | None => Raised
  | Some (c, r) =>
    if fails then
      match ph with
      | None => Raised
      | Some p => ph_render p size
      end
    else Canvas c r
  end.
