(** * SettingsRoute — the ROUTE by which a render is requested (C20)

    "The render method actually used for a render is the effective one unless overridden
    for that call" — for every public way a render can be requested, and for EVERY frame
    the request produces:

    - [format(image, spec)] / [str(image)]: [_check_style_format_spec] -> style
      arguments -> [_renderer(self._render_image, alpha, **style_args)]
      ([common.py], [__format__]);
    - [image.draw(..., animate=False, **style)] or [draw()] of a non-animated image:
      [style_args = self._check_style_args(style)] ->
      [self._render_image(image, alpha, **style_args)] ([common.py:766-778]);
    - [image.draw(..., animate=True, **style)] of an animated image:
      [self._display_animated(image, alpha, fmt, repeat, cached, **style_args)]
      ([common.py:768-771]); the STYLE's [_display_animated] edits the keyword dictionary
      ([kitty.py:374-379]: [kwargs["z_index"] = INT32_MIN], [kwargs["blend"] = False] on
      kitty > 0.25.0, everything else forwarded; [iterm2.py:523-550]: [mix] is taken out
      and [mix=True, **kwargs] forwarded), [BaseImage._display_animated]
      ([common.py:1318-1333]) hands [style_args] to [ImageIterator._animate] and
      [_generate_frames] calls [image._render_image(img, alpha, frame=True, **style_args)]
      for every frame ([common.py:2185-2187], [2209-2212]);
    - [ImageIterator(image, repeat, spec)]: [_check_format_spec] -> style arguments ->
      [_animate] -> the same [_generate_frames].

    The keyword dictionary is modelled as an association list; each hop is a function on
    it; the render a route ends in is an [SettingsRender.RRender] whose per-call method is
    WHAT IS LEFT of the [method] key after the hops.  Definitions only; proofs are in
    [proofs/SettingsRouteProofs.v]. *)

From Coq Require Import List ZArith Bool Arith.
Import ListNotations.
From TI Require Import model.Settings model.SettingsRender.

(** ** the style-argument dictionary *)

Inductive skey := KMethod | KZIndex | KMix | KCompress | KBlend.

Definition skey_id (k : skey) : nat :=
  match k with KMethod => 0 | KZIndex => 1 | KMix => 2 | KCompress => 3 | KBlend => 4 end.
Definition skey_eqb (a b : skey) : bool := Nat.eqb (skey_id a) (skey_id b).

Definition sargs := list (skey * Z).

Fixpoint sget (k : skey) (a : sargs) : option Z :=
  match a with
  | [] => None
  | (k', v) :: r => if skey_eqb k k' then Some v else sget k r
  end.
Definition sdel (k : skey) (a : sargs) : sargs :=
  filter (fun p => negb (skey_eqb k (fst p))) a.
(** [d[k] = v] *)
Definition sset (k : skey) (v : Z) (a : sargs) : sargs := (k, v) :: sdel k a.

(** the dictionary a request starts with: [method=m] if a per-call method is given, plus
    the other style arguments of the call (z_index / mix / compress; any [method] entry of
    [others] is not part of "others") *)
Definition req_args (ov : option Z) (others : sargs) : sargs :=
  match ov with
  | Some m => sset KMethod m others
  | None => sdel KMethod others
  end.

(** ** the hops *)

Inductive rstyle := SKitty | SITerm2.

Definition INT32_MIN : Z := (-2147483648)%Z.

(** [KittyImage._display_animated] ([newer]: [_KITTY_VERSION > (0, 25, 0)]) and
    [ITerm2Image._display_animated], as edits of the forwarded keyword dictionary *)
Definition hop_display_animated (s : rstyle) (newer : bool) (a : sargs) : sargs :=
  match s with
  | SKitty =>
    let a1 := sset KZIndex INT32_MIN a in
    if newer then sset KBlend 0 a1 else a1
  | SITerm2 => sset KMix 1 a
  end.

(** ** routes *)

Inductive route :=
| RFormat                     (* format() / str() *)
| RDrawStill                  (* draw() of one frame *)
| RDrawAnimated (fr : nat)    (* frame [fr] of draw(animate=True) of an animated image *)
| RIterator (fr : nat).       (* frame [fr] of an ImageIterator *)

(** [frame=True] is passed to [_render_image] *)
Definition route_frame (r : route) : bool :=
  match r with RFormat | RDrawStill => false | RDrawAnimated _ | RIterator _ => true end.

Definition route_args (s : rstyle) (newer : bool) (r : route) (a : sargs) : sargs :=
  match r with
  | RDrawAnimated _ => hop_display_animated s newer a
  | _ => a
  end.

(** the [_render_image] call a route ends in *)
Definition route_render (s : rstyle) (newer : bool) (i : nat) (ov : option Z) (others : sargs)
           (r : route) : rop :=
  RRender i (sget KMethod (route_args s newer r (req_args ov others))) (route_frame r).

(** ** requests: the public calls, and the routes each of them takes *)

Inductive request := QFormat | QDraw (animate : bool) | QIterate.

(** [animated]: the source is animated; [n]: its number of frames (one pass, [repeat=1]) *)
Definition request_routes (q : request) (animated : bool) (n : nat) : list route :=
  match q with
  | QFormat => [RFormat]
  | QDraw animate => if animate && animated then map RDrawAnimated (seq 0 n) else [RDrawStill]
  | QIterate => map RIterator (seq 0 n)
  end.

(** histories of settings operations, renders and requests *)
Inductive qop :=
| QOp (o : rop)
| QReq (q : request) (i : nat) (ov : option Z) (others : sargs).

Definition expand (s : rstyle) (newer : bool) (src : sources) (frames : nat -> nat) (o : qop)
  : list rop :=
  match o with
  | QOp o' => [o']
  | QReq q i ov others =>
    map (route_render s newer i ov others) (request_routes q (s_animated src i) (frames i))
  end.

(** what all the frames of all the requests of a history report, in order (model) *)
Definition qtrace (s : rstyle) (newer : bool) (k : kind) (par icls : nat -> nat) (src : sources)
           (frames : nat -> nat) (h : list qop) : list rout :=
  rtrace k par icls src (rinit k) (flat_map (expand s newer src frames) h).

(** ** the documented rule: every frame of every route is a render with the per-call
       method of the REQUEST (no dictionary, no hop, no other style argument) *)
Definition spec_expand (src : sources) (frames : nat -> nat) (o : qop) : list rop :=
  match o with
  | QOp o' => [o']
  | QReq q i ov _ =>
    map (fun r => RRender i ov (route_frame r))
        (request_routes q (s_animated src i) (frames i))
  end.

Definition spec_qtrace (k : kind) (par icls : nat -> nat) (src : sources)
           (frames : nat -> nat) (h : list qop) : list rout :=
  spec_rtrace k par icls src [] (flat_map (spec_expand src frames) h).

(** ** an excluded design: the animation hop REBUILDS the frames' style arguments from the
       ones it knows (z_index, mix, compress, blend) instead of forwarding the dictionary *)
Definition hop_rebuild (newer : bool) (a : sargs) : sargs :=
  let keep k d := match sget k a with Some v => v | None => d end in
  let a1 := [(KZIndex, INT32_MIN); (KMix, keep KMix 0%Z); (KCompress, keep KCompress 4%Z)] in
  if newer then (KBlend, 0%Z) :: a1 else a1.

Definition route_render_rebuild (newer : bool) (i : nat) (ov : option Z) (others : sargs)
           (r : route) : rop :=
  RRender i (sget KMethod (match r with
                           | RDrawAnimated _ => hop_rebuild newer (req_args ov others)
                           | _ => req_args ov others
                           end)) (route_frame r).
