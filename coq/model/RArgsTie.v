(** Executable comparison used by the C16 correspondence.

    A case is a class forest, a program and, for every operation, what the
    implementation showed: the result (an object, named by the driver in order of first
    appearance, or an error), a dump of EVERY live object, [==] of the result with every
    object, [in] for some probe namespaces, and the interning tables.  [check] runs the
    heap model ([step_op]) and, independently, the value-level rule ([spec_op]) and
    judges the observation against both.

    NAMESPACE SUBCLASSES.  A namespace class that defines fields may be subclassed; the
    subclass inherits the fields and the association ([_types.py:164-191]: it can neither
    define fields nor be re-associated).  [ArgsNamespace.__eq__], [__hash__] (_types.py:
    386-425), [RenderArgs.__contains__] (:1008) and every compatibility test look at
    [type(ns)._RENDER_CLS] and the field values only, so for the model a namespace VALUE
    is [(render class, field values)] whatever Python class it is an instance of
    ([model.RArgs.nsv], unchanged).  What does follow the Python class is the flow of
    INSTANCES: a set holds the very instance it was given and [ArgsNamespace.update]
    builds [type(self).__new__(type(self))] (:589), i.e. the Python class of a namespace
    behaves exactly like one more field that no [update] can name.  The correspondence
    uses that reading: programs, defaults and dumps are written in the TAGGED encoding
    [(c, tag :: fields)] (tag 0 = the associated class itself = what the defaults are
    instances of; field [j] of the program is field [S j] of the encoding).  [check]
    runs model and rule on the tagged program (sub-checks 7 / 17: which instance's class
    every constituent has) AND on the stripped program [strip_op] (everything else; [==],
    [hash], [in] never see the tag). *)
From Coq Require Import List ZArith Bool Arith.
Import ListNotations.
From TI Require Import model.RArgs.

(** [ob_ns] in the tagged encoding *)
Record oobj := { ob_kind : nat; ob_cls : nat; ob_ns : dict; ob_hash : Z }.
(** a live namespace INSTANCE: render class, [tag :: fields], hash *)
Record onso := { on_cls : nat; on_f : list Z; on_hash : Z }.

Record obs := {
  b_res : Z;                         (* >= 0: driver index of the result; -1-e: error e *)
  b_dump : list oobj;                (* every live object, by driver index *)
  b_eq : list bool;                  (* result == object j *)
  b_in : list bool;                  (* probe in result *)
  b_itn : list (nat * nat * nat);    (* (kind, class, driver index), sorted *)
  b_nsnew : list onso;               (* namespace instances first seen at this step (operands
                                        of the operation, constituents of any live set) *)
  b_nseq : list (list bool)          (* one row per new instance: [==] with every instance
                                        known after this step *)
}.

Record tcase := {
  t_par : list nat;
  t_nsd : list (option (list Z));
  t_nk : nat;
  t_ops : list op;
  t_probes : list (list nsv);
  t_obs : list obs;
  (* after the last operation: every namespace instance again, and the full [==]
     matrices of the namespace instances and of the live sets *)
  t_fin_ns : list onso;
  t_fin_nseq : list (list bool);
  t_fin_eq : list (list bool)
}.

Definition ecode (e : err) : Z :=
  match e with
  | EIncompatRA => 0 | EIncompatNS => 1 | ENoArgsNS => 2 | EValue => 3
  | EUnknownField => 4 | EType => 5 | EBadOperand => 6
  end%Z.

Fixpoint dict_eqb (a b : dict) : bool :=
  match a, b with
  | [], [] => true
  | (k, v) :: a', (k', v') :: b' => Nat.eqb k k' && zl_eqb v v' && dict_eqb a' b'
  | _, _ => false
  end.

Definition oobj_eqb (a b : oobj) : bool :=
  Nat.eqb (ob_kind a) (ob_kind b) && Nat.eqb (ob_cls a) (ob_cls b) &&
  dict_eqb (ob_ns a) (ob_ns b) && Z.eqb (ob_hash a) (ob_hash b).

Fixpoint list_eqb {A} (e : A -> A -> bool) (a b : list A) : bool :=
  match a, b with
  | [], [] => true
  | x :: a', y :: b' => e x y && list_eqb e a' b'
  | _, _ => false
  end.

Definition ozl_eqb (a b : option (list Z)) : bool :=
  match a, b with
  | Some x, Some y => zl_eqb x y
  | None, None => true
  | _, _ => false
  end.

Definition trip_eqb (a b : nat * nat * nat) : bool :=
  let '(x, y, z) := a in let '(x', y', z') := b in
  Nat.eqb x x' && Nat.eqb y y' && Nat.eqb z z'.

Definition bad_id : nat := 3000.
Definition dummy : oobj := {| ob_kind := 99; ob_cls := 99; ob_ns := []; ob_hash := 0 |}.

(** ** The tagged encoding and its erasure *)

Definition strip_ns (n : nsv) : nsv := (fst n, tl (snd n)).
Definition strip_dict (d : dict) : dict := map strip_ns d.
Definition strip_oobj (o : oobj) : oobj :=
  {| ob_kind := ob_kind o; ob_cls := ob_cls o; ob_ns := strip_dict (ob_ns o);
     ob_hash := ob_hash o |}.
Definition strip_opnd (b : nsv + nat) : nsv + nat :=
  match b with inl n => inl (strip_ns n) | inr v => inr v end.
Definition strip_op (o : op) : op :=
  match o with
  | OConstruct k cls init nss => OConstruct k cls init (map strip_ns nss)
  | OUpdateNs x nss => OUpdateNs x (map strip_ns nss)
  | OUpdateFields x rc fields => OUpdateFields x rc (map (fun p => (pred (fst p), snd p)) fields)
  | OConvert x rc => OConvert x rc
  | OOr a b => OOr (strip_ns a) (strip_opnd b)
  | ORor a b => ORor (strip_ns a) (strip_opnd b)
  | OPos a => OPos (strip_ns a)
  | OTo a rc => OTo (strip_ns a) rc
  end.
Definition strip_nsd (nl : list (option (list Z))) : list (option (list Z)) :=
  map (fun o => match o with Some f => Some (tl f) | None => None end) nl.
(** the encoding is well formed: every default namespace is an instance of the
    associated class itself *)
Definition tagged_ok (nl : list (option (list Z))) : bool :=
  forallb (fun o => match o with Some (0%Z :: _) => true | Some _ => false | None => true end) nl.

Definition res_eqb (a b : res nat) : bool :=
  match a, b with
  | Ok i, Ok j => Nat.eqb i j
  | Err e, Err e' => Z.eqb (ecode e) (ecode e')
  | _, _ => false
  end.

(** "same render class, same field values" on observed objects (the documented meaning
    of [==], _types.py:392-394, 1017-1018), whatever the classes of the instances *)
Definition onso_same (x y : onso) : bool :=
  Nat.eqb (on_cls x) (on_cls y) && zl_eqb (tl (on_f x)) (tl (on_f y)).
Definition oobj_same (x y : oobj) : bool :=
  Nat.eqb (ob_cls x) (ob_cls y) && dict_eqb (strip_dict (ob_ns x)) (strip_dict (ob_ns y)).
Definition onso_eqb (x y : onso) : bool :=
  Nat.eqb (on_cls x) (on_cls y) && zl_eqb (on_f x) (on_f y) && Z.eqb (on_hash x) (on_hash y).

(** one row of an observed [==] matrix against a structural relation; equal objects
    hash equal *)
Definition row_ok {A} (same : A -> A -> bool) (hash : A -> Z) (all : list A) (x : A)
           (row : list bool) : bool :=
  Nat.eqb (length row) (length all) &&
  forallb (fun q => Bool.eqb (fst q) (same x (snd q)) &&
                    (negb (fst q) || Z.eqb (hash x) (hash (snd q))))
          (combine row all).
Definition rows_ok {A} (same : A -> A -> bool) (hash : A -> Z) (all xs : list A)
           (rows : list (list bool)) : bool :=
  Nat.eqb (length rows) (length xs) &&
  forallb (fun p => row_ok same hash all (fst p) (snd p)) (combine xs rows).

Record st := {
  s_m : state;                 (* the model's heap and results (stripped program) *)
  s_senv : list (res sval);    (* the rule's values (stripped program) *)
  s_mt : state;                (* the model on the tagged program *)
  s_senvt : list (res sval);   (* the rule on the tagged program *)
  s_mp : list nat;             (* driver index -> model identity *)
  s_prev : list oobj;          (* the previous dump *)
  s_nsl : list onso            (* the namespace instances seen so far *)
}.

(** failing sub-checks of one step: 1-8 concern the heap model, 10-17 the rule.
    [F] is the stripped forest, [Ft] the tagged one, [ot] the tagged operation. *)
Definition step_check (F Ft : forest) (ncls nk : nat) (s : st) (ot : op) (prt : list nsv)
           (b : obs) : st * list nat :=
  let o := strip_op ot in
  let pr := map strip_ns prt in
  let h := fst (s_m s) in
  let env := snd (s_m s) in
  let hr := step_op F h env o in
  let h' := fst hr in
  let r := snd hr in
  let sv := spec_op F (s_senv s) o in
  let hrt := step_op Ft (fst (s_mt s)) (snd (s_mt s)) ot in
  let ht' := fst hrt in
  let rt := snd hrt in
  let svt := spec_op Ft (s_senvt s) ot in
  let mp := s_mp s in
  let isok := (0 <=? b_res b)%Z in
  let j := Z.to_nat (b_res b) in
  let is_new := isok && Nat.eqb j (length mp) in
  let mp' := if is_new then mp ++ [match r with Ok id => id | Err _ => bad_id end] else mp in
  let robjt := nth j (b_dump b) dummy in
  let sdump := map strip_oobj (b_dump b) in
  let robj := strip_oobj robjt in
  let nsl' := s_nsl s ++ b_nsnew b in
  (* --- against the heap model --- *)
  let c1 := match r with
            | Err e => Z.eqb (b_res b) (-1 - ecode e)
            | Ok id => isok &&
                       (if j <? length mp then Nat.eqb (nth j mp bad_id) id
                        else Nat.eqb j (length mp) && negb (existsb (Nat.eqb id) mp))
            end in
  let c2 := Nat.eqb (length (b_dump b)) (length mp') in
  let c3 := forallb (fun p =>
                       match getobj h' (fst p) with
                       | Some (k, c, d) =>
                         Nat.eqb k (ob_kind (snd p)) && Nat.eqb c (ob_cls (snd p)) &&
                         dict_eqb d (ob_ns (snd p))
                       | None => false
                       end) (combine mp' sdump) in
  let c4 := match r with
            | Ok id => list_eqb Bool.eqb (map (fun i => req h' id i) mp') (b_eq b)
            | Err _ => match b_eq b with [] => true | _ => false end
            end in
  let c5 := match r with
            | Ok id => list_eqb Bool.eqb (map (contains h' id) pr) (b_in b)
            | Err _ => match b_in b with [] => true | _ => false end
            end in
  let c6 := list_eqb trip_eqb
              (flat_map (fun k => flat_map (fun c => match itn h' k c with
                                                     | Some i =>
                                                       (* objects the driver has seen *)
                                                       if existsb (Nat.eqb i) mp'
                                                       then [(k, c, i)] else []
                                                     | None => []
                                                     end) (seq 0 ncls)) (seq 0 nk))
              (map (fun t => let '(k, c, x) := t in (k, c, nth x mp' bad_id)) (b_itn b)) in
  (* the tagged run: same identities and errors (the class of a namespace instance
     decides nothing), and every constituent is an instance of the predicted class *)
  let c7 := res_eqb r rt &&
            forallb (fun p =>
                       match getobj ht' (fst p) with
                       | Some (_, _, d) => dict_eqb d (ob_ns (snd p))
                       | None => false
                       end) (combine mp' (b_dump b)) in
  (* [ArgsNamespace.__eq__] as the model has it *)
  let c8 := forallb (fun p =>
                       list_eqb Bool.eqb
                                (map (fun y => ns_eq (on_cls (fst p), tl (on_f (fst p)))
                                                     (on_cls y, tl (on_f y))) nsl')
                                (snd p))
                    (combine (b_nsnew b) (b_nseq b)) in
  (* --- against the rule (no heap): --- *)
  let c10 := match sv with
             | Err e => Z.eqb (b_res b) (-1 - ecode e)
             | Ok _ => isok && (j <? length (b_dump b))
             end in
  let c11 := match sv with
             | Ok v =>
               negb isok ||
               (Nat.eqb (ob_cls robj) (s_cls v) &&
                forallb (fun c => ozl_eqb (dget (ob_ns robj) c) (s_ns v c)) (seq 0 ncls) &&
                Nat.eqb (length (ob_ns robj))
                        (length (filter (fun c => is_some (s_ns v c)) (seq 0 ncls))))
             | Err _ => true
             end in
  (* existing objects are never altered (contents, classes of the constituent instances,
     hash); at most one object appears *)
  let c12 := list_eqb oobj_eqb (firstn (length (s_prev s)) (b_dump b)) (s_prev s) &&
             (length (b_dump b) <=? S (length (s_prev s))) &&
             (isok || Nat.eqb (length (b_dump b)) (length (s_prev s))) in
  (* == is "same class, same values", and equal sets hash equal *)
  let c13 := negb isok ||
             row_ok oobj_same ob_hash (b_dump b) robjt (b_eq b) in
  let c14 := match sv with
             | Ok v => negb isok ||
                       list_eqb Bool.eqb
                                (map (fun n => ozl_eqb (s_ns v (fst n)) (Some (snd n))) pr)
                                (b_in b)
             | Err _ => true
             end in
  (* namespaces: == is "same render class, same values" whatever the classes of the two
     instances, and equal namespaces hash equal *)
  let c15 := rows_ok onso_same on_hash nsl' (b_nsnew b) (b_nseq b) in
  (* the rule on INSTANCES: every constituent of the result is (an instance of the class
     of) the last namespace given, else init's, else the default; a field update keeps
     the class *)
  let c17 := match svt with
             | Ok v =>
               negb isok ||
               forallb (fun c => ozl_eqb (dget (ob_ns robjt) c) (s_ns v c)) (seq 0 ncls)
             | Err _ => true
             end in
  let fails :=
      (if c1 then [] else [1]) ++ (if c2 then [] else [2]) ++ (if c3 then [] else [3]) ++
      (if c4 then [] else [4]) ++ (if c5 then [] else [5]) ++ (if c6 then [] else [6]) ++
      (if c7 then [] else [7]) ++ (if c8 then [] else [8]) ++
      (if c10 then [] else [10]) ++ (if c11 then [] else [11]) ++ (if c12 then [] else [12]) ++
      (if c13 then [] else [13]) ++ (if c14 then [] else [14]) ++ (if c15 then [] else [15]) ++
      (if c17 then [] else [17]) in
  ({| s_m := (h', env ++ [r]); s_senv := s_senv s ++ [sv];
      s_mt := (ht', snd (s_mt s) ++ [rt]); s_senvt := s_senvt s ++ [svt];
      s_mp := mp'; s_prev := b_dump b; s_nsl := nsl' |}, fails).

(** after the last operation: no namespace instance was altered (values, class, hash);
    [==] on ALL pairs of namespace instances and on ALL pairs of live sets is the
    structural relation (hence an equivalence) and equal objects hash equal (16); the
    model's [req] gives the same matrix (4) *)
Definition final_check (s : st) (fns : list onso) (nseq req_m : list (list bool)) : list nat :=
  let h := fst (s_m s) in
  let c4 := list_eqb (list_eqb Bool.eqb)
                     (map (fun x => map (fun y => req h x y) (s_mp s)) (s_mp s)) req_m in
  let c16 := list_eqb onso_eqb fns (s_nsl s) &&
             rows_ok onso_same on_hash fns fns nseq &&
             rows_ok oobj_same ob_hash (s_prev s) (s_prev s) req_m in
  (if c4 then [] else [4]) ++ (if c16 then [] else [16]).

Fixpoint walk (F Ft : forest) (ncls nk : nat) (s : st) (ops : list op) (prs : list (list nsv))
         (bs : list obs) (fin : st -> list nat) (t : nat) : list (nat * nat) :=
  match ops, bs with
  | o :: ops', b :: bs' =>
    let pr := hd [] prs in
    let '(s', fails) := step_check F Ft ncls nk s o pr b in
    map (fun f => (t, f)) fails ++ walk F Ft ncls nk s' ops' (tl prs) bs' fin (S t)
  | [], [] => map (fun f => (t, f)) (fin s)
  | _, _ => [(t, 9)]    (* observation and program of different lengths *)
  end.

(** BASE_RENDER_ARGS is object 0 of the model but unknown to the driver until an
    operation returns it: the driver's numbering starts empty. *)
Definition st0 : st :=
  {| s_m := (heap0, []); s_senv := []; s_mt := (heap0, []); s_senvt := [];
     s_mp := []; s_prev := []; s_nsl := [] |}.

(** all failing (step, sub-check) pairs; sub-check 0 = the forest is not well formed *)
Definition diag (t : tcase) : list (nat * nat) :=
  let F := mkF (t_par t) (strip_nsd (t_nsd t)) in
  let Ft := mkF (t_par t) (t_nsd t) in
  (if wf_lists (t_par t) (t_nsd t) && tagged_ok (t_nsd t) then [] else [(0, 0)]) ++
  walk F Ft (length (t_par t)) (t_nk t) st0 (t_ops t) (t_probes t) (t_obs t)
       (fun s => final_check s (t_fin_ns t) (t_fin_nseq t) (t_fin_eq t)) 0.

(** 0 = agrees with model and rule; 1 = differs from the model only; 2 = the observed
    behaviour contradicts the rule (property fails); 3 = both *)
Definition check (t : tcase) : nat :=
  let d := diag t in
  (if existsb (fun p => snd p <? 10) d then 1 else 0) +
  (if existsb (fun p => 10 <=? snd p) d then 2 else 0).

Fixpoint index_from {A} (n : nat) (l : list A) : list (nat * A) :=
  match l with [] => [] | x :: r => (n, x) :: index_from (S n) r end.

Definition bad (cases : list tcase) : list (nat * nat) :=
  filter (fun p => negb (Nat.eqb (snd p) 0)) (index_from 0 (map check cases)).

(** ** class statements and namespace constructor calls *)

Definition mcode (r : mres) : Z :=
  match r with
  | MAccept => 0
  | MReject MNoDefault => 1 | MReject MMultipleBases => 2 | MReject MInheritAndDefine => 3
  | MReject MReassociate => 4 | MReject MNoFields => 5 | MReject MNotRenderCls => 6
  | MReject MUnassociatedFields => 7 | MReject MRequiredParam => 8 | MReject MAlreadyHas => 9
  end%Z.

Inductive mcase :=
| MStmt (s : nstmt) (observed : Z)
| MCtor (dfl vals : list Z) (kw : list (nat * Z)) (observed : Z) (value : list Z)
| MRend (bases : list bool) (observed : bool).

(** the table is both the model and the documented rule: a difference is 3 *)
Definition mcheck (m : mcase) : nat :=
  match m with
  | MStmt s o => if Z.eqb (mcode (ns_meta s)) o then 0 else 3
  | MCtor dfl vals kw o v =>
    match ns_ctor (length dfl) (length vals) (map fst kw) with
    | None => if Z.eqb o 0 && zl_eqb (ns_ctor_value dfl vals kw) v then 0 else 3
    | Some CTooMany => if Z.eqb o 1 then 0 else 3
    | Some CUnknown => if Z.eqb o 2 then 0 else 3
    | Some CMultiple => if Z.eqb o 3 then 0 else 3
    end
  | MRend bases o => if Bool.eqb (renderable_meta bases) o then 0 else 3
  end.

Definition mbad (cases : list mcase) : list (nat * nat) :=
  filter (fun p => negb (Nat.eqb (snd p) 0)) (index_from 0 (map mcheck cases)).
