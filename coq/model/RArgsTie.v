(** Executable comparison used by the C16 correspondence.

    A case is a class forest, a program and, for every operation, what the
    implementation showed: the result (an object, named by the driver in order of first
    appearance, or an error), a dump of EVERY live object, [==] of the result with every
    object, [in] for some probe namespaces, and the interning tables.  [check] runs the
    heap model ([step_op]) and, independently, the value-level rule ([spec_op]) and
    judges the observation against both. *)
From Coq Require Import List ZArith Bool Arith.
Import ListNotations.
From TI Require Import model.RArgs.

Record oobj := { ob_kind : nat; ob_cls : nat; ob_ns : dict; ob_hash : Z }.

Record obs := {
  b_res : Z;                         (* >= 0: driver index of the result; -1-e: error e *)
  b_dump : list oobj;                (* every live object, by driver index *)
  b_eq : list bool;                  (* result == object j *)
  b_in : list bool;                  (* probe in result *)
  b_itn : list (nat * nat * nat)     (* (kind, class, driver index), sorted *)
}.

Record tcase := {
  t_par : list nat;
  t_nsd : list (option (list Z));
  t_nk : nat;
  t_ops : list op;
  t_probes : list (list nsv);
  t_obs : list obs
}.

Definition ecode (e : err) : Z :=
  match e with
  | EIncompatRA => 0 | EIncompatNS => 1 | ENoArgsNS => 2 | EValue => 3
  | EUnknownField => 4 | EType => 5 | EBadOperand => 6
  end%Z.

Fixpoint dict_eqb (a b : dict) : bool :=
  match a, b with
  | [], [] => true
  | (k, v) :: a', (k', v') :: b' => Nat.eqb k k' && zl_eqb v v' && dict_eqb a' b'
  | _, _ => false
  end.

Definition oobj_eqb (a b : oobj) : bool :=
  Nat.eqb (ob_kind a) (ob_kind b) && Nat.eqb (ob_cls a) (ob_cls b) &&
  dict_eqb (ob_ns a) (ob_ns b) && Z.eqb (ob_hash a) (ob_hash b).

Fixpoint list_eqb {A} (e : A -> A -> bool) (a b : list A) : bool :=
  match a, b with
  | [], [] => true
  | x :: a', y :: b' => e x y && list_eqb e a' b'
  | _, _ => false
  end.

Definition ozl_eqb (a b : option (list Z)) : bool :=
  match a, b with
  | Some x, Some y => zl_eqb x y
  | None, None => true
  | _, _ => false
  end.

Definition trip_eqb (a b : nat * nat * nat) : bool :=
  let '(x, y, z) := a in let '(x', y', z') := b in
  Nat.eqb x x' && Nat.eqb y y' && Nat.eqb z z'.

Definition bad_id : nat := 3000.
Definition dummy : oobj := {| ob_kind := 99; ob_cls := 99; ob_ns := []; ob_hash := 0 |}.

Record st := {
  s_m : state;                 (* the model's heap and results *)
  s_senv : list (res sval);    (* the rule's values *)
  s_mp : list nat;             (* driver index -> model identity *)
  s_prev : list oobj           (* the previous dump *)
}.

(** failing sub-checks of one step: 1-6 concern the heap model, 10-14 the rule *)
Definition step_check (F : forest) (ncls nk : nat) (s : st) (o : op) (pr : list nsv) (b : obs)
  : st * list nat :=
  let h := fst (s_m s) in
  let env := snd (s_m s) in
  let hr := step_op F h env o in
  let h' := fst hr in
  let r := snd hr in
  let sv := spec_op F (s_senv s) o in
  let mp := s_mp s in
  let isok := (0 <=? b_res b)%Z in
  let j := Z.to_nat (b_res b) in
  let is_new := isok && Nat.eqb j (length mp) in
  let mp' := if is_new then mp ++ [match r with Ok id => id | Err _ => bad_id end] else mp in
  let robj := nth j (b_dump b) dummy in
  (* --- against the heap model --- *)
  let c1 := match r with
            | Err e => Z.eqb (b_res b) (-1 - ecode e)
            | Ok id => isok &&
                       (if j <? length mp then Nat.eqb (nth j mp bad_id) id
                        else Nat.eqb j (length mp) && negb (existsb (Nat.eqb id) mp))
            end in
  let c2 := Nat.eqb (length (b_dump b)) (length mp') in
  let c3 := forallb (fun p =>
                       match getobj h' (fst p) with
                       | Some (k, c, d) =>
                         Nat.eqb k (ob_kind (snd p)) && Nat.eqb c (ob_cls (snd p)) &&
                         dict_eqb d (ob_ns (snd p))
                       | None => false
                       end) (combine mp' (b_dump b)) in
  let c4 := match r with
            | Ok id => list_eqb Bool.eqb (map (fun i => req h' id i) mp') (b_eq b)
            | Err _ => match b_eq b with [] => true | _ => false end
            end in
  let c5 := match r with
            | Ok id => list_eqb Bool.eqb (map (contains h' id) pr) (b_in b)
            | Err _ => match b_in b with [] => true | _ => false end
            end in
  let c6 := list_eqb trip_eqb
              (flat_map (fun k => flat_map (fun c => match itn h' k c with
                                                     | Some i =>
                                                       (* objects the driver has seen *)
                                                       if existsb (Nat.eqb i) mp'
                                                       then [(k, c, i)] else []
                                                     | None => []
                                                     end) (seq 0 ncls)) (seq 0 nk))
              (map (fun t => let '(k, c, x) := t in (k, c, nth x mp' bad_id)) (b_itn b)) in
  (* --- against the rule (no heap): --- *)
  let c10 := match sv with
             | Err e => Z.eqb (b_res b) (-1 - ecode e)
             | Ok _ => isok && (j <? length (b_dump b))
             end in
  let c11 := match sv with
             | Ok v =>
               negb isok ||
               (Nat.eqb (ob_cls robj) (s_cls v) &&
                forallb (fun c => ozl_eqb (dget (ob_ns robj) c) (s_ns v c)) (seq 0 ncls) &&
                Nat.eqb (length (ob_ns robj))
                        (length (filter (fun c => is_some (s_ns v c)) (seq 0 ncls))))
             | Err _ => true
             end in
  (* existing objects are never altered; at most one object appears *)
  let c12 := list_eqb oobj_eqb (firstn (length (s_prev s)) (b_dump b)) (s_prev s) &&
             (length (b_dump b) <=? S (length (s_prev s))) &&
             (isok || Nat.eqb (length (b_dump b)) (length (s_prev s))) in
  (* == is "same class, same values", and equal sets hash equal *)
  let c13 := negb isok ||
             (Nat.eqb (length (b_eq b)) (length (b_dump b)) &&
              forallb (fun p =>
                         Bool.eqb (fst p)
                                  (Nat.eqb (ob_cls robj) (ob_cls (snd p)) &&
                                   dict_eqb (ob_ns robj) (ob_ns (snd p))) &&
                         (negb (fst p) || Z.eqb (ob_hash robj) (ob_hash (snd p))))
                      (combine (b_eq b) (b_dump b))) in
  let c14 := match sv with
             | Ok v => negb isok ||
                       list_eqb Bool.eqb
                                (map (fun n => ozl_eqb (s_ns v (fst n)) (Some (snd n))) pr)
                                (b_in b)
             | Err _ => true
             end in
  let fails :=
      (if c1 then [] else [1]) ++ (if c2 then [] else [2]) ++ (if c3 then [] else [3]) ++
      (if c4 then [] else [4]) ++ (if c5 then [] else [5]) ++ (if c6 then [] else [6]) ++
      (if c10 then [] else [10]) ++ (if c11 then [] else [11]) ++ (if c12 then [] else [12]) ++
      (if c13 then [] else [13]) ++ (if c14 then [] else [14]) in
  ({| s_m := (h', env ++ [r]); s_senv := s_senv s ++ [sv]; s_mp := mp';
      s_prev := b_dump b |}, fails).

Fixpoint walk (F : forest) (ncls nk : nat) (s : st) (ops : list op) (prs : list (list nsv))
         (bs : list obs) (t : nat) : list (nat * nat) :=
  match ops, bs with
  | o :: ops', b :: bs' =>
    let pr := hd [] prs in
    let '(s', fails) := step_check F ncls nk s o pr b in
    map (fun f => (t, f)) fails ++ walk F ncls nk s' ops' (tl prs) bs' (S t)
  | [], [] => []
  | _, _ => [(t, 9)]    (* observation and program of different lengths *)
  end.

(** BASE_RENDER_ARGS is object 0 of the model but unknown to the driver until an
    operation returns it: the driver's numbering starts empty. *)
Definition st0 : st := {| s_m := (heap0, []); s_senv := []; s_mp := []; s_prev := [] |}.

(** all failing (step, sub-check) pairs; sub-check 0 = the forest is not well formed *)
Definition diag (t : tcase) : list (nat * nat) :=
  let F := mkF (t_par t) (t_nsd t) in
  (if wf_lists (t_par t) (t_nsd t) then [] else [(0, 0)]) ++
  walk F (length (t_par t)) (t_nk t) st0 (t_ops t) (t_probes t) (t_obs t) 0.

(** 0 = agrees with model and rule; 1 = differs from the model only; 2 = the observed
    behaviour contradicts the rule (property fails); 3 = both *)
Definition check (t : tcase) : nat :=
  let d := diag t in
  (if existsb (fun p => snd p <? 10) d then 1 else 0) +
  (if existsb (fun p => 10 <=? snd p) d then 2 else 0).

Fixpoint index_from {A} (n : nat) (l : list A) : list (nat * A) :=
  match l with [] => [] | x :: r => (n, x) :: index_from (S n) r end.

Definition bad (cases : list tcase) : list (nat * nat) :=
  filter (fun p => negb (Nat.eqb (snd p) 0)) (index_from 0 (map check cases)).

(** ** class statements and namespace constructor calls *)

Definition mcode (r : mres) : Z :=
  match r with
  | MAccept => 0
  | MReject MNoDefault => 1 | MReject MMultipleBases => 2 | MReject MInheritAndDefine => 3
  | MReject MReassociate => 4 | MReject MNoFields => 5 | MReject MNotRenderCls => 6
  | MReject MUnassociatedFields => 7 | MReject MRequiredParam => 8 | MReject MAlreadyHas => 9
  end%Z.

Inductive mcase :=
| MStmt (s : nstmt) (observed : Z)
| MCtor (dfl vals : list Z) (kw : list (nat * Z)) (observed : Z) (value : list Z)
| MRend (bases : list bool) (observed : bool).

(** the table is both the model and the documented rule: a difference is 3 *)
Definition mcheck (m : mcase) : nat :=
  match m with
  | MStmt s o => if Z.eqb (mcode (ns_meta s)) o then 0 else 3
  | MCtor dfl vals kw o v =>
    match ns_ctor (length dfl) (length vals) (map fst kw) with
    | None => if Z.eqb o 0 && zl_eqb (ns_ctor_value dfl vals kw) v then 0 else 3
    | Some CTooMany => if Z.eqb o 1 then 0 else 3
    | Some CUnknown => if Z.eqb o 2 then 0 else 3
    | Some CMultiple => if Z.eqb o 3 then 0 else 3
    end
  | MRend bases o => if Bool.eqb (renderable_meta bases) o then 0 else 3
  end.

Definition mbad (cases : list mcase) : list (nat * nat) :=
  filter (fun p => negb (Nat.eqb (snd p) 0)) (index_from 0 (map mcheck cases)).
