(** Executable judgement used by the C14 correspondence for the exchange scenarios: the
    observed (thread, terminal-I/O / lock event) trace of the REAL query functions under
    the deterministic scheduler is judged by the specification [Exchange.xchg_ok]
    (every byte read belongs to the reader's own reply; nothing is left) and against the
    locking discipline [Exchange.disc_ok] the proofs assume.

    [xcheck]: 0 = discipline followed, specification met; 1 = the code departs from the
    discipline (on this schedule without harm); 3 = the observed behaviour contradicts
    the specification (2 alone cannot occur: [discipline_gives_own_reply]). *)
From Coq Require Import List Arith Bool.
Import ListNotations.
From TI Require Import model.Exchange.

Definition dec_xev (l : list nat) : option xev :=
  match l with
  | [1] => Some XAcq
  | [2] => Some XRel
  | [3] => Some XFlush
  | [4; n] => Some (XWrite n)
  | [5; n] => Some (XRead n)
  | _ => None
  end.

Fixpoint dec_xtrace (tr : list (nat * list nat)) : option xtrace :=
  match tr with
  | [] => Some []
  | (t, l) :: r =>
    match dec_xev l, dec_xtrace r with
    | Some e, Some r' => Some ((t, e) :: r')
    | _, _ => None
    end
  end.

(** an undecodable observation counts as a departure, never as agreement *)
Definition xcheck (obs : list (nat * list nat)) : nat :=
  match dec_xtrace obs with
  | None => 1
  | Some tr => (if disc_ok tr then 0 else 1) + (if xchg_ok tr then 0 else 2)
  end.

Fixpoint xindex_from {A} (n : nat) (l : list A) : list (nat * A) :=
  match l with [] => [] | x :: r => (n, x) :: xindex_from (S n) r end.

Definition xbad (cases : list (list (nat * list nat))) : list (nat * nat) :=
  filter (fun p => negb (Nat.eqb (snd p) 0)) (xindex_from 0 (map xcheck cases)).
