(** C09 (round 6) — the image iterator over a STATEFUL SOURCE.

    model/ImgIter.v takes frame formatting as a pure function [fmt_frame : nat -> Size -> res].
    What the code calls is [image._format_render(image._render_image(img, ...), ...)] on the PIL
    image [img] the iterator obtained from [image._get_image()] when it was constructed
    (src/term_image/image/common.py:2051-2053, 2151-2164): for a FILE- or URL-sourced image
    that is an open file of the iterator's own, for a PIL-sourced image the caller's object.
    Whether a render succeeds therefore depends on the state of that source, and WHICH renders
    a history performs, and when, is where the caching and the non-caching iterator differ.

    Here the renderer threads a source state [R] through every call
    ([render : R -> nat -> Size -> res * R]); the control structure is that of
    model/ImgIter.v, statement for statement (same states, same auxiliary functions), the only
    additions being the source state and the hook [handover]: what the iterator does to its
    source at the hand-over from the first (rendering) loop to the cached loops
    (common.py:2203-2204, [if cached: n_frames = len(cache)]) when every cache entry holds a
    frame.  THE CODE DOES NOTHING THERE ([handover] = identity); releasing the source at that
    point ("every frame is cached now") is the excluded design [release].

    Instances:
      [log_render]  R = the list of render requests (frame number, size) made so far;
      [file_render] R = bool, "the source is still open": a render on a closed source fails
                    (PIL: ValueError "Operation on closed image").
    Definitions only. *)
From Coq Require Import List ZArith Bool Arith.
Import ListNotations.
From TI Require Import model.ImgIter.

Set Implicit Arguments.

Section ImgIterSrc.
  Variables Str Size R : Type.
  Variable render : R -> nat -> Size -> res Str * R.
  Variable hash : Size -> Z.
  Variable N : nat.
  Variable cached : bool.
  Variable handover : R -> R.

  Notation st := (st Str Size).
  Notation outcome := (outcome Str).

  (** [all(frame is not None for frame, _ in cache)] *)
  Definition full (c : list (option (Str * Z))) : bool :=
    forallb (fun e => match e with Some _ => true | None => false end) c.

  (** ImgIter.p2_inner with the source threaded through the re-render (2189-2193) *)
  Fixpoint p2_innerS (fuel : nat) (s : st) (r : R) : st * R * outcome :=
    if (n s <? Z.of_nat N)%Z then
      let k := Z.to_nat (n s) in
      let s1 := set_pos s (n s) in
      let rerender :=
          let (x, r') := render r k (size s) in
          match x with
          | Ok f => (set_ph (set_cache s1 (upd k (Some (f, hash (size s))) (cache s))) P2, r', OYield k f)
          | _ => (end_it s1, r', ORaise)
          end in
      match nth k (cache s) None with
      | Some (f, h) => if Z.eqb (hash (size s)) h then (set_ph s1 P2, r, OYield k f) else rerender
      | None => rerender
      end
    else
      let s' := wrap s in
      if Z.eqb (rep s') 0 then (fst (finish s'), r, OStop)
      else match fuel with
           | 0 => (s', r, OHang)
           | S fu => p2_innerS fu s' r
           end.

  Definition p2_outerS (fuel : nat) (s : st) (r : R) : st * R * outcome :=
    if Z.eqb (rep s) 0 then (fst (finish s), r, OStop) else p2_innerS fuel s r.

  (** ImgIter.p1_run with the source threaded through the render (2181-2184) and the
      [handover] hook where the first loop is left for the cached loops *)
  Fixpoint p1_runS (fuel : nat) (s : st) (r : R) : st * R * outcome :=
    if Z.eqb (rep s) 0 then (fst (finish s), r, OStop)
    else
      let k := Z.to_nat (n s) in
      let s1 := set_pos s (n s) in
      let (x, r') := render r k (size s) in
      match x with
      | Ok f =>
          (set_ph (if cached then set_cache s1 (upd k (Some (f, hash (size s))) (cache s)) else s1) P1,
           r', OYield k f)
      | Eof =>
          let s2 := wrap s1 in
          if cached then p2_outerS fuel s2 (if full (cache s2) then handover r' else r')
          else match fuel with
               | 0 => (s2, r', OHang)
               | S fu => p1_runS fu s2 r'
               end
      | Err => (end_it s1, r', ORaise)
      end.

  (** ImgIter.step; only [Next] can reach the source *)
  Definition stepS (s : st) (r : R) (o : op Size) : st * R * outcome :=
    match o with
    | Next =>
        match ph s with
        | P0 =>
            let s0 := {| ph := P1; n := 0; rep := rep s; loop_no := Some (rep s);
                         cache := if cached then repeat None N else [];
                         pos := pos s; size := size s; src_reset := src_reset s; img_open := img_open s |} in
            p1_runS (fuel_of s0) s0 r
        | P1 => p1_runS (fuel_of s) (set_n s (n s + 1)) r
        | P2 => p2_innerS (fuel_of s) (set_n s (n s + 1)) r
        | PEnd => (s, r, OStop)
        end
    | Seek p =>
        if negb ((0 <=? p)%Z && (p <? Z.of_nat N)%Z) then (s, r, OSeekBad)
        else match ph s with
             | P0 => (s, r, OSeekNotStarted)
             | P1 | P2 => (set_n s (p - 1), r, OSeekOk)
             | PEnd => (s, r, OSeekClosed)
             end
    | Close | Drop => (end_it s, r, OClosed)
    | SetImageSize z => (set_size s z, r, OSized)
    end.

  (** what the caller sees (the tuple of ImgIter.trace) *)
  Fixpoint traceS (s : st) (r : R) (ops : list (op Size)) : list (outcome * Z * option Z * bool) :=
    match ops with
    | [] => []
    | o :: rest =>
        let '(s1, r1, x) := stepS s r o in (x, pos s1, loop_no s1, img_open s1) :: traceS s1 r1 rest
    end.

  (** the source state after each operation *)
  Fixpoint srcS (s : st) (r : R) (ops : list (op Size)) : list R :=
    match ops with
    | [] => []
    | o :: rest => let '(s1, r1, _) := stepS s r o in r1 :: srcS s1 r1 rest
    end.
End ImgIterSrc.

(* ------------------------------------------------------------ instances *)

Section Instances.
  Variables Str Size : Type.
  Variable fmt_frame : nat -> Size -> res Str.

  (** the code: nothing happens to the source at the hand-over *)
  Definition keep {R : Type} (r : R) : R := r.

  (** the request log: every call of the renderer is recorded, in order *)
  Definition log_render (l : list (nat * Size)) (k : nat) (z : Size) : res Str * list (nat * Size) :=
    (fmt_frame k z, l ++ [(k, z)]).

  (** a source that can be closed: rendering needs it open *)
  Definition file_render (open : bool) (k : nat) (z : Size) : res Str * bool :=
    (if open then fmt_frame k z else Err, open).

  (** the excluded design: close the source once every frame is cached *)
  Definition release (_ : bool) : bool := false.

  Variable hash : Size -> Z.
  Variable N : nat.

  (** the render requests of each operation of a history, operation by operation (the log is
      emptied before every operation) *)
  Fixpoint reqs (cached : bool) (s : st Str Size) (ops : list (op Size)) : list (list (nat * Size)) :=
    match ops with
    | [] => []
    | o :: rest =>
        let '(s1, l, _) := stepS log_render hash N cached keep s [] o in l :: reqs cached s1 rest
    end.
End Instances.

(** [Sub a b]: [a] is [b] with some elements left out (order kept) *)
Inductive Sub {A : Type} : list A -> list A -> Prop :=
| Sub_nil : forall l, Sub [] l
| Sub_cons : forall x l l', Sub l l' -> Sub (x :: l) (x :: l')
| Sub_skip : forall x l l', Sub l l' -> Sub l (x :: l').
