(** Executable comparison for the C13 correspondence: observed runs of read_tty /
    query_terminal / Renderable.draw on a pty (harness/impl/impl_c13.py) judged against the
    translated skeletons. *)
From Coq Require Import List Bool Arith.
Import ListNotations.
From TI Require Import lib.Eff model.SkelTie model.C13Any gen.Skeletons.

Definition sk_of (n : nat) : prog :=
  match n with
  | 0 => sk_read_tty
  | 1 => sk_query_terminal
  | _ => sk_Renderable_draw
  end.

Record tcase := mkcase { c_fn : nat; c_obs : list nat; c_run : run }.

Definition attrs_clean (s : st) : bool := negb (tmod s).

(** Round 4: the observed run is judged against [anyfault sk] ([model/C13Any.v]): a fault inside
    the function's own clean-up blocks is IN SCOPE (the property says "at any point"); the only
    position the judgement places outside the property (code 10) is the [tcsetattr] of a
    clean-up block itself failing. *)
Definition check (c : tcase) : nat :=
  judge (obs_of (c_obs c)) attrs_clean (anyfault (sk_of (c_fn c))) (c_run c).
(** the round-2 judgement (clean-up blocks outside the property), kept for comparison *)
Definition check_round2 (c : tcase) : nat := judge (obs_of (c_obs c)) attrs_clean (sk_of (c_fn c)) (c_run c).

(** (index, code) of the cases whose code is not 0 *)
Definition bad (cases : list tcase) : list (nat * nat) :=
  filter (fun ic => negb (Nat.eqb (snd ic) 0)) (combine (seq 0 (length cases)) (map check cases)).
