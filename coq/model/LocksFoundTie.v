(** Executable comparison used by the C14 correspondence for the dimension "how the active
    terminal was found" ([model/LockImport.v], [model/LocksFound.v]).

    A case is an ENVIRONMENT of the importing process (which standard streams are
    terminals, is there a controlling terminal) together with what was observed in a REAL
    process started in that environment: whether [utils._tty_fd] was assigned, whether
    [multiprocessing.Process.start] / [.run] are the library's wrappers, and — when a
    terminal was found — the (process, enter / exit) trace of the parent / child scenario:
    the parent starts a child with [multiprocessing.Process], enters a [@lock_tty] function,
    the child calls one as far as it gets, the parent leaves, the child finishes.

    [checkF]: 0 = agrees; 1 = differs from the model only (the table row: terminal found,
    hooks installed; the scenario's trace); 2 = the observed trace contradicts the property
    (judge of [model/LocksSpec.v], through [LocksTie.obs_ok]); 3 = both
    ([proofs/LocksFoundProofs.v]: 2 never comes alone). *)
From Coq Require Import List Arith Bool.
Import ListNotations.
From TI Require Import lib.Sched model.Locks model.LocksSpec model.LockSites model.LocksCfg
  model.LocksTie model.LockImport model.LocksFound.

Record fcase := {
  fc_env : tenv;
  fc_fork : bool;                  (* start method of the scenario's child: fork / spawn *)
  fc_tty : bool;                   (* observed: [_tty_fd != -1] *)
  fc_start : bool;                 (* observed: [Process.start] is wrapped *)
  fc_run : bool;                   (* observed: [Process.run] is wrapped *)
  fc_obs : list (nat * list nat)   (* observed trace; [[]] when the scenario was not run *)
}.

(** the scenario: thread 1 (root process) starts child process 10, then calls a
    synchronized function; thread 10 (the child) calls one *)
Definition scn_procs (t : nat) : nat := if Nat.eqb t 10 then 10 else 0.
Definition scn_cf : cfg := {| proc := scn_procs; single := false; term_tid := 0 |}.
Definition scn_qc (fork : bool) : qcfg :=
  {| q_base := scn_cf; q_init := fun _ => if fork then None else Some conf_default |}.
Definition scn_prog (t : nat) : list cmd :=
  match t with
  | 1 => [CStart 10; CCall 0 false]
  | 10 => [CCall 0 false]
  | _ => []
  end.

(** [Process.start()] to completion (7 micro-steps through the wrapper, 3 without it) and
    into the body (5); the child as far as it gets; the parent out of the body and the lock
    (4); the child to completion *)
Definition scn_sched (hooks : bool) : list sitem :=
  repeat (SMove 1) ((if hooks then 7 else 3) + 5) ++ repeat (SMove 10) 10
  ++ repeat (SMove 1) 4 ++ repeat (SMove 10) 10.

Definition is_body_event (e : event) : bool :=
  match e with EEnter | EExit => true | _ => false end.

Definition scn_run (inst : install) (f : found) (fork : bool) : qstate :=
  run_items (stepFound inst {| f_q := scn_qc fork; f_found := f |})
            (initQ scn_prog conf_default) (scn_sched (inst f)).

Definition scn_trace (inst : install) (f : found) (fork : bool) : list (nat * list nat) :=
  if found_tty f
  then map (fun te => (fst te, enc_event (snd te)))
           (filter (fun te => is_body_event (snd te)) (rev (log (qs (scn_run inst f fork)))))
  else [].

Definition row_agrees (c : fcase) : bool :=
  let f := find_terminal (fc_env c) in
  Bool.eqb (fc_tty c) (found_tty f) && Bool.eqb (fc_start c) (inst_code f)
  && Bool.eqb (fc_run c) (inst_code f).

Definition checkF (c : fcase) : nat :=
  (if row_agrees c && tr_eqb (fc_obs c) (scn_trace inst_code (find_terminal (fc_env c)) (fc_fork c))
   then 0 else 1)
  + (if obs_ok (fc_obs c) then 0 else 2).

Definition badF (cases : list fcase) : list (nat * nat) :=
  filter (fun p => negb (Nat.eqb (snd p) 0)) (index_from 0 (map checkF cases)).

(** would the environment of this case break the property in the refuted variant "hooks
    only when the terminal was found through a standard stream" (histogram) *)
Definition variantF (c : fcase) : nat :=
  if obs_ok (scn_trace inst_stream_only (find_terminal (fc_env c)) (fc_fork c)) then 0 else 4.

Definition badF_variants (cases : list fcase) : list (nat * nat) :=
  filter (fun p => negb (Nat.eqb (snd p) 0))
         (index_from 0 (map (fun c => checkF c + variantF c) cases)).
