(** * PadAnim — where [Renderable._animate_] ([_renderable.py:705-820]) puts the frames of an
    animation inside the padded box (C05: "contains the original render unchanged at the
    offset dictated by the horizontal and vertical alignment" for EVERY frame of an animated
    draw, on the screen).

    The stream itself is [Draw.anim_stream] (C06's model): the padded first frame, then — the
    cursor being on the LAST line of the padded box — up [height + pad_bottom - 1] lines and
    forward [pad_left] columns to the render's top-left cell, the later frames drawn over
    the render's cells, finally down [height + pad_bottom - 1] lines again.  Here: the same
    stream with the distance parameterised ([anim_stream_by k]; [k = pad_bottom] is the
    code), so that the EXCLUDED design "position the later frames by the TOP margin"
    ([k = pad_top]: the offset of the render inside the box read as the way back to it) can
    be stated and refuted. *)
From Coq Require Import List ZArith Bool Lia.
Import ListNotations.
From TI Require Import lib.Term lib.Lines model.Padding model.Draw.
Open Scope Z_scope.

Definition anim_body_by (k : Z) (l h : Z) (clear P : list tok) (Fs : list (list tok)) : list tok :=
  P ++ [TCR] ++ cuu (h + k - 1) ++ cuf l
    ++ concat (map (later_frame l h clear) Fs)
    ++ cud (h + k - 1).

Definition anim_stream_by (k : Z) (hide : bool) (l h : Z) (clear P : list tok) (Fs : list (list tok))
  : list tok :=
  opt hide THide ++ anim_body_by k l h clear P Fs ++ [TLF] ++ opt hide TShow.

(** the excluded design: the later frames (and the final cursor move) placed by the top margin *)
Definition anim_stream_top (hide : bool) (l t h : Z) (clear P : list tok) (Fs : list (list tok)) :=
  anim_stream_by t hide l h clear P Fs.
