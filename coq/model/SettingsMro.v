(** * SettingsMro — the inheritable render-style settings over class hierarchies with
      MULTIPLE INHERITANCE, rooted at the library's own base classes (C20)

    "... otherwise the value set on the nearest class in its ancestry that has one" — in
    Python the ancestry of a class is its METHOD RESOLUTION ORDER ([cls.__mro__], the C3
    linearisation of the inheritance graph), and "nearest" is the first class of that
    list that holds a value.  [model/Settings.v] covers single-inheritance forests below
    one style class (there the MRO of a class is the chain of its parents); this file
    replaces the parent pointer by an explicit MRO per class:

    - [c3_all]: the C3 linearisation computed from the lists of bases
      ([type.__new__] -> [mro_implementation] / [pmerge] in CPython's
      [Objects/typeobject.c]), with its refusals: an unknown / failed base, a duplicate
      base, an inconsistent order (Python raises [TypeError], the class is not created);
    - a hierarchy may contain, besides the style class ([KittyImage] / [ITerm2Image], the
      ROOT) and its descendants, the library's base classes ([BaseImage],
      [GraphicsImage], [TextImage], [BlockImage]), mix-in classes derived from them that
      are not style classes, and plain [object] mix-ins, listed before or after a style
      base, joined again in diamonds; [h_has c] says whether the setting EXISTS on class
      [c] (forced support: every class whose metaclass is [ImageMeta]; the class-wide
      render method: classes with a non-empty [_render_methods], i.e. the root is in their
      MRO; JPEG quality, read-from-file and the native-animation limit: classes whose
      metaclass is [ITerm2ImageMeta], i.e. [ITerm2Image] is in their MRO);
    - [m_step]: one operation as the code performs it, [common.py:983-1015] and the
      metaclass properties [common.py:162-181], [iterm2.py:37-107]; attribute lookup on a
      class is [first_some] over its MRO;
    - [m_spec_cls] / [m_spec_inst]: the documented rule on the history alone.

    The value-level layer ([m_vstep], over the universe of [model/SettingsVal.v]) is at the
    end.  Definitions only; proofs are in [proofs/SettingsMroProofs.v] and
    [proofs/C3Proofs.v]. *)

From Coq Require Import List ZArith Bool Arith.
Import ListNotations.
From TI Require Import model.Settings model.SettingsVal.

(** ** C3 linearisation *)

Definition memb (x : nat) (l : list nat) : bool := existsb (Nat.eqb x) l.
Definition in_tail (x : nat) (l : list nat) : bool := memb x (tl l).

(** the first list head that is in the tail of no list ([pmerge]: "choose next candidate
    for MRO"; [all] is the whole sequence of lists) *)
Fixpoint find_cand (ls all : list (list nat)) : option nat :=
  match ls with
  | [] => None
  | [] :: r => find_cand r all
  | (h :: _) :: r => if existsb (in_tail h) all then find_cand r all else Some h
  end.

(** remove the chosen candidate from the head of a list *)
Definition drop_head (h : nat) (l : list nat) : list nat :=
  match l with
  | x :: t => if Nat.eqb x h then t else l
  | [] => []
  end.

Fixpoint merge (fuel : nat) (ls : list (list nat)) : option (list nat) :=
  if forallb (@is_nil nat) ls then Some [] else
  match fuel with
  | 0 => None
  | S f =>
    match find_cand ls ls with
    | None => None   (* "Cannot create a consistent method resolution order (MRO)" *)
    | Some h => option_map (cons h) (merge f (map (drop_head h) ls))
    end
  end.

Definition total_len (ls : list (list nat)) : nat := fold_right (fun l n => length l + n) 0 ls.

Fixpoint nodupb (l : list nat) : bool :=
  match l with [] => true | x :: r => negb (memb x r) && nodupb r end.

Fixpoint collect {A} (l : list (option A)) : option (list A) :=
  match l with
  | [] => Some []
  | None :: _ => None
  | Some x :: r => option_map (cons x) (collect r)
  end.

(** the MRO of a new class [c] with the given bases, [tbl] holding the MROs of the classes
    created so far ([None]: that creation was refused).  [object], the last element of every
    real MRO, holds no setting and is left out. *)
Definition c3_one (tbl : list (option (list nat))) (c : nat) (bases : list nat)
  : option (list nat) :=
  match collect (map (fun b => nth b tbl None) bases) with
  | None => None                               (* a base that does not exist *)
  | Some ms =>
    if nodupb bases then                        (* "duplicate base class" *)
      option_map (cons c) (merge (S (total_len (ms ++ [bases]))) (ms ++ [bases]))
    else None
  end.

Fixpoint c3_from (tbl : list (option (list nat))) (hs : list (list nat))
  : list (option (list nat)) :=
  match hs with
  | [] => tbl
  | b :: r => c3_from (tbl ++ [c3_one tbl (length tbl) b]) r
  end.

(** [hs]: the bases of each class, in creation order *)
Definition c3_all (hs : list (list nat)) : list (option (list nat)) := c3_from [] hs.

Definition mro_of (tbl : list (option (list nat))) (c : nat) : list nat :=
  match nth c tbl None with Some l => l | None => [] end.

(** ** Hierarchies and attribute lookup *)

Record hier := {
  h_mro : nat -> list nat;   (* the MRO of each class, itself first *)
  h_has : nat -> bool;       (* does the setting exist on this class? *)
  h_root : nat               (* the style class: its class body holds the pinned entry *)
}.

(** [getattr(cls, "_attr")] through the MRO: the first class whose dictionary has it *)
Fixpoint first_some (d : nat -> option Z) (l : list nat) : option Z :=
  match l with
  | [] => None
  | c :: r => match d c with Some v => Some v | None => first_some d r end
  end.

Definition m_cls_eff (k : kind) (H : hier) (s : state) (c : nat) : Z :=
  match first_some (cd s) (h_mro H c) with Some v => v | None => k_default k end.

Definition m_inst_eff (k : kind) (H : hier) (icls : nat -> nat) (s : state) (i : nat) : Z :=
  match idt s i with Some v => v | None => m_cls_eff k H s (icls i) end.

Definition m_init (k : kind) (H : hier) : state :=
  {| cd := fun c => if k_pinned k && Nat.eqb c (h_root H) then Some (k_default k) else None;
     idt := fun _ => None |}.

(** One operation, as the code performs it. *)
Definition m_step (k : kind) (H : hier) (s : state) (o : op) : state * out :=
  match o with
  | ClsSet c v =>
    (* a class the setting does not exist on accepts no value ([set_render_method]:
       [method.lower() not in cls._render_methods] with an empty set) *)
    if h_has H c && k_valid k v then ({| cd := upd (cd s) c (Some v); idt := idt s |}, Ok)
    else (s, Rejected)
  | ClsUnset c =>
    if k_cls_unset k then
      if h_has H c then                         (* [if cls._render_methods:] *)
        (* [del cls._attr] ([AttributeError] swallowed) ... *)
        let d := upd (cd s) c None in
        (* ... and [if cls._render_method is None: cls._render_method = default]: the
           lookup goes through the WHOLE MRO of the class *)
        let d' := if k_pinned k then
                    match first_some d (h_mro H c) with
                    | Some _ => d
                    | None => upd d c (Some (k_default k))
                    end
                  else d in
        ({| cd := d'; idt := idt s |}, Ok)
      else (s, Ok)                              (* "None is always allowed" *)
    else (s, Rejected)
  | InstSet i v =>
    if k_inst_set k then
      if k_valid k v then ({| cd := cd s; idt := upd (idt s) i (Some v) |}, Ok)
      else (s, Rejected)
    else (s, Rejected)
  | InstUnset i =>
    if k_inst_set k then ({| cd := cd s; idt := upd (idt s) i None |}, Ok)
    else (s, Rejected)
  end.

Definition m_run (k : kind) (H : hier) (ops : list op) : state :=
  fold_left (fun s o => fst (m_step k H s o)) ops (m_init k H).

(** ** The documented rule, on the history alone *)

Definition m_own_cls_step (k : kind) (H : hier) (c : nat) (acc : option Z) (o : op)
  : option Z :=
  match o with
  | ClsSet c' v => if Nat.eqb c' c && (h_has H c' && k_valid k v) then Some v else acc
  | ClsUnset c' => if Nat.eqb c' c && k_cls_unset k then None else acc
  | _ => acc
  end.
Definition m_own_cls (k : kind) (H : hier) (ops : list op) (c : nat) : option Z :=
  fold_left (m_own_cls_step k H c) ops None.

(** the nearest class in the ancestry — the first class of the MRO — that has a value *)
Definition m_spec_cls (k : kind) (H : hier) (ops : list op) (c : nat) : Z :=
  match first_some (m_own_cls k H ops) (h_mro H c) with Some v => v | None => k_default k end.

Definition m_spec_inst (k : kind) (H : hier) (icls : nat -> nat) (ops : list op) (i : nat) : Z :=
  match own_inst k ops i with Some v => v | None => m_spec_cls k H ops (icls i) end.

(** the MRO of a class starts with the class itself *)
Definition wf_mro (H : hier) : Prop :=
  forall c, h_has H c = true -> exists r, h_mro H c = c :: r.

(** what the invariant needs of a hierarchy for a setting whose root is pinned (the
    class-wide render method): the setting exists exactly below the root, and in every
    MRO the classes AFTER the root hold nothing *)
Definition wf_hier (k : kind) (H : hier) : Prop :=
  k_pinned k = true ->
  (forall c, h_has H c = true -> In (h_root H) (h_mro H c)) /\
  (forall c l1 l2, h_mro H c = l1 ++ h_root H :: l2 ->
     forall x, In x l2 -> h_has H x = false).

(** ** The hierarchy of a table of MROs *)

(** the setting exists on the classes that have the root in their MRO ... *)
Definition has_root (tbl : list (option (list nat))) (root c : nat) : bool :=
  memb root (mro_of tbl c).
(** ... forced support: on every image class (one whose metaclass is [ImageMeta]) *)
Definition hier_c3 (tbl : list (option (list nat))) (img : nat -> bool) (root : nat)
           (st : setting) : hier :=
  {| h_mro := mro_of tbl;
     h_has := match st with
              | SFs => fun c => img c && memb c (mro_of tbl c)
              | _ => has_root tbl root
              end;
     h_root := root |}.

(** ** The single-inheritance forest as a hierarchy: the MRO of a class is its chain of
    parents *)
Fixpoint chain (par : nat -> nat) (fuel c : nat) : list nat :=
  c :: match fuel with
       | 0 => []
       | S f => if Nat.eqb c 0 then [] else chain par f (par c)
       end.
Definition hier_of_par (par : nat -> nat) : hier :=
  {| h_mro := fun c => chain par c c; h_has := fun _ => true; h_root := 0 |}.
(** the bases lists of a forest of [n] classes: class 0 has none, class [c > 0] has [par c] *)
Definition forest_bases (par : nat -> nat) (n : nat) : list (list nat) :=
  map (fun c => if Nat.eqb c 0 then [] else [par c]) (seq 0 n).

(** ** A design the property excludes: deciding "is there a parent style class?" from the
    FIRST LISTED base ([cls.__base__]) instead of the whole MRO *)
Definition m_unset_firstbase (k : kind) (H : hier) (first_base : nat -> option nat)
           (s : state) (c : nat) : state :=
  match first_base c with
  | None => s
  | Some b =>
    match first_some (cd s) (h_mro H b) with
    | None => {| cd := upd (cd s) c (Some (k_default k)); idt := idt s |}
    | Some _ => {| cd := upd (cd s) c None; idt := idt s |}
    end
  end.

(** ** Value level: the operations carry Python values ([model/SettingsVal.v]) *)

(** the setting does not exist on the target *)
Definition absent (H : hier) (lv : level) (t : nat) : bool :=
  match lv with LCls => negb (h_has H t) | LInst => false end.

(** the argument checks on a target: a class without render methods has an EMPTY set of
    names ([_render_methods = set()]): every string is unknown, [None] is still allowed;
    the other settings are not defined on such a class at all *)
Definition m_front (st : setting) (H : hier) (lv : level) (t : nat) (v : val) : fres :=
  if absent H lv t then
    match st with SRm _ => front (SRm 0) lv v | _ => FErr AttrErr end
  else front st lv v.

Definition m_do_unset (st : setting) (H : hier) (u : ustate) (lv : level) (t : nat) : ustate :=
  match kind_of st with
  | None => if absent H lv t then u else {| u_s := u_s u; u_g := nam_default |}
  | Some k =>
    match lv with
    | LCls =>
      if h_has H t then
        let d := upd (cd (u_s u)) t None in
        let d' := if k_pinned k then
                    match first_some d (h_mro H t) with
                    | Some _ => d
                    | None => upd d t (Some (k_default k))
                    end
                  else d in
        {| u_s := {| cd := d'; idt := idt (u_s u) |}; u_g := u_g u |}
      else u
    | LInst => {| u_s := {| cd := cd (u_s u); idt := upd (idt (u_s u)) t None |}; u_g := u_g u |}
    end
  end.

Definition m_vstep (st : setting) (H : hier) (u : ustate) (o : vop) : ustate * vout :=
  match o with
  | VSet lv t v =>
    match m_front st H lv t v with
    | FErr e => (u, VRej e)
    | FUnset => (m_do_unset st H u lv t, VOk)
    | FSet z => (do_set st u lv t z, VOk)
    end
  | VDel lv t =>
    if has_del st lv then (m_do_unset st H u lv t, VOk) else (u, VRej AttrErr)
  end.

Definition m_uinit (st : setting) (H : hier) : ustate :=
  {| u_s := match kind_of st with
            | Some k => m_init k H
            | None => {| cd := fun _ => None; idt := fun _ => None |}
            end;
     u_g := nam_default |}.

Definition m_vrun (st : setting) (H : hier) (ops : list vop) : ustate :=
  fold_left (fun u o => fst (m_vstep st H u o)) ops (m_uinit st H).

(** what a class the setting does not exist on "reads": nothing (the correspondence
    driver reports this number for a class without the attribute / with [None]) *)
Definition ABSENT : Z := (-7)%Z.

Definition m_observe (k : kind) (H : hier) (icls : nat -> nat) (nc ni : nat) (s : state)
  : list Z :=
  map (fun c => if h_has H c then m_cls_eff k H s c else ABSENT) (seq 0 nc)
  ++ map (m_inst_eff k H icls s) (seq 0 ni).

Definition m_vobserve (st : setting) (H : hier) (icls : nat -> nat) (nc ni : nat) (u : ustate)
  : list Z :=
  match kind_of st with
  | Some k => m_observe k H icls nc ni (u_s u)
  | None => map (fun c => if h_has H c then gread (u_g u) c else ABSENT) (seq 0 nc)
            ++ map (fun i => gread (u_g u) (icls i)) (seq 0 ni)
  end.

(** *** the documentation side *)

Definition m_doc_meaning (st : setting) (H : hier) (lv : level) (t : nat) (v : val) : meaning :=
  if absent H lv t then
    match st with SRm _ => doc_meaning (SRm 0) lv v | _ => MInvalid AttrErr end
  else doc_meaning st lv v.

Definition m_doc_op (st : setting) (H : hier) (o : vop) : list op :=
  match o with
  | VSet lv t v =>
    match m_doc_meaning st H lv t v with
    | MSet z => [match lv with LCls => ClsSet t z | LInst => InstSet t z end]
    | MUnset => [match lv with LCls => ClsUnset t | LInst => InstUnset t end]
    | MInvalid _ => []
    end
  | VDel lv t =>
    if doc_del st lv then [match lv with LCls => ClsUnset t | LInst => InstUnset t end] else []
  end.
Definition m_doc_ops (st : setting) (H : hier) (ops : list vop) : list op :=
  flat_map (m_doc_op st H) ops.

Definition m_doc_gop (H : hier) (o : vop) : list gop :=
  match o with
  | VSet lv t v =>
    match m_doc_meaning SNam H lv t v with
    | MSet z => [GSet t z]
    | _ => []
    end
  | VDel lv t => if doc_del SNam lv && negb (absent H lv t) then [GUnset t] else []
  end.
Definition m_doc_gops (H : hier) (ops : list vop) : list gop := flat_map (m_doc_gop H) ops.

Definition m_doc_out (st : setting) (H : hier) (o : vop) : vout :=
  match o with
  | VSet lv t v => match m_doc_meaning st H lv t v with MInvalid e => VRej e | _ => VOk end
  | VDel lv _ => if doc_del st lv then VOk else VRej AttrErr
  end.

Definition m_spec_observe (k : kind) (H : hier) (icls : nat -> nat) (nc ni : nat)
           (ops : list op) : list Z :=
  map (fun c => if h_has H c then m_spec_cls k H ops c else ABSENT) (seq 0 nc)
  ++ map (m_spec_inst k H icls ops) (seq 0 ni).

Definition m_vspec_observe (st : setting) (H : hier) (icls : nat -> nat) (nc ni : nat)
           (ops : list vop) : list Z :=
  match kind_of st with
  | Some k => m_spec_observe k H icls nc ni (m_doc_ops st H ops)
  | None => map (fun c => if h_has H c then gspec (m_doc_gops H ops) else ABSENT) (seq 0 nc)
            ++ map (fun _ => gspec (m_doc_gops H ops)) (seq 0 ni)
  end.

(** *** traces for the correspondence *)

Fixpoint m_vtrace (st : setting) (H : hier) (icls : nat -> nat) (nc ni : nat) (u : ustate)
         (ops : list vop) : list (list Z) :=
  match ops with
  | [] => []
  | o :: r => let '(u', x) := m_vstep st H u o in
              (vout_code x :: m_vobserve st H icls nc ni u') :: m_vtrace st H icls nc ni u' r
  end.

Fixpoint m_vspec_trace_aux (st : setting) (H : hier) (icls : nat -> nat) (nc ni : nat)
         (done todo : list vop) : list (list Z) :=
  match todo with
  | [] => []
  | o :: r => let d := done ++ [o] in
              (vout_code (m_doc_out st H o) :: m_vspec_observe st H icls nc ni d)
                :: m_vspec_trace_aux st H icls nc ni d r
  end.
Definition m_vspec_trace st H icls nc ni ops := m_vspec_trace_aux st H icls nc ni [] ops.
