(** C11 — two further dimensions of image-iterator histories (round 4).

    (a) THE ENVIRONMENT.  For a dynamically sized image (Size.FIT / AUTO / ORIGINAL /
        FIT_TO_WIDTH) the rendered size is not a datum of the image: [image.rendered_size]
        evaluates [_valid_size(setting)] under the terminal size and the cell ratio in force
        at that moment (common.py:741, 1176, 1742; the generator reads it per frame at
        2198 / 2210 / 2218).  Histories therefore carry two kinds of change: the size SETTING
        ([ESetSize g], the caller) and the ENVIRONMENT ([ESetEnv e], a terminal resize or a
        cell-ratio change, nobody's call).  [rsize g e] is the rendered size of setting [g]
        under environment [e].

        The generator knows neither settings nor environments, only rendered sizes and their
        hashes: the code model of an environment history is [ImgIter] run on the LOWERED
        history ([lower]: both kinds of change become "the rendered size is now rsize g e").
        The specification side keeps (setting, environment) pairs and formats frame k
        directly under the pair in force at the time of the yield ([fmt_env]); it is
        [ImgIterSpec] at the size type Setting * Env over [lower2].

        [hash_setting_keyed]: the excluded design in which cached frames are validated
        against the size SETTING (a hash that ignores the environment) — expressible in the
        same model, at the size type Setting * Env.

    (b) RUNS OF SEEKS.  [ImgIter.step] answers every [Seek p] of a started iterator by
        [n := p - 1]: the generator goes once round its loop without rendering and the
        yield that follows answers [send()] (common.py:2200-2201 / 2217-2218).  A run
        seek(p1) .. seek(pk) therefore leaves n = pk - 1 whatever k is.  [vstep] is the
        excluded design in which the hand-shake has a SECOND suspension point answering
        [send()]: a seek received at that second point is acknowledged but its position is
        dropped ([at2]), so that an even number of consecutive seeks is lost.

    Definitions only. *)
From Coq Require Import List ZArith Bool Arith.
Import ListNotations.
From TI Require Import model.ImgIter.

Set Implicit Arguments.

(* ------------------------------------------------------- (a) environments *)

Section Env.
  Variables Size Setting Env : Type.

  Inductive eop :=
  | ENext | ESeek (p : Z) | EClose | EDrop
  | ESetSize (g : Setting)          (* image.size = ... / image.set_size(...) *)
  | ESetEnv (e : Env).              (* the terminal is resized / the cell ratio changes *)

  (** the history with every change resolved to the (setting, environment) pair in force
      after it *)
  Fixpoint lower2 (g : Setting) (e : Env) (ops : list eop) : list (op (Setting * Env)) :=
    match ops with
    | [] => []
    | ENext :: r => Next :: lower2 g e r
    | ESeek p :: r => Seek p :: lower2 g e r
    | EClose :: r => Close :: lower2 g e r
    | EDrop :: r => Drop :: lower2 g e r
    | ESetSize g' :: r => SetImageSize (g', e) :: lower2 g' e r
    | ESetEnv e' :: r => SetImageSize (g, e') :: lower2 g e' r
    end.

  Definition map_op (A B : Type) (f : A -> B) (o : op A) : op B :=
    match o with
    | Next => Next | Seek p => Seek p | Close => Close | Drop => Drop
    | SetImageSize z => SetImageSize (f z)
    end.

  Variable rsize : Setting -> Env -> Size.

  Definition rsz (ge : Setting * Env) : Size := rsize (fst ge) (snd ge).

  (** what the generator sees: rendered sizes *)
  Definition lower (g : Setting) (e : Env) (ops : list eop) : list (op Size) :=
    map (map_op rsz) (lower2 g e ops).

  (** the pair in force after a history *)
  Fixpoint cur (g : Setting) (e : Env) (ops : list eop) : Setting * Env :=
    match ops with
    | [] => (g, e)
    | ESetSize g' :: r => cur g' e r
    | ESetEnv e' :: r => cur g e' r
    | _ :: r => cur g e r
    end.

  Variable Str : Type.
  Variable fmt_frame : nat -> Size -> res Str.

  (** direct formatting of frame k under (setting, environment) *)
  Definition fmt_env (k : nat) (ge : Setting * Env) : res Str := fmt_frame k (rsz ge).

  (** the excluded design: the cache key is computed from the setting alone *)
  Definition hash_setting_keyed (hs : Setting -> Z) (ge : Setting * Env) : Z := hs (fst ge).
End Env.

Arguments ENext {Setting Env}.
Arguments ESeek {Setting Env} p.
Arguments EClose {Setting Env}.
Arguments EDrop {Setting Env}.
Arguments ESetSize {Setting Env} g.
Arguments ESetEnv {Setting Env} e.

(* ------------------------------------------------------- (b) runs of seeks *)

Section SeekRuns.
  Variables Str Size : Type.
  Variable fmt_frame : nat -> Size -> res Str.
  Variable hash : Size -> Z.
  Variable N : nat.
  Variable cached : bool.

  (** a run of seeks followed by the request for a frame *)
  Definition seek_run (ps : list Z) : list (op Size) := map (fun p => Seek p) ps ++ [Next].

  (** the excluded hand-shake
        sent = yield frame
        if sent is None: n += 1
        else: n = sent; sent = yield frame        # second suspension point
      [at2]: the generator is suspended at the second yield *)
  Record vst := { base : st Str Size; at2 : bool }.

  Definition vstep (v : vst) (o : op Size) : vst * outcome Str :=
    let s := base v in
    match o with
    | Next =>
        (* resumed with None: at the second yield the loop renders frame n; at the first
           one n += 1 first *)
        let s0 := if at2 v then set_n s (n s - 1) else s in
        let (s1, x) := step fmt_frame hash N cached s0 Next in
        ({| base := s1; at2 := false |}, x)
    | Seek p =>
        if negb ((0 <=? p)%Z && (p <? Z.of_nat N)%Z) then (v, OSeekBad)
        else match ph s with
             | P0 => (v, OSeekNotStarted)
             | P1 | P2 =>
                 if at2 v
                 then (* the second yield receives p: the loop top skips rendering, the first
                         yield answers send(); n keeps the position of the seek before *)
                      ({| base := s; at2 := false |}, OSeekOk)
                 else ({| base := set_n s p; at2 := true |}, OSeekOk)
             | PEnd => (v, OSeekClosed)
             end
    | _ => let (s1, x) := step fmt_frame hash N cached s o in ({| base := s1; at2 := at2 v |}, x)
    end.

  Fixpoint vtrace (v : vst) (ops : list (op Size)) : list (outcome Str * Z * option Z * bool) :=
    match ops with
    | [] => []
    | o :: r => let (v1, x) := vstep v o in
                (x, pos (base v1), loop_no (base v1), img_open (base v1)) :: vtrace v1 r
    end.

  Definition vinit (repeat pos0 : Z) (z : Size) : vst := {| base := init Str repeat pos0 z; at2 := false |}.
End SeekRuns.
