(** Executable comparison used by the C20 correspondence for histories that contain the
    library's own support detection (model/SettingsDetect.v). *)
From Coq Require Import List ZArith Bool Arith.
Import ListNotations.
From TI Require Import model.Settings model.SettingsTie model.SettingsDetect.

Record dcase := {
  dc_kind : kind;
  dc_isfs : bool;        (* the setting is forced support (consulted by __new__) *)
  dc_g : gstyle;
  dc_t : ident;          (* what the terminal reports *)
  dc_par : list nat;
  dc_icls : list nat;
  dc_ops : list dop;
  dc_obs : list (list Z) (* per op: answer :: new instance's value (or -1) :: class values ++ instance values *)
}.

(** the documented part of a step's answer: the outcome of a set / unset ([None]: the answer of a
    support check / whether an instance could be created is not this property's business) *)
Definition dspec_out (k : kind) (o : dop) : option Z :=
  match o with DOp o' => Some (spec_out k o') | _ => None end.

Definition row_ok_spec (k : kind) (o : dop) (sp : option Z * list Z) (row : list Z) : bool :=
  match row with
  | a :: b :: vals =>
    zl_eqb (snd sp) vals
    && match dspec_out k o with Some x => Z.eqb x a | None => true end
    && match fst sp with
       | Some v => Z.eqb b (-1) || Z.eqb b v   (* not created, or reads its class's value *)
       | None => true
       end
  | _ => false
  end.

Fixpoint rows_ok_spec (k : kind) (ops : list dop) (sp : list (option Z * list Z))
         (obs : list (list Z)) : bool :=
  match ops, sp, obs with
  | [], [], [] => true
  | o :: ops', s :: sp', r :: obs' => row_ok_spec k o s r && rows_ok_spec k ops' sp' obs'
  | _, _, _ => false
  end.

(** 0 = agrees with model and spec; 1 = differs from the model only; 2 = contradicts the
    specification (property fails); 3 = both *)
Definition dcheck (t : dcase) : nat :=
  let k := dc_kind t in
  let par := parf (dc_par t) in
  let icls := parf (dc_icls t) in
  let nc := length (dc_par t) in
  let ni := length (dc_icls t) in
  let m := dtrace k (dc_isfs t) (dc_g t) (dc_t t) par icls nc ni (dinit k) (dc_ops t) in
  let ok_model := zll_eqb m (dc_obs t) in
  let ok_spec := rows_ok_spec k (dc_ops t) (dspec_trace k par icls nc ni (dc_ops t)) (dc_obs t) in
  (if ok_model then 0 else 1) + (if ok_spec then 0 else 2).

Definition dbad (cases : list dcase) : list (nat * nat) :=
  filter (fun p => negb (Nat.eqb (snd p) 0)) (index_from 0 (map dcheck cases)).
