(** * LocksCfg — the terminal lock under a changing library CONFIGURATION (C14)

    [model/Locks.v] has no notion of the library's settings.  This file puts them into the
    system: every process has a configuration [lconf] (field 0 = "terminal queries are
    enabled" ([utils._queries_enabled], [term_image.disable_queries()] /
    [enable_queries()]), field 1 = the window-size swap workaround ([utils._swap_win_size]),
    further fields = any other setting), any thread of a running process may change any
    field at any time (a schedule item of its own, [SConf]), and the step of
    [_process_start_wrapper] that decides whether the lock is shared
    ([utils.py:760], [if isinstance(_tty_lock, _rlock_type):]) is GIVEN the configuration of
    the starting process, through a [policy]:

    - [pol_code]: the code as it is — the configuration is not looked at; a thread lock is
      always replaced by a new [multiprocessing.RLock], which is handed to the child;
    - [pol_if_queries]: the variant "share the lock only while queries are enabled,
      otherwise hand the child nothing" (refuted);
    - [pol_of_table tbl]: the policy read off the decision table that
      [harness/tx/tx_locks.py] translates from the source of [_process_start_wrapper]
      ([gen/LockRegions.v], [start_handover]; vocabulary [model/LockSites.v]).

    A child that is handed nothing (or a thread lock, which does not cross a process
    boundary) runs on the PRIVATE thread lock of its own process: a lock reference [LT]
    used by a thread of process [p <> 0] denotes [lkC s p], not the root's [lkT].  A child
    process begins with the configuration [q_init] gives it ([Some q]: a fresh interpreter,
    the spawn / forkserver start methods; [None]: a copy of the starting process's
    configuration at that moment, the fork start method).

    Not represented: a process left on a private lock that itself starts a child would
    create a SECOND shared lock; the model identifies it with [LM].  This only concerns
    policies other than the code's (under [pol_code] no process is ever left on a private
    lock: [proofs/LocksCfgProofs.v], [cfg_children_on_shared_lock]) and is not used by the
    refutation's witness.

    Definitions only; proofs are in [proofs/LocksCfgProofs.v]. *)
From Coq Require Import List Arith Bool.
Import ListNotations.
From TI Require Import lib.Sched model.Locks model.LockSites.

(** ** Systems whose schedule items are not just thread identifiers *)
Section Items.
  Variables (G I : Type) (stp : G -> I -> option G).

  Fixpoint run_items (s : G) (sch : list I) : G :=
    match sch with
    | [] => s
    | i :: r => match stp s i with
                | Some s' => run_items s' r
                | None => run_items s r
                end
    end.

  Inductive reachable_items (s0 : G) : G -> Prop :=
  | ri_refl : reachable_items s0 s0
  | ri_step : forall s i s', reachable_items s0 s -> stp s i = Some s' -> reachable_items s0 s'.
End Items.
Arguments run_items {G I} stp s sch.
Arguments reachable_items {G I} stp s0 _.

(** ** Configuration *)
Definition lconf := nat -> bool.
(** the library's defaults ([utils.py:808-810]): queries enabled, no swap *)
Definition conf_default : lconf := fun f => Nat.eqb f 0.

(** does [_process_start_wrapper], finding the thread lock, create the shared lock and hand
    it over?  ([false]: the child is left on its own thread lock) *)
Definition policy := lconf -> bool.
Definition pol_code : policy := fun _ => true.
Definition pol_if_queries : policy := fun q => q 0.

(** the policy of a translated decision table ([model/LockSites.v]): the table is asked
    what happens when the global is still the thread lock *)
Definition pol_of_table (tbl : handover_table) : policy :=
  fun q => match eval_handover tbl true q with ONew => true | _ => false end.

Record qcfg := {
  q_base : cfg;
  q_init : nat -> option lconf   (* per child process: [Some] fresh, [None] inherited *)
}.

Record qstate := {
  qs : state;                    (* the system of [model/Locks.v] *)
  conf : nat -> lconf;           (* per process *)
  lkC : nat -> lock              (* per process [<> 0]: its own thread lock *)
}.

Inductive sitem :=
| SMove (t : nat)                      (* thread [t] (or the terminal) makes its next micro-step *)
| SConf (p f : nat) (b : bool).        (* some thread of process [p] sets field [f] to [b] *)

Definition with_qs (s : qstate) (b : state) : qstate :=
  {| qs := b; conf := conf s; lkC := lkC s |}.
Definition set_lkC (s : qstate) (p : nat) (v : lock) : qstate :=
  {| qs := qs s; conf := conf s; lkC := upd (lkC s) p v |}.
Definition set_conf (s : qstate) (p : nat) (q : lconf) : qstate :=
  {| qs := qs s; conf := upd (conf s) p q; lkC := lkC s |}.

(** [LT] in the hands of a thread of a child process is that process's own thread lock *)
Definition private (cf : cfg) (t : nat) (l : lref) : bool :=
  match l with LT => negb (Nat.eqb (proc cf t) 0) | LM => false end.

(** the thread-local transition: as [Locks.next], except that the [isinstance] step of the
    start wrapper consults the policy on the configuration [q] of the thread's process *)
Definition nextQ (pol : policy) (sg : bool) (c : lref) (q : lconf) (r : option (nat * nat))
                 (x : thread) : option (action * thread * list event) :=
  match t_pc x with
  | SCheck ch l =>
    match c with
    | LT => if pol q
            then Some (ANone, with_pc x (SSwap ch l), [])
            else Some (ANone, with_pc x (SRel ch l LT), [])  (* nothing shared: the child's own lock *)
    | LM => Some (ANone, with_pc x (SRel ch l LM), [])       (* [self._tty_lock = _tty_lock] *)
    end
  | _ => next sg c r x
  end.

Definition applyQ (qc : qcfg) (s : qstate) (t : nat) (a : action) : option qstate :=
  let cf := q_base qc in
  let p := proc cf t in
  match a with
  | AAcq l =>
    if private cf t l
    then if can_acquire (lkC s p) t then Some (set_lkC s p (acquire (lkC s p) t)) else None
    else option_map (with_qs s) (apply cf (qs s) t a)
  | ARel l =>
    if private cf t l
    then Some (set_lkC s p (release (lkC s p)))
    else option_map (with_qs s) (apply cf (qs s) t a)
  | AStart c h =>
    match apply cf (qs s) t a with
    | None => None
    | Some b =>
      Some {| qs := b;
              conf := if started (qs s) c then conf s
                      else upd (conf s) c (match q_init qc c with Some q => q | None => conf s p end);
              lkC := lkC s |}
    end
  | _ => option_map (with_qs s) (apply cf (qs s) t a)
  end.

Definition stepI (pol : policy) (qc : qcfg) (s : qstate) (i : sitem) : option qstate :=
  let cf := q_base qc in
  match i with
  | SConf p f b =>
    if started (qs s) p then Some (set_conf s p (upd (conf s p) f b)) else None
  | SMove t =>
    if Nat.eqb t (term_tid cf) then option_map (with_qs s) (step cf (qs s) t)
    else if negb (started (qs s) (proc cf t)) then None
    else
      match nextQ pol (single cf) (cur (qs s) (proc cf t)) (conf s (proc cf t))
                  (hd_error (reps (qs s))) (th (qs s) t) with
      | None => None
      | Some (a, x', ev) =>
        match applyQ qc s t a with
        | None => None
        | Some s1 => Some (with_qs s1 (set_th (qs s1) t x' ev))
        end
      end
  end.

(** the root process begins with ANY configuration [q0] *)
Definition initQ (prog : nat -> list cmd) (q0 : lconf) : qstate :=
  {| qs := init prog; conf := fun _ => q0; lkC := fun _ => free_lock |}.

(** the coarser grain of the correspondence ([Locks.macro]): the reads of module globals
    (now including the configuration) are glued to the preceding granted step *)
Definition macroI (pol : policy) (qc : qcfg) (s : qstate) (i : sitem) : option qstate :=
  match stepI pol qc s i with
  | None => None
  | Some s1 =>
    match i with
    | SConf _ _ _ => Some s1
    | SMove t =>
      if Nat.eqb t (term_tid (q_base qc)) then Some s1
      else
        let glue x := if is_read (t_pc (th (qs x) t))
                      then match stepI pol qc x (SMove t) with Some y => y | None => x end
                      else x in
        Some (glue (glue s1))
    end
  end.
