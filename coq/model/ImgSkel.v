(** C11, resource side — HAND-WRITTEN effect skeletons (coq/lib/Eff.v) of the functions
    through which the PIL image obtained by [_get_image()] travels after [_renderer] has
    handed it to a style's [_render_image]:

      BaseImage._get_render_data + its local convert_resize_img   (image/common.py:1426-1532)
      BlockImage._render_image                                    (image/block.py:54-178)
      KittyImage._render_image                                    (image/kitty.py:400-488)
      ITerm2Image._render_image                                   (image/iterm2.py:563-788)

    The translator (harness/tx/tx_skel.py) stops at the call [self._render_image(img, ..)]
    ("takes over the image"); what happens behind that call depends on which object the
    local name [img] is bound to ([img] is rebound to converted / resized / composited
    copies, [prev_img] and [frame_img] alias it), which the translator does not follow.
    Here the aliasing is resolved by hand with tracked booleans:

      variable [v_frame]   the parameter [frame]  (True: the caller is ImageIterator, which
                           keeps using the image; False: the image is this call's to close)
      variable [v_arg]     "the local [img] is still the object that was passed in"
      variable [v_prev]    "[prev_img] is the object that was passed in"
      image 0              the object that was passed in (the only one that can hold a file
                           descriptor: every other image is created in memory by Pillow)

    [self._close_image(x)] is [CloseImg 0] when [x] is the object passed in and has no
    tracked effect otherwise (an in-memory copy); [frame_img is not x] is
    [~ (frame /\ x is the object passed in)].  Every other call — PIL's convert, resize,
    alpha_composite, save, tobytes, getdata, seek (EOFError!), the size computations — is
    [Op Other]: no tracked effect, may raise.  Untracked conditions are [Choice]s.
    Definitions only; line numbers: /repo at c32425a. *)
From Coq Require Import List Bool Arith.
Import ListNotations.
From TI Require Import lib.Eff.

(** fault positions of C11: EVERY call may raise KeyboardInterrupt or an Exception, before
    or after taking effect, except the four bookkeeping calls themselves ([_get_image],
    [_close_image], constructing / closing the frame iterator) *)
Definition mf_c11 (o : op) : bool :=
  match o with OpenImg _ | CloseImg _ | OpenIter | CloseIter => false | _ => true end.
Definition cfg_c11 : cfg := mkcfg mf_c11 all_kinds.

(** tracked booleans 0 and 1 are [_renderer]'s own (gen/Skeletons.v) *)
Definition v_frame := 2.
Definition v_arg := 3.
Definition v_prev := 4.
Definition nv_imgskel := 5.

(** [if frame_img is not x: self._close_image(x)] where [x_is_arg] tells whether [x] is the
    object passed in *)
Definition close_unless_frame (x_is_arg : nat) : prog :=
  IfVar v_frame
    Skip                                        (* frame_img is the object passed in: it is spared;
                                                   a copy is closed (no tracked effect) *)
    (IfVar x_is_arg (Op (CloseImg 0)) Skip).    (* frame_img is None: [x] is closed *)

(** one arm of convert_resize_img (common.py:1465-1488):
      prev_img = img
      try: img = img.<convert|resize>(..)
      except Exception as e: raise RenderError(..) from e
      finally:
          if frame_img is not prev_img: self._close_image(prev_img) *)
Definition convert_arm : prog :=
  sq [ CopyVar v_prev v_arg;
       TryFinally false
         (TryExcept false
            (sq [ Op Other (* img.convert / img.resize *); SetVar v_arg false ])
            CNo Skip
            CYes (sq [ Op Other (* RenderError(..) *); Raise Exc ]))
         (close_unless_frame v_prev) ].

Definition sk_convert_resize_img : prog :=
  sq [ Choice convert_arm Skip     (* if img.mode != mode: 1468-1477 *);
       Choice convert_arm Skip     (* if img.size != size: 1479-1488 *) ].

(** the composite step shared by the two alpha paths (1506-1510 / 1520-1527):
      bg = Image.new(..); bg.alpha_composite(img) [; bg.putalpha(..)]
      if frame_img is not img: self._close_image(img)
      img = <bg or bg.convert("RGB")> *)
Definition composite_step : prog :=
  sq [ Op Other (* Image.new *); Op Other (* bg.alpha_composite(img) *); Op Other (* putalpha / getchannel *);
       close_unless_frame v_arg;
       Op Other (* bg.convert("RGB") *);
       SetVar v_arg false ].

(** BaseImage._get_render_data (1426-1532), entered with [v_arg] = true *)
Definition sk_get_render_data : prog :=
  sq [ Op Other (* 1491-1492: img.seek(self._seek_position) -- EOFError past the last frame *);
       Op Other (* 1493-1494: self._get_render_size() *);
       Choice
         (sq [ Call sk_convert_resize_img (* 1497 *);
               Op Other (* 1499: img.getdata() *) ])
         (sq [ Call sk_convert_resize_img (* 1502 *);
               Choice
                 (sq [ Op Other (* 1505: get_fg_bg_colors *); composite_step (* 1506-1510 *) ])
                 (sq [ Op Other (* 1515: img.getdata(3) *);
                       Choice composite_step (* 1519-1527 *) Skip ]);
               Op Other (* 1530: getdata of img / img.convert("RGB") *) ]) ].

(** BlockImage._render_image (block.py:54-178): the image is released right after the pixel
    data have been fetched *)
Definition sk_block_render_image : prog :=
  sq [ SetVar v_arg true;
       Op Other (* 98-110: colours, _is_on_kitty, _get_render_size *);
       Call sk_get_render_data (* 112 *);
       close_unless_frame v_arg (* 116-117 *);
       Op Other (* 119-178: building the string *) ].

(** KittyImage._render_image (kitty.py:400-488): released after [tobytes] *)
Definition sk_kitty_render_image : prog :=
  sq [ SetVar v_arg true;
       Op Other (* 437-443: sizes *);
       Call sk_get_render_data (* 445-447 *);
       Op Other (* 448: getattr(f, img.mode) *);
       Op Other (* 449: img.tobytes() *);
       close_unless_frame v_arg (* 452-453 *);
       Op Other (* 455-488: transmissions *) ].

(** ITerm2Image._render_image (iterm2.py:563-788).  [frame = True] only ever comes from
    ImageIterator, which refuses non-animated images (common.py:2021): the read-from-file
    branch (671-694, [not self._is_animated]) is then unreachable, and so is the
    native-animation branch (607, [not frame]). *)
Definition sk_iterm2_render_image : prog :=
  sq [ SetVar v_arg true;
       Op Other (* 590-605: sizes, os.access *);
       IfVar v_frame Skip
         (Choice
            (* 607-660: native animation, the whole file is sent *)
            (sq [ Choice
                    (Op Other (* 610 / 622: open(.., "rb") *))
                    (TryExcept false
                       (Op Other (* 614: img.save(.., save_all=True) *))
                       CNo Skip
                       CMay (sq [ Op (CloseImg 0) (* 616 *); Op Other; Raise Exc ]));
                  Op (CloseImg 0) (* 624 *);
                  Op Other (* 626-658: reading and encoding the file *);
                  Return ])
            Skip);
       Op Other (* 660-669: ANIM -> WHOLE, sizes *);
       Choice
         (IfVar v_frame
            Skip   (* unreachable, see above *)
            (Op Other (* 686-693: open(.., "rb"); frame_img = None *)))
         (sq [ Call sk_get_render_data (* 697-699 *);
               Op Other (* 700-705: format *);
               Op Other (* 708 img.tobytes() / 712 img.save(..) *) ]);
       close_unless_frame v_arg (* 720-721 *);
       Op Other (* 723-788: building the string; the images made by Image.frombytes are closed by `with` *) ].

(** [frame = False]: format() / str() / a non-animated draw() — the renderer of [_renderer] *)
Definition as_renderer (render_image : prog) : prog :=
  sq [ SetVar v_frame false; Call render_image ].

(** [frame = True]: one frame of ImageIterator, the image having been opened before *)
Definition as_frame (render_image : prog) : prog :=
  sq [ Op (OpenImg 0); SetVar v_frame true; Call render_image ].

Definition render_images : list prog :=
  [sk_block_render_image; sk_kitty_render_image; sk_iterm2_render_image].
