(** * ScreenUrwid — the environment of C18's [no_ghosts]: urwid's row cache and what an
    image canvas contributes to a row, as far as graphics placements are concerned.

    This is a MODEL of code outside the library (urwid/display/_raw_display_base.py
    draw_screen :600-623: a row of the new canvas is written iff it differs from the row
    of the screen buffer at the same position, and then it is written whole, from column
    0) and of the library's own canvas content (UrwidImageCanvas.content :397-412: a view
    of an image canvas yields, for each of its visible image lines, the line's placement
    followed by [dsum] copies of "\b "; a horizontally trimmed view yields blanks).
    It is validated by the correspondence runs only (DESIGN 4/C18: partial).

    Definitions only. *)
From Coq Require Import List ZArith Bool Lia Arith.
Import ListNotations.
From TI Require Import lib.Term model.Screen.

Section Urwid.

Variable H : nat.                               (* rows of the screen *)
Variable konsole : bool.                        (* the terminal is Konsole *)
Variable ksup : bool.                           (* KittyImage.forced_support or is_supported() *)
(** the image lines a view shows: (screen row, screen column, width) of each — a function
    of the view alone: the canvas (hence the image, its size and padding), the position
    and the trim are all part of the view *)
Variable lines : view -> list (Z * Z * Z).

Definition view_plcs (v : view) : list plc :=
  map (fun l => mk_plc (fst (fst l)) (snd (fst l)) (snd l) 1 (kind_z (v_kind v))) (lines v).
(** the placements a terminal must show for a set of views *)
Definition plcs_of (V : list view) : list plc := flat_map view_plcs V.

(** an image line inside a row: its placement, its protocol, the number of "\b " after it *)
Record item := mk_item { i_plc : plc; i_kitty : bool; i_dis : nat }.
Definition view_items (s : scr) (v : view) : list item :=
  map (fun p => mk_item p (is_kitty (v_kind v)) (dsum s (v_wid v))) (view_plcs v).
Definition items_of (s : scr) (V : list view) : list item := flat_map (view_items s) V.
Definition row_items (s : scr) (V : list view) (y : Z) : list item :=
  filter (fun it => Z.eqb (p_r (i_plc it)) y) (items_of s V).

(** a row of a canvas: the identity of everything that is not an image line, and the image
    lines (the bytes of a row determine both and are determined by them) *)
Definition row := (Z * list item)%type.
Definition render_row (s : scr) (V : list view) (base : Z -> Z) (y : Z) : row := (base y, row_items s V y).

Definition item_eqb (a b : item) : bool :=
  plc_eqb (i_plc a) (i_plc b) && Bool.eqb (i_kitty a) (i_kitty b) && Nat.eqb (i_dis a) (i_dis b).
Fixpoint items_eqb (a b : list item) : bool :=
  match a, b with
  | [], [] => true
  | x :: a', y :: b' => item_eqb x y && items_eqb a' b'
  | _, _ => false
  end.
Definition row_eqb (a b : row) : bool := Z.eqb (fst a) (fst b) && items_eqb (snd a) (snd b).

(** what writing an image line does: the cursor is at the line's first cell; a kitty line
    rendered with blend=False (every terminal but Konsole, _urwid.py:105-108) first deletes
    what intersects that cell (kitty.py:468,476); an iTerm2 line on Konsole is written with
    doNotMoveCursor (iterm2.py:727-731) *)
Definition item_toks (it : item) : list stok :=
  let p := i_plc it in
  KCup (p_r p) (p_c p) ::
  (if i_kitty it
   then (if konsole then [] else [KDel DelCursor]) ++ [KPlace (p_w p) 1 (p_z p) true]
   else [KIterm (p_w p) 1 true]).

Definition ys : list Z := map Z.of_nat (seq 0 H).

(** urwid's draw_screen: [old] = screen_buf ([None] after clear()/at start) *)
Definition resend (old : option (Z -> row)) (new : Z -> row) (y : Z) : bool :=
  match old with Some o => negb (row_eqb (o y) (new y)) | None => true end.
Definition urwid_draw (old : option (Z -> row)) (new : Z -> row) : list stok :=
  flat_map (fun y => if resend old new y then KCup y 0 :: flat_map item_toks (snd (new y)) else []) ys.

(** the world: the library's screen state, urwid's screen buffer, the terminal, and what has
    been written to the screen's output buffer but not flushed yet ([w_queue]: clear() and
    clear_images(now=False) only queue their delete commands; draw_screen flushes).
    GHOST fields (not in the code, used to state the hypothesis of [no_ghosts]): the
    disguise states with which the screen buffer was written ([w_bs]) and how many times
    the canvas disguise ([w_nall]) / each widget's disguise ([w_nw]) changed since. *)
Record world := mk_world { w_scr : scr; w_sb : option (Z -> row); w_term : pterm; w_queue : list stok;
                           w_bs : scr; w_nall : nat; w_nw : list (nat * nat) }.
Definition world_init : world := mk_world scr_init None pterm_init [] scr_init 0 [].

Definition cnt_inc (w : nat) (l : list (nat * nat)) : list (nat * nat) :=
  (w, S (wdis_get w l)) :: filter (fun e => negb (Nat.eqb (fst e) w)) l.

(** what the application / the main loop does to the screen:
    - a redraw with a canvas whose tracked image views are [V] (the walk's result, see
      [walk_positions]) and whose other content is [base] (drawing the same canvas object
      again is the redraw of the same view set: no view disappears, no row differs - PROVIDED
      no disguise changed since: urwid returns early, writing nothing, when it is handed the
      very canvas object it drew last (_raw_display_base.py:577), so a clear_images() call
      followed by a draw_screen of the same canvas object is NOT a redraw in this sense: the
      images stay cleared until a new canvas is drawn);
    - clear();
    - the public clear_images(widgets..., now=...) ([ws] empty = all images). *)
Inductive sop := ORedraw (V : list view) (base : Z -> Z) | OClear | OApi (ws : list (nat * wkind)) (now : bool).

(** the views of the previous canvas that the new one no longer has (:673) *)
Definition vanished (V : list view) (s : scr) : list view := filter (fun v => negb (view_mem v V)) (s_prev s).
Definition clears_all (V : list view) (s : scr) : bool :=
  existsb (fun v => negb (is_kitty (v_kind v))) (vanished V s).
(** ghost: the disguise changes since the screen buffer was written, this redraw's included *)
Definition redraw_nall (V : list view) (w : world) : nat :=
  if clears_all V (w_scr w) then S (w_nall w) else w_nall w.
Definition redraw_nw (V : list view) (w : world) (wd : nat) : nat :=
  wdis_get wd (w_nw w)
  + (if negb (clears_all V (w_scr w)) && existsb (fun v => Nat.eqb (v_wid v) wd) (vanished V (w_scr w)) then 1 else 0).

Definition step (w : world) (o : sop) : world :=
  match o with
  | ORedraw V base =>
    let ds := update_views ksup V (w_scr w) in
    let new := render_row (snd ds) V base in
    mk_world (snd ds) (Some new)
             (pexec konsole (w_term w) (w_queue w ++ [KSyncB] ++ fst ds ++ urwid_draw (w_sb w) new ++ [KSyncE]))
             [] (snd ds) 0 []
  | OClear =>
    let cs := clear_stream ksup (w_scr w) in
    mk_world (snd cs) None (w_term w) (w_queue w ++ fst cs) (w_bs w)
             (if ksup then S (w_nall w) else w_nall w) (w_nw w)
  | OApi ws now =>
    let r := api_clear_images ksup ws now (w_scr w) in
    mk_world (snd r) (w_sb w) (pexec konsole (w_term w) (fst (fst r))) (w_queue w ++ snd (fst r)) (w_bs w)
             (match ws with [] => if ksup then S (w_nall w) else w_nall w | _ => w_nall w end)
             (match ws with
              | [] => w_nw w
              | _ => if ksup then fold_left (fun l x => cnt_inc (fst x) l) (filter (fun x => is_kitty (snd x)) ws) (w_nw w)
                     else w_nw w
              end)
  end.
Definition run (ops : list sop) (w : world) : world := fold_left step ops w.

(** the terminal once the queue is flushed *)
Definition flushed (w : world) : pterm := pexec konsole (w_term w) (w_queue w).

End Urwid.
