(** C11 — life-cycle operations of an ImageIterator that arrive WHILE one of its [next()] calls is
    executing (round 7).

    [ImageIterator.close()] (common.py:2116-2122) is the instruction program

        try:
            self._animator.close()                 (1)
            del self._animator                     (2)
            self._image._close_image(self._img)    (3)
            del self._img                          (4)
        except AttributeError:
            pass

    Sequentially (model/ImgIter.v: [end_it]) it always runs to (4).  But [close()] may also be
    called while the generator of [_generate_frames] is EXECUTING — from another thread, from a
    signal handler that runs between two bytecodes of the render, or re-entrantly from the
    renderer: then (1), [generator.close()], raises [ValueError: generator already executing]
    and nothing has been done yet.  The call is a clean refusal, the [next()] in progress
    completes normally, and a later [close()] / [__del__] / exhaustion still releases the image.

    The state of [ImgIter] is extended by [att]: the attributes [_animator] / [_img] are still
    set on the instance (an AttributeError on [self._animator] is what makes [close()] a no-op,
    [__next__] answer StopIteration (2062-2064) and [seek] answer "exhausted or closed"
    (2152-2153)).  [close()] is the parameter [closef executing state -> (state, ValueError
    raised?)]: the code's is [close_code]; the excluded design that DETACHES the attributes
    before releasing them is [close_detach_first] (refuted in proofs/ImgIterReentProofs.v).

    History operation [RNextCD m]: a [next()] during whose execution [m] calls of [close()]
    arrive.  [__next__]'s own [self.close()] (StopIteration / exception handlers, 2057-2070),
    issued after the generator has finished, goes through [closef false]: the generator part of
    [ImgIter.step _ Next] is recovered by [reopen] (the image not yet handed to _close_image).
    Definitions only. *)
From Coq Require Import List ZArith Bool Arith.
Import ListNotations.
From TI Require Import model.ImgIter model.ImgIterSpec.

Set Implicit Arguments.

Section Reent.
  Variables Str Size : Type.
  Variable fmt_frame : nat -> Size -> res Str.
  Variable hash : Size -> Z.
  Variable N : nat.
  Variable cached : bool.

  Notation st := (st Str Size).

  Record rst := { base : st; att : bool }.

  Inductive rop :=
  | RPlain (o : op Size)
  | RNextCD (m : nat).        (* next() with m close() calls arriving while the generator executes *)

  (** the sequential history a concurrent one looks like if every concurrent close is a refusal *)
  Definition erase (o : rop) : op Size := match o with RPlain o => o | RNextCD _ => Next end.

  Definition is_end (s : st) : bool := match ph s with PEnd => true | _ => false end.

  (** close() as the code has it *)
  Definition close_code (executing : bool) (r : rst) : rst * bool :=
    if negb (att r) then (r, false)                       (* (1) AttributeError -> pass *)
    else if executing then (r, true)                      (* (1) ValueError; nothing done yet *)
    else ({| base := end_it (base r); att := false |}, false).   (* (1)-(4) *)

  (** the excluded design:
        animator, img = self._animator, self._img
        del self._animator, self._img
        animator.close()                 <- ValueError while executing: img is never closed
        self._image._close_image(img) *)
  Definition close_detach_first (executing : bool) (r : rst) : rst * bool :=
    if negb (att r) then (r, false)
    else if executing then ({| base := base r; att := false |}, true)
    else ({| base := end_it (base r); att := false |}, false).

  Variable closef : bool -> rst -> rst * bool.

  (** [m] calls of close() while the generator executes; how many of them raised ValueError *)
  Fixpoint attempts (m : nat) (r : rst) : rst * nat :=
    match m with
    | 0 => (r, 0)
    | S m' => let (r1, refused) := closef true r in
              let (r2, k) := attempts m' r1 in (r2, (if refused then 1 else 0) + k)
    end.

  (** [s1] with the image not (yet) handed to _close_image *)
  Definition reopen (s s1 : st) : st :=
    {| ph := ph s1; n := n s1; rep := rep s1; loop_no := loop_no s1; cache := cache s1; pos := pos s1;
       size := size s1; src_reset := src_reset s1; img_open := img_open s |}.

  Definition in_rng (p : Z) : bool := (0 <=? p)%Z && (p <? Z.of_nat N)%Z.

  Definition rstep (r : rst) (o : rop) : rst * (outcome Str * nat) :=
    let nextcd (m : nat) :=
        if att r then
          (* next(self._animator): the generator runs; the concurrent calls arrive; it yields,
             returns or raises; in the last two cases __next__ calls self.close() *)
          let (r1, k) := attempts m r in
          let (s1, x) := step fmt_frame hash N cached (base r1) Next in
          let r2 := {| base := reopen (base r1) s1; att := att r1 |} in
          (if is_end s1 then fst (closef false r2) else r2, (x, k))
        else (r, (OStop, 0))                              (* AttributeError '_animator' *)
    in
    match o with
    | RNextCD m => nextcd m
    | RPlain Next => nextcd 0
    | RPlain (Seek p) =>
        if att r then
          let (s1, x) := step fmt_frame hash N cached (base r) (Seek p) in
          ({| base := s1; att := true |}, (x, 0))
        else (r, (if in_rng p then OSeekClosed else OSeekBad, 0))
    | RPlain Close | RPlain Drop => (fst (closef false r), (OClosed, 0))
    | RPlain (SetImageSize z) => ({| base := set_size (base r) z; att := att r |}, (OSized, 0))
    end.

  Definition rinit (repeat pos0 : Z) (z : Size) : rst := {| base := init Str repeat pos0 z; att := true |}.

  Fixpoint rrun (r : rst) (ops : list rop) : rst :=
    match ops with [] => r | o :: t => rrun (fst (rstep r o)) t end.

  (** per operation: what [ImgIter.trace] shows, and the number of concurrent close() calls refused *)
  Fixpoint rtrace (r : rst) (ops : list rop) : list ((outcome Str * Z * option Z * bool) * nat) :=
    match ops with
    | [] => []
    | o :: t => let '(r1, (x, k)) := rstep r o in
                ((x, pos (base r1), loop_no (base r1), img_open (base r1)), k) :: rtrace r1 t
    end.

  (** SPECIFICATION side: a close() that arrives while a frame is being produced is refused and
      changes nothing — the observable trace is that of the erased (sequential) history, and every
      one of the [m] calls is refused as long as the iterator is live *)
  Definition expected_refusals (live : bool) (o : rop) : nat :=
    match o with RNextCD m => if live then m else 0 | RPlain _ => 0 end.

  (** the specification's trace of a concurrent history: model/ImgIterSpec.v on the erased history,
      the iterator being live exactly while the specification has not closed it *)
  Fixpoint srtrace (a : sp Size) (ops : list rop) : list ((outcome Str * Z * option Z * bool) * nat) :=
    match ops with
    | [] => []
    | o :: t => let (a1, x) := sstep fmt_frame N a (erase o) in
                ((x, spos a1, sloop a1, negb (closed a1)), expected_refusals (negb (closed a)) o)
                  :: srtrace a1 t
    end.
End Reent.

Arguments RPlain {Size} o.
Arguments RNextCD {Size} m.
