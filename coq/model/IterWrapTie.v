(** Executable comparison used by the C09 correspondence: [check9] of [model/IterTie.v]
    (paired cached / uncached runs against the code model and against each other) plus the
    history-level oracle of [model/IterWrap.v] on BOTH runs: every yielded frame has the
    padded size / padding dimensions of the padding and render size in force at its
    [next] ([wrap_okb], theorem [C09_wrap_current]), and — for the instrumented renderable,
    whose output records what it was asked for — was rendered at the size, duration and
    arguments in force at its [next] ([current_okb]).  Both are functions of the history
    and the observations alone (no iterator state, no cache, no renderable). *)
From Coq Require Import List ZArith Bool Arith Lia.
Import ListNotations.
From TI Require Import model.Iter model.IterSpec model.IterTie model.IterWrap.
Open Scope Z_scope.

(** the instrumented renderable writes [frame_offset; whence; w; h; duration; args; pos; stamp] *)
Definition rendered_for (h : settings) (f : frame) : bool :=
  let raw := f_output f in
  (nth 2 raw (-9) =? fst (h_size h)) && (nth 3 raw (-9) =? snd (h_size h))
  && (nth 4 raw (-9) =? dur_code (h_dur h)) && (nth 5 raw (-9) =? h_args h)
  && (f_duration f =? match h_dur h with DDynamic => 100 + f_number f | DStatic ms => ms end).

Fixpoint current_okb (term : size) (h : settings) (ops : list op) (obs : list (out * Z)) : bool :=
  match ops, obs with
  | o :: ops', (x, _) :: obs' =>
    (match o, x with
     | Next, OFrame f => rendered_for h f
     | _, _ => true
     end)
    && current_okb term (settings_step term h o) ops' obs'
  | _, _ => true
  end.

Definition history_ok (t : tcase) : bool :=
  match t_ctor t with
  | Some _ => true
  | None =>
    let h0 := settings0 term8030 (t_cfg t) in
    wrap_okb term8030 h0 (t_ops t) (t_obs t) && current_okb term8030 h0 (t_ops t) (t_obs t)
  end.

(** 0 agrees; +1 differs from the code model; +2 contradicts the specification side *)
Definition check9w (p : tcase * tcase) : nat :=
  let c := check9 p in
  if history_ok (fst p) && history_ok (snd p) then c
  else if Nat.leb 2 c then c else (c + 2)%nat.

Definition bad9w (cases : list (tcase * tcase)) : list (nat * nat) :=
  filter (fun p => negb (Nat.eqb (snd p) 0)) (index_from 0 (map check9w cases)).
