(** * GfxRender — token-level models of [KittyImage._render_image] ([kitty.py:398-489]) and
    [ITerm2Image._render_image] ([iterm2.py:563-783]): the framing and cursor choreography
    around the transmissions.  Payload bytes are abstracted to their lengths; the chunk
    structure of a kitty transmission is a parameter (it is [KittyChunks]' business, C03). *)
From Coq Require Import List ZArith Bool Lia.
Import ListNotations.
From TI Require Import lib.Term lib.TermFacts lib.Lines.
Open Scope Z_scope.

(** ** kitty *)

(** continuation chunks [m=1 ... m=0] *)
Fixpoint conts (pl : list Z) : list tok :=
  match pl with
  | [] => []
  | [p] => [TKittyCont false p]
  | p :: rest => TKittyCont true p :: conts rest
  end.

(** [Transmission.get_chunks]: the first chunk carries the keys, [m = bool(next_chunk)] *)
Definition transmission (k : kitty_keys) (pl : list Z) : list tok :=
  match pl with
  | [] => [TKittyFirst k false 0]
  | p :: rest => TKittyFirst k (match rest with [] => false | _ => true end) p :: conts rest
  end.

Section Kitty.
Variable w h : Z.            (* rendered size in cells *)
Variable z : Z.
Variable mix blend : bool.

(** [fill = ("" if mix else ERASE_CHARS % r_width) + CURSOR_FORWARD % r_width] *)
Definition kfill : list tok := (if mix then [] else [TEch w]) ++ [TCuf w].
Definition kdel : list tok := if blend then [] else [TKittyDel DelCursor].

(** LINES: one transmission per line ([c = r_width, r = 1]) *)
Definition kitty_line (pl : list Z) : list tok :=
  kdel ++ transmission {| kk_cols := w; kk_rows := 1; kk_z := z; kk_stay := true |} pl ++ kfill.
Definition kitty_lines (pls : list (list Z)) : list tok := joinlf (map kitty_line pls).

(** WHOLE: one transmission ([c = r_width, r = r_height]), then [fill LF] per line *)
Definition kitty_whole_ls (pl : list Z) : list (list tok) :=
  (kdel ++ transmission {| kk_cols := w; kk_rows := h; kk_z := z; kk_stay := true |} pl ++ kfill)
  :: repeat kfill (Z.to_nat (h - 1)).
Definition kitty_whole (pl : list Z) : list tok := joinlf (kitty_whole_ls pl).
End Kitty.

(** ** iterm2 *)
Section Iterm2.
Variable w h : Z.
Variable konsole wezterm mix : bool.     (* [_TERM == "konsole"], [== "wezterm"] *)

Definition ierase : list tok := if negb mix && wezterm then [TEch w] else [].
Definition icuf : list tok := [TCuf w].

(** LINES ([iterm2.py:729-754]): per line [erase IMG(w x 1) [CUF]?] *)
Definition iterm2_line (sp : Z * Z) : list tok :=
  ierase ++ [TIterm w 1 konsole (fst sp) (snd sp)] ++ (if konsole then icuf else []).
Definition iterm2_lines (sps : list (Z * Z)) : list tok := joinlf (map iterm2_line sps).

(** WHOLE and native ANIM ([iterm2.py:642-658,767-783]) *)
Definition iterm2_whole_ls (sp : Z * Z) : list (list tok) :=
  if konsole then
    (* IMG(doNotMoveCursor) then (CUF LF)^(h-1) CUF *)
    (ierase ++ [TIterm w h true (fst sp) (snd sp)] ++ icuf) :: repeat icuf (Z.to_nat (h - 1))
  else
    (* (erase CUF LF)^(h-1) erase CUU(h-1)? IMG *)
    repeat (ierase ++ icuf) (Z.to_nat (h - 1))
    ++ [ierase ++ (if 1 <? h then [TCuu (h - 1)] else []) ++ [TIterm w h false (fst sp) (snd sp)]].
Definition iterm2_whole (sp : Z * Z) : list tok := joinlf (iterm2_whole_ls sp).
End Iterm2.
