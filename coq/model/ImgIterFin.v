(** C11, round 8: FAULTS OF THE OUTPUT STREAM INSIDE THE CLEAN-UP of an animated draw().

    [BaseImage._display_animated] (src/term_image/image/common.py:1318-1366) ends with a
    [finally:] block that is itself a SEQUENCE OF STEPS:

        image_it.close()                        (:1361)   CCloseIter
        self._close_image(img)                  (:1362)   CCloseImg
        self._seek_position = prev_seek_pos     (:1363)   CRestore
        print(cursor_down(lines - 1), end="")   (:1366)   CPure (cursor_down), CWrite

    The stream written to is [sys.stdout]: a pipe whose reader went away, a closed file, a
    vanished pty make write() / flush() raise -- and a stream that has started failing goes
    on failing, so the clean-up's own write fails too.  A step that raises ends the block:
    the steps after it are skipped.  The ORDER therefore matters: the property ("the image's
    current frame is untouched by an animated draw()", "every image file the library opened
    is closed again") holds under stream faults exactly when every step that restores /
    releases stands before the first step that talks to the stream.

    This file: the clean-up as a list of steps run against a stream that accepts a given
    number of further calls ([None]: for ever), the body of the animation as a list of
    renders (each moves the current frame) and stream calls, the whole animated draw.
    Definitions only; the proofs are in [proofs/ImgIterFinProofs.v]. *)
From Coq Require Import List Bool Arith.
Import ListNotations.

Inductive cstep :=
| CCloseIter    (* image_it.close() *)
| CCloseImg     (* self._close_image(img) *)
| CRestore      (* self._seek_position = prev_seek_pos *)
| CWrite        (* a write() to the output stream *)
| CFlush        (* a flush() of the output stream *)
| CPure.        (* a call without effect that cannot fail (cursor_down(..)) *)

Definition is_stream (c : cstep) : bool :=
  match c with CWrite | CFlush => true | _ => false end.

(** what the property looks at *)
Record ast := mkast {
  a_iter_open : bool;   (* the animation's frame iterator is open *)
  a_img_open : bool;    (* the PIL image handed to _display_animated is open *)
  a_pos : nat           (* the image's current frame (_seek_position) *)
}.

Definition apply_step (saved : nat) (c : cstep) (s : ast) : ast :=
  match c with
  | CCloseIter => mkast false (a_img_open s) (a_pos s)
  | CCloseImg => mkast (a_iter_open s) false (a_pos s)
  | CRestore => mkast (a_iter_open s) (a_img_open s) saved
  | CWrite | CFlush | CPure => s
  end.

(** the stream: the number of further write()/flush() calls it accepts; [None] = never breaks.
    Once it refuses a call it refuses every later one. *)
Definition stream := option nat.
Definition accepts (f : stream) : bool := match f with Some 0 => false | _ => true end.
Definition used (f : stream) : stream := match f with Some (S n) => Some n | x => x end.

(** a block of clean-up steps; the result: state, stream, "left by an exception" *)
Fixpoint run_cleanup (saved : nat) (steps : list cstep) (f : stream) (s : ast) : ast * stream * bool :=
  match steps with
  | [] => (s, f, false)
  | c :: r =>
      if is_stream c then
        if accepts f then run_cleanup saved r (used f) s else (s, f, true)
      else run_cleanup saved r f (apply_step saved c s)
  end.

(** the body of the animation ([try:] part, :1338-1354): renders (next(image_it._animator)
    moves the current frame to the frame rendered) and stream calls (print(frame, ...,
    flush=True); the style's _clear_frame / _handle_interrupted_draw write as well) *)
Inductive bstep := BRender (j : nat) | BStream.

Fixpoint run_body (b : list bstep) (f : stream) (s : ast) : ast * stream * bool :=
  match b with
  | [] => (s, f, false)
  | BRender j :: r => run_body r f (mkast (a_iter_open s) (a_img_open s) j)
  | BStream :: r => if accepts f then run_body r (used f) s else (s, f, true)
  end.

(** the animated draw: [prev_seek_pos] = the current frame at entry, iterator and image open,
    the body until it ends or the stream refuses a call, then -- always -- the clean-up.
    Result: final state, did the call raise. *)
Definition anim_draw (cleanup : list cstep) (body : list bstep) (pos0 : nat) (f : stream) : ast * bool :=
  let '(s1, f1, r1) := run_body body f (mkast true true pos0) in
  let '(s2, _, r2) := run_cleanup pos0 cleanup f1 s1 in
  (s2, r1 || r2).

(** the property's demand on the state after the call *)
Definition fin_ok (pos0 : nat) (s : ast) : bool :=
  negb (a_iter_open s) && negb (a_img_open s) && (a_pos s =? pos0).

(** the ORDER criterion, syntactic: the steps standing before the first stream step contain
    the close of the iterator, the close of the image and the restore of the position *)
Fixpoint before_stream (steps : list cstep) : list cstep :=
  match steps with
  | [] => []
  | c :: r => if is_stream c then [] else c :: before_stream r
  end.

Definition has (p : cstep -> bool) (l : list cstep) : bool := existsb p l.
Definition is_close_iter c := match c with CCloseIter => true | _ => false end.
Definition is_close_img c := match c with CCloseImg => true | _ => false end.
Definition is_restore c := match c with CRestore => true | _ => false end.

Definition restores_first (steps : list cstep) : bool :=
  let pre := before_stream steps in
  has is_close_iter pre && has is_close_img pre && has is_restore pre.

(** the clean-up of the code (common.py:1360-1366) *)
Definition code_cleanup : list cstep := [CCloseIter; CCloseImg; CRestore; CPure; CWrite].

(** the excluded order: the final cursor move written and flushed FIRST *)
Definition write_first_cleanup : list cstep := [CPure; CWrite; CFlush; CCloseIter; CCloseImg; CRestore].

(** the body of a plain run: [passes] passes over frames 0..n-1, [w] stream calls per frame *)
Fixpoint frames_from (n j : nat) (w : nat) : list bstep :=
  match n with
  | 0 => []
  | S m => BRender j :: repeat BStream w ++ frames_from m (S j) w
  end.
Fixpoint plain_body (passes n w : nat) : list bstep :=
  match passes with
  | 0 => []
  | S p => frames_from n 0 w ++ plain_body p n w
  end.

Definition stream_calls_body (b : list bstep) : nat :=
  length (filter (fun x => match x with BStream => true | _ => false end) b).
Definition stream_calls_cleanup (c : list cstep) : nat := length (filter is_stream c).
