(** * IterSession — several iterators, one after the other, over ONE render data object (C10)

    A caller who keeps a render data object [D] ([renderable._get_render_data_(iteration=True)])
    may hand it to [RenderIterator._from_render_data_(renderable, D, ..., finalize=...)]
    several times, and finalizes it itself in the end ([D.finalize()]); this is what
    [Renderable._animate_] / [draw()] do.  A session is a list of
      - [SMake c]          [_from_render_data_(..., finalize = c_owns c)]; the previous
                           iterator of the session, if any, is dropped first ([__del__])
      - [SOp o]            an operation on the current iterator
      - [SOwnerFinalize]   [D.finalize()] by the owner.

    [_from_render_data_] (_iterator.py:477-504) checks, in this order: [_init]'s validation
    (animated, [loops], [cache]: ValueError), the render class, [render_data.finalized]
    (ValueError "The render data has been finalized" - whatever [finalize] is), the
    [iteration] flag, the render arguments (IncompatibleRenderArgsError).  The new iterator
    works on [D]'s own namespace: size, duration and seek whence are what the previous
    iterator left there ([_iterate] only resets [frame_offset], line 564); the finalisation
    ghost of [D] ([finalized], number of finalizer calls, log of [_render_] calls) carries
    over, [owns] is the new iterator's.

    Built on the untouched [Iter]; definitions only. *)
From Coq Require Import List ZArith Bool.
Import ListNotations.
From TI Require Import model.Iter.
Open Scope Z_scope.

Inductive sop := SMake (c : config) | SOp (o : op) | SOwnerFinalize.
Inductive sout := SOut (x : out) | SMade | SRefused (e : err) | SDone | SNoIter.

Section Session.
  Variable RS : Type.
  Variable render : RS -> Z -> whence -> size -> dur -> Z -> rres * RS.
  Variable n : option Z.
  Variable term : size.

  Notation state := (state RS).

  (** the session: the current iterator if any; else [D]'s ghost, [D]'s namespace and the
      renderable's own state as the last iterator left them *)
  Record sess := { s_it : option state; s_data : ghost; s_rd : rdata; s_rs : RS }.

  Definition data_of (ss : sess) : ghost := match s_it ss with Some s => gh s | None => s_data ss end.

  (** may the owner finalize now?  (no iterator is working on the data) *)
  Definition idle (ss : sess) : bool := match s_it ss with Some s => closed s | None => true end.

  (** the guard is a parameter so that the seeded variant can be stated: [guard owns
      finalized] = refuse *)
  Definition guard_code (owns finalized : bool) : bool := finalized.
  Definition guard_only_when_owning (owns finalized : bool) : bool := owns && finalized.
  Variable guard : bool -> bool -> bool.

  Definition mk_on (g : ghost) (r : rdata) (c : config) (rs0 : RS) : state + err :=
    if match n with Some k => k <? 2 | None => false end then inr EValue
    else if c_loops c =? 0 then inr EValue
    else if negb (cache_valid (c_cache c)) then inr EValue
    else if guard (c_owns c) (finalized g) then inr EValue            (* lines 486-487 *)
    else
      match mk RS n term c rs0 with
      | inr e => inr e
      | inl s =>
        let r' := {| fo := 0; wh := wh r; d_size := d_size r; d_dur := d_dur r |} in
        inl (set_padded RS
               (set_rd RS
                  (set_gh RS s {| owns := c_owns c; finalized := finalized g; fin_calls := fin_calls g;
                                  log := log g |}) r')
               (padded_size (pad s) (d_size r)))
      end.

  (** the current iterator loses its last reference: [__del__] -> [close()] *)
  Definition drop_current (ss : sess) : sess :=
    match s_it ss with
    | Some s => let s' := close RS s in
                {| s_it := None; s_data := gh s'; s_rd := rd s'; s_rs := rs s' |}
    | None => ss
    end.

  Definition sstep (ss : sess) (o : sop) : sess * sout :=
    match o with
    | SMake c =>
      let ss1 := drop_current ss in
      match mk_on (s_data ss1) (s_rd ss1) c (s_rs ss1) with
      | inl s => ({| s_it := Some s; s_data := gh s; s_rd := rd s; s_rs := rs s |}, SMade)
      | inr e => (ss1, SRefused e)
      end
    | SOp op =>
      match s_it ss with
      | Some s => let '(s', x) := step RS render n term s op in
                  ({| s_it := Some s'; s_data := gh s'; s_rd := rd s'; s_rs := rs s' |}, SOut x)
      | None => (ss, SNoIter)
      end
    | SOwnerFinalize =>
      match s_it ss with
      | Some s => let s' := set_gh RS s (data_finalize (gh s)) in
                  ({| s_it := Some s'; s_data := gh s'; s_rd := rd s'; s_rs := rs s' |}, SDone)
      | None => ({| s_it := None; s_data := data_finalize (s_data ss); s_rd := s_rd ss; s_rs := s_rs ss |}, SDone)
      end
    end.

  Definition srun (ss : sess) (l : list sop) : sess := fold_left (fun a o => fst (sstep a o)) l ss.

  Fixpoint strace (ss : sess) (l : list sop) : list sout :=
    match l with
    | [] => []
    | o :: r => let '(ss', y) := sstep ss o in y :: strace ss' r
    end.

  (** the owner finalizes only while no iterator is working on its data *)
  Fixpoint well_formed (ss : sess) (l : list sop) : bool :=
    match l with
    | [] => true
    | o :: r => (match o with SOwnerFinalize => idle ss | _ => true end) && well_formed (fst (sstep ss o)) r
    end.

  (** a fresh data object ([_get_render_data_]): nothing finalized, nothing rendered *)
  Definition fresh_sess (r : rdata) (rs0 : RS) : sess :=
    {| s_it := None; s_data := {| owns := false; finalized := false; fin_calls := 0; log := [] |};
       s_rd := r; s_rs := rs0 |}.
End Session.

Arguments s_it {RS}. Arguments s_data {RS}. Arguments s_rd {RS}. Arguments s_rs {RS}.
