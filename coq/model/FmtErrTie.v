(** Executable comparison used by the C19 correspondence for REJECTED specifiers
    (harness/props/c19.py, part 6): the exception class format() raised (module-qualified
    name, reduced by the driver to an enum) and the kind of its message, against the
    call-chain model [FmtErr.impl_error] and against the documented precedence
    [FmtErr.spec_error].

    Return codes: 0 agrees; 1 differs from the implementation model only; 2 the observed
    exception class contradicts the documentation (property fails); 3 both. *)
From Coq Require Import List Bool Arith NArith ZArith.
Import ListNotations.
From TI Require Import lib.Re model.FmtSpec model.FmtErr.

Record ecase := {
  e_sty : style;
  e_spec : list N;
  e_cls : nat;     (* 0 no exception; 1 builtins.ValueError (exactly); 2 term_image.exceptions.StyleError
                      (exactly); 9 any other class *)
  e_msg : nat      (* 0 none; 1 "Invalid format specifier"; 2 "Invalid style-specific format specifier";
                      3 a value message of _check_style_args (z-index / compression level); 9 other *)
}.

Definition cls_code (o : option error_kind) : nat :=
  match o with
  | None => 0
  | Some k => match class_of k with CValueError => 1 | CStyleError => 2 end
  end.
Definition msg_code (o : option error_kind) : nat :=
  match o with None => 0 | Some EInvalid => 1 | Some EStyle => 2 | Some ERange => 3 end.

Definition echeck (c : ecase) : nat :=
  let m := impl_error (e_sty c) (e_spec c) in
  let d := spec_error (e_sty c) (e_spec c) in
  let ok_model := (cls_code m =? e_cls c) && (msg_code m =? e_msg c) in
  (* the documentation fixes the class; the wording of the messages is not documented *)
  let ok_spec := (cls_code d =? e_cls c) in
  (if ok_model then 0 else 1) + (if ok_spec then 0 else 2).

Fixpoint eindex_from {A} (n : nat) (l : list A) : list (nat * A) :=
  match l with [] => [] | x :: r => (n, x) :: eindex_from (S n) r end.

Definition ebad (cases : list ecase) : list (nat * nat) :=
  filter (fun p => negb (Nat.eqb (snd p) 0)) (eindex_from 0 (map echeck cases)).
