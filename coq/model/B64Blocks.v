(** C03 — base64 well-formedness of a WHOLE payload, a concrete RFC 4648 encoder / strict
    decoder, and block-wise encoding of a stream.

    The property speaks of "a payload that decodes to ..." and of "size= equal to the decoded
    payload length": the payload of ONE graphics command (iterm2 [File=] command; the
    reassembled chunks of one kitty transmission) must be ONE well-formed base64 text — its
    length a multiple of 4 and padding characters only at the very end (at most two).
    [b64_wf] states this for an arbitrary character type with an arbitrary padding test; the
    C03 theorems take it as a hypothesis on the encoder ([b64] of proofs/KittyChunksProofs.v,
    proofs/B64Proofs.v).

    [enc] / [dec] are RFC 4648 (the standard alphabet as sextet values 0..63, 64 = '='):
    the instance that shows the hypotheses satisfiable, and the encoder from which
    [encode_blocks] is built.

    [encode_blocks n] is the streaming shape

        "".join(standard_b64encode(block) for block in iter(partial(stream.read, n), b""))

    i.e. the stream cut into blocks of [n] bytes, each block encoded on its own.  It is an
    encoder in the sense of the hypothesis iff every block but the last encodes without
    padding, i.e. iff [n] is a multiple of 3 (proofs/B64Proofs.v: [encode_blocks_mult3],
    [encode_blocks_breaks_wf]).  The code under verification encodes the whole stream at once
    (iterm2.py:656, 756, 786; kitty.py:533): [encode_blocks] is the EXCLUDED design.

    Definitions only. *)
From Coq Require Import List Arith Bool.
Import ListNotations.
Local Open Scope nat_scope.

Section Wf.
  Variable C : Type.
  Variable is_pad : C -> bool.

  (** from the first padding character on: only padding, and at most one more character *)
  Fixpoint pads_only_at_end (l : list C) : bool :=
    match l with
    | [] => true
    | c :: r => if is_pad c then forallb is_pad r && (length r <=? 1) else pads_only_at_end r
    end.

  Definition b64_wf (l : list C) : bool := (length l mod 4 =? 0) && pads_only_at_end l.

  Definition npad (l : list C) : nat := length (filter is_pad l).
End Wf.

Arguments pads_only_at_end {C}.
Arguments b64_wf {C}.
Arguments npad {C}.

(* ----------------------------------------------------------- RFC 4648, concretely *)

Definition pad64 : nat := 64.
Definition is_pad64 (c : nat) : bool := c =? 64.
Definition sextet (c : nat) : bool := c <? 64.

(** 3 bytes = 24 bits = 4 sextets (the usual shifts, written with div / mod) *)
Definition enc3 (a b c : nat) : list nat :=
  [a / 4; (a mod 4) * 16 + b / 16; (b mod 16) * 4 + c / 64; c mod 64].
(** 2 bytes = 16 bits (+ 2 zero bits) = 3 sextets and one '=' *)
Definition enc2 (a b : nat) : list nat :=
  [a / 4; (a mod 4) * 16 + b / 16; (b mod 16) * 4; pad64].
(** 1 byte = 8 bits (+ 4 zero bits) = 2 sextets and '==' *)
Definition enc1 (a : nat) : list nat :=
  [a / 4; (a mod 4) * 16; pad64; pad64].

Fixpoint enc (l : list nat) : list nat :=
  match l with
  | a :: b :: c :: r => enc3 a b c ++ enc r
  | [a; b] => enc2 a b
  | [a] => enc1 a
  | [] => []
  end.

Definition dec3 (s0 s1 s2 s3 : nat) : list nat :=
  [s0 * 4 + s1 / 16; (s1 mod 16) * 16 + s2 / 4; (s2 mod 4) * 64 + s3].
Definition dec2 (s0 s1 s2 : nat) : list nat :=
  [s0 * 4 + s1 / 16; (s1 mod 16) * 16 + s2 / 4].
Definition dec1 (s0 s1 : nat) : list nat := [s0 * 4 + s1 / 16].

(** STRICT decoding (base64.b64decode(s, validate=True)): groups of four characters;
    padding is accepted only in the last group, as "xx==" or "xxx=" *)
Fixpoint dec (l : list nat) : option (list nat) :=
  match l with
  | [] => Some []
  | s0 :: s1 :: s2 :: s3 :: r =>
      if sextet s0 && sextet s1 then
        if sextet s2 && sextet s3 then
          match dec r with
          | Some y => Some (dec3 s0 s1 s2 s3 ++ y)
          | None => None
          end
        else
          match r with
          | [] =>
              if sextet s2 && is_pad64 s3 then Some (dec2 s0 s1 s2)
              else if is_pad64 s2 && is_pad64 s3 then Some (dec1 s0 s1)
              else None
          | _ :: _ => None                        (* padding before the end *)
          end
      else None
  | _ => None                                      (* length not a multiple of 4 *)
  end.

(* --------------------------------------------------------------- block-wise *)

Section Blocks.
  Variables B C : Type.
  Variable encf : list B -> list C.

  (** iter(partial(stream.read, n), b""): blocks of [n] items until an empty read *)
  Fixpoint blocks (fuel n : nat) (l : list B) : list (list B) :=
    match fuel with
    | 0 => []
    | S f =>
        match firstn n l with
        | [] => []                                  (* the sentinel b"": end of the stream *)
        | blk => blk :: blocks f n (skipn n l)
        end
    end.

  Definition encode_blocks (n : nat) (l : list B) : list C :=
    concat (map encf (blocks (length l) n l)).
End Blocks.

Arguments blocks {B}.
Arguments encode_blocks {B C}.
