(** * PadGen — [Padding.pad] ([padding.py:161-194]) over an arbitrary FILL SEGMENT.

    [Padding.fill] "may be any string that occupies exactly one column on a terminal screen,
    or an empty string": a base character followed by combining marks, a glyph followed by a
    variation selector / joiner, a blank or a glyph wrapped in SGR sequences are all one-column
    fills although they are several code points (several tokens) long.  [model/Padding.v]
    takes the fill as an optional single [glyph]; here the fill is the token list [f] of the
    fill string, subject only to the hypothesis [OneCell f]: executed with default attributes
    it writes exactly one cell, advances the cursor by one column and leaves the attributes
    default.  [fill * n] is then [n] repetitions of the whole list ([rep]), whatever its
    length — NOT a prefix of so many tokens. *)
From Coq Require Import List ZArith Bool Lia.
Import ListNotations.
From TI Require Import lib.Term lib.TermFacts lib.Lines model.Padding.
Open Scope Z_scope.

(** ** the hypothesis on a fill: one column *)

(** executing [f] from any clean state with default attributes writes the cell under the
    cursor (events [E row col]: inside that single cell, covering it), leaves the cursor one
    column to the right on the same row and the attributes default *)
Definition OneCellBy (E : Z -> Z -> list ev) (f : list tok) : Prop :=
  nolf f /\ nocr f
  /\ (forall lm t, clean t -> sgr t = adefault ->
        exec lm t f = mk (row t) (col t + 1) adefault t (E (row t) (col t)))
  /\ (forall r c, forallb (ev_inside r c 1 1) (E r c) = true)
  /\ (forall r c, covered (E r c) r c = true).

Definition OneCell (f : list tok) : Prop := exists E, OneCellBy E f.

(** a decidable class of such fills (what the correspondence uses): zero-width style tokens,
    one glyph, zero-width style tokens, the attributes being default again at the end *)
Definition is_style (x : tok) : bool :=
  match x with TSgr0 | TFg _ | TBg _ | TNul => true | _ => false end.

Definition style_step (a : attrs) (x : tok) : attrs :=
  match x with
  | TSgr0 => adefault
  | TFg c => {| fg := Some c; bg := bg a |}
  | TBg c => {| fg := fg a; bg := Some c |}
  | _ => a
  end.
Definition style_after (a : attrs) (ts : list tok) : attrs := fold_left style_step ts a.

Definition attrs_default (a : attrs) : bool :=
  match fg a, bg a with None, None => true | _, _ => false end.

(** [f = pre ++ [TChar g] ++ post]: returns (pre, g, post) *)
Fixpoint split_styled (f : list tok) : option (list tok * glyph * list tok) :=
  match f with
  | [] => None
  | TChar g :: post => Some ([], g, post)
  | x :: rest =>
    if is_style x then
      match split_styled rest with
      | Some (pre, g, post) => Some (x :: pre, g, post)
      | None => None
      end
    else None
  end.

Definition styled_fillb (f : list tok) : bool :=
  match split_styled f with
  | Some (pre, _, post) =>
    forallb is_style post && attrs_default (style_after (style_after adefault pre) post)
  | None => false
  end.

(** ** padding with a fill segment *)

(** [fill * n] for the fill string whose tokens are [f]; [cursor_forward(n)] for the empty fill *)
Definition gfillseg (fill : option (list tok)) (n : Z) : list tok :=
  match fill with
  | Some f => rep (Z.to_nat n) f
  | None => if 0 <? n then [TCuf n] else []
  end.

(** [Padding.pad(render, render_size)], [padding.py:161-194] *)
Definition pad_gen (fill : option (list tok)) (d : Z * Z * Z * Z) (w : Z) (R : list tok) : list tok :=
  let '(l, t, r, b) := d in
  let width := l + w + r in
  let horizontal := negb (l =? 0) || negb (r =? 0) in
  let vertical := negb (t =? 0) || negb (b =? 0) in
  let lp := gfillseg fill l in
  let rp := gfillseg fill r in
  let top := rep (Z.to_nat t) (gfillseg fill width ++ [TLF]) in
  let bottom := rep (Z.to_nat b) (TLF :: gfillseg fill width) in
  if horizontal || vertical then
    top ++ lp ++ (if horizontal then subst_lf rp lp R else R) ++ rp ++ bottom
  else R.

(** the same on a render given as its lines *)
Definition pad_lines_gen (fill : option (list tok)) (d : Z * Z * Z * Z) (w : Z) (ls : list (list tok))
  : list (list tok) :=
  let '(l, t, r, b) := d in
  let width := l + w + r in
  repeat (gfillseg fill width) (Z.to_nat t)
  ++ map (fun ln => gfillseg fill l ++ ln ++ gfillseg fill r) ls
  ++ repeat (gfillseg fill width) (Z.to_nat b).

(** the fill of [model/Padding.v]: a single glyph is the one-token segment *)
Definition glyph_fill (fill : option glyph) : option (list tok) :=
  match fill with Some g => Some [TChar g] | None => None end.

(** cells that must be covered after padding ([PadProofs.need'] for a fill segment) *)
Definition gneed' (fill : option (list tok)) (need : Z -> Z -> bool) (w h l t : Z) (i j : Z) : bool :=
  if (t <=? i) && (i <? t + h) && (l <=? j) && (j <? l + w) then need (i - t) (j - l)
  else match fill with Some _ => true | None => false end.

(** ** an EXCLUDED design: one line of fill, the side margins cut out of it by position

    [padding_line = fill * width; left = padding_line[:l]; right = padding_line[:r]]: a slice
    counts the units the string is made of (tokens here, code points in Python), a margin
    counts columns.  The two agree exactly when the fill is one unit long. *)
Definition slicedseg (fill : option (list tok)) (width n : Z) : list tok :=
  match fill with
  | Some f => firstn (Z.to_nat n) (rep (Z.to_nat width) f)
  | None => if 0 <? n then [TCuf n] else []
  end.

Definition pad_sliced (fill : option (list tok)) (d : Z * Z * Z * Z) (w : Z) (R : list tok) : list tok :=
  let '(l, t, r, b) := d in
  let width := l + w + r in
  let horizontal := negb (l =? 0) || negb (r =? 0) in
  let vertical := negb (t =? 0) || negb (b =? 0) in
  let lp := slicedseg fill width l in
  let rp := slicedseg fill width r in
  let top := rep (Z.to_nat t) (gfillseg fill width ++ [TLF]) in
  let bottom := rep (Z.to_nat b) (TLF :: gfillseg fill width) in
  if horizontal || vertical then
    top ++ lp ++ (if horizontal then subst_lf rp lp R else R) ++ rp ++ bottom
  else R.
