(** C07, round 4: the specification side for faults at ANY point of draw() -- not only at the
    tracked stream write / flush / sleep / frame render calls of [model/C07Spec.v]:

    - [OAsync]: an ASYNCHRONOUS exception (KeyboardInterrupt, or an OSError standing for any
      Exception) delivered between two lines of library code while draw() runs, the way a
      signal handler's exception is (harness/impl/asyncfault.py: at the k-th 'line' event);
    - [OSource]: an ENVIRONMENT fault that makes an untracked step of draw() fail by itself:
      the source file of a file-sourced image has been removed / replaced by something that
      is not an image between the construction of the image and draw().

    One observed run = one [acase].  Whether the position lies inside clean-up code
    ([a_cleanup]: outside the property, "at any point before its own clean-up starts") and
    whether draw() itself had already entered a [try ... finally] ([a_strict]) are decided by
    the driver from the SOURCE TEXT (ast: the lines of [except] clauses and [finally] bodies
    -- the blocks [Eff.protect] marks in the translated skeletons -- and the library's
    clean-up entry points), never by looking at the outcome.

    Independent of the translated skeletons (only [C07Spec] is imported), so that it can be
    evaluated on a tree whose source the translator refuses.  Definitions only. *)
From Coq Require Import List ZArith Bool Arith.
Import ListNotations.
From TI Require Import lib.Term lib.RectCheck model.SkelTie model.DrawInt model.C07Spec.
Open Scope nat_scope.

Inductive origin := OAsync | OSource.

Record acase := mkacase {
  a_scn : scn;
  a_origin : origin;
  a_kind : nat;             (* 1 KeyboardInterrupt, 2 Exception *)
  a_cleanup : bool;         (* the position is clean-up code (outside the property) *)
  a_strict : bool;          (* draw()'s own frame was inside the body of a [try] with a [finally] *)
  a_started : bool;         (* a frame render call had been reached *)
  a_obs : list tok;         (* what the terminal received *)
  a_out : nat;              (* 0 returned, 1 KeyboardInterrupt, 2 Exception *)
  a_termios : bool;         (* tcgetattr before = after *)
  a_final_now : bool;       (* every RenderData created is finalized when draw() has returned / raised *)
  a_final_released : bool;  (* ... once the exception object (and with it the frames) is gone: RenderData.__del__ *)
  a_size : bool;            (* image.size setting unchanged *)
  a_seek : bool             (* image.tell() unchanged *)
}.

(** render data: inside draw()'s [try ... finally] it must be finalized when draw() raises;
    a fault between the creation of the render data and that [try] may leave it to
    [RenderData.__del__] (no code can close that window: the data exists before any
    [try] can be entered), which must then finalize it. *)
Definition final_anyb (c : acase) : bool :=
  if a_strict c then a_final_now c else (a_final_now c || a_final_released c).

(** still images propagate KeyboardInterrupt; animations, once a frame render has been
    reached, end silently on it (before that it may propagate, never as another exception);
    an environment fault propagates as the Exception it is; an asynchronous Exception
    propagates or is absorbed by a local fallback of the library (draw() then completes:
    every other obligation is still required), never turns into KeyboardInterrupt *)
Definition exc_anyb (c : acase) : bool :=
  match a_kind c with
  | 1 => if is_anim (a_scn c)
         then (if a_started c then Nat.eqb (a_out c) 0 else negb (Nat.eqb (a_out c) 2))
         else Nat.eqb (a_out c) 1
  | _ => match a_origin c with
         | OSource => Nat.eqb (a_out c) 2
         | OAsync => negb (Nat.eqb (a_out c) 1)
         end
  end.

(** same bits as [C07Spec.spec_bits]: 1 terminal, 2 termios, 4 finalized, 8 size, 16 seek, 32 exception *)
Definition any_bits (c : acase) : nat :=
  (if term_okb (is_new (a_scn c)) (Term.exec 0%Z (start 0%Z 0%Z) (a_obs c)) then 0 else 1)
  + (if a_termios c then 0 else 2) + (if final_anyb c then 0 else 4)
  + (if a_size c then 0 else 8) + (if a_seek c then 0 else 16) + (if exc_anyb c then 0 else 32).

(** (code, bits): 0 in scope and every obligation holds; 10 the position is clean-up code;
    2 in scope and an obligation is violated *)
Definition check_any (c : acase) : nat * nat :=
  let bits := any_bits c in
  if a_cleanup c then (10, bits) else if Nat.eqb bits 0 then (0, 0) else (2, bits).

(** (index, 100 * code + bits) of the cases whose code is not 0 *)
Definition bad_any (cases : list acase) : list (nat * nat) :=
  filter (fun ic => negb (Nat.ltb (snd ic) 100))
         (combine (seq 0 (length cases)) (map (fun c => let r := check_any c in 100 * fst r + snd r) cases)).
